/- the three copies of "no shifted counter anywhere in the schema" (written independently in
   AcceptImplies, CppRoundTripBase and CppEncode) are one predicate -/
import ProphyModel.Lemmas.AcceptImplies
import ProphyModel.Lemmas.CppRoundTripBase
import ProphyModel.Lemmas.CppEncode
namespace Prophy
open Prophy

mutual
  theorem Cpp.noShift_eq_accept : (t : Ty) → Cpp.noShift t = Accept.noShift t
    | .prim _ => rfl
    | .byte => rfl
    | .enum _ _ => rfl
    | .struct _ ms => by simp only [Cpp.noShift, Accept.noShift]; exact Cpp.noShiftMs_eq_accept ms
    | .union _ arms => by simp only [Cpp.noShift, Accept.noShift]; exact Cpp.noShiftArms_eq_accept arms
  theorem Cpp.noShiftMs_eq_accept : (ms : List Member) → Cpp.noShiftMs ms = Accept.noShiftMs ms
    | [] => rfl
    | .mk _ t k :: r => by
      simp only [Cpp.noShiftMs, Accept.noShiftMs, Cpp.noShift_eq_accept t, Cpp.noShiftMs_eq_accept r]
  theorem Cpp.noShiftArms_eq_accept : (arms : List Arm) → Cpp.noShiftArms arms = Accept.noShiftArms arms
    | [] => rfl
    | .mk _ _ t :: r => by
      simp only [Cpp.noShiftArms, Accept.noShiftArms, Cpp.noShift_eq_accept t, Cpp.noShiftArms_eq_accept r]
end

mutual
  theorem Cpp.noShift_cppenc_eq_accept : (t : Ty) → Cpp.noShift_cppenc t = Accept.noShift t
    | .prim _ => rfl
    | .byte => rfl
    | .enum _ _ => rfl
    | .struct _ ms => by simp only [Cpp.noShift_cppenc, Accept.noShift]; exact Cpp.noShiftMs_cppenc_eq_accept ms
    | .union _ arms => by simp only [Cpp.noShift_cppenc, Accept.noShift]; exact Cpp.noShiftArms_cppenc_eq_accept arms
  theorem Cpp.noShiftMs_cppenc_eq_accept : (ms : List Member) → Cpp.noShiftMs_cppenc ms = Accept.noShiftMs ms
    | [] => rfl
    | .mk _ t k :: r => by
      simp only [Cpp.noShiftMs_cppenc, Accept.noShiftMs, Cpp.noShift_cppenc_eq_accept t, Cpp.noShiftMs_cppenc_eq_accept r]
  theorem Cpp.noShiftArms_cppenc_eq_accept : (arms : List Arm) → Cpp.noShiftArms_cppenc arms = Accept.noShiftArms arms
    | [] => rfl
    | .mk _ _ t :: r => by
      simp only [Cpp.noShiftArms_cppenc, Accept.noShiftArms, Cpp.noShift_cppenc_eq_accept t, Cpp.noShiftArms_cppenc_eq_accept r]
end

/-- every schema prophyc accepts and that has no shifted counter is imported by the runtime: the
    hypotheses `front ∧ pyRt ∧ noShift` of the C++ theorems reduce to `front ∧ noShift` -/
theorem Accept.pyRt_of_front_noShift (t : Ty) (hf : Accept.front t = true) (hns : Accept.noShift t = true) :
    Accept.pyRt t = true := Accept.pyRt_of_front t hf hns

end Prophy

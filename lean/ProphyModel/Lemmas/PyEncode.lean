/- `Py.encode = Spec.enc` on well-formed schemas and well-typed, coherent values (C01) -/
import ProphyModel.Lemmas.Layout
import ProphyModel.Lemmas.Render
import ProphyModel.Lemmas.Scalars
namespace Prophy
open Prophy

theorem Py.pack_ok (e : Endian) (p : Prim) (i : Int) (h : inRange p i = true) :
    Py.pack e p i = .ok (scalarBytes e p.size (toUnsigned p.size i)) := by
  unfold Py.pack
  have : Py.primRange p = Prophy.primRange p := rfl
  simp only [inRange, Bool.and_eq_true, decide_eq_true_eq] at h
  simp [this, h]

/-- the chunks of one member's own encoding -/
def Spec.fieldChunks (all : List Member) (allv : List Val) (n : String) (t : Ty) (k : MKind) (v : Val) : List Spec.Chunk :=
  match k, v with
  | .plain, .sizer => [.scalar (Spec.sizeTy t) (Spec.counter n all allv + sizerShift n all)]
  | .plain, v => Spec.chunksTy t v
  | .optional, .absent => [.pad (max Spec.flagSize (Spec.alignTy t) + Spec.sizeTy t)]
  | .optional, .present x =>
    [.scalar Spec.flagSize 1, .pad (max Spec.flagSize (Spec.alignTy t) - Spec.flagSize)] ++ Spec.chunksTy t x
  | .fixed _, .arr xs => Spec.chunksElems t xs
  | .fixed _, .bytes b => [.raw b]
  | .dyn _ _, .arr xs => Spec.chunksElems t xs
  | .dyn _ _, .bytes b => [.raw b]
  | .limited _ c, .arr xs =>
    let es := Spec.chunksElems t xs
    es ++ [.pad (c * Spec.sizeTy t - Spec.clen es)]
  | .limited _ c, .bytes b => [.raw b, .pad (c - b.length)]
  | .greedy, .arr xs => Spec.chunksElems t xs
  | .greedy, .bytes b => [.raw b]
  | _, _ => []

theorem Spec.chunksMs_cons (all : List Member) (allv : List Val) (n : String) (t : Ty) (k : MKind)
    (r : List Member) (v : Val) (vs : List Val) (off : Nat) (ad : Bool) :
    Spec.chunksMs all allv (.mk n t k :: r) (v :: vs) off ad =
      .pad (padTo off (if ad then Spec.blockAlign (.mk n t k :: r) else Spec.alignMember (.mk n t k))) ::
        (Spec.fieldChunks all allv n t k v ++
          Spec.chunksMs all allv r vs
            (off + padTo off (if ad then Spec.blockAlign (.mk n t k :: r) else Spec.alignMember (.mk n t k))
              + Spec.clen (Spec.fieldChunks all allv n t k v))
            (Spec.endsBlock (.mk n t k))) := by
  cases k <;> cases v <;> simp [Spec.chunksMs, Spec.fieldChunks]

end Prophy

namespace Prophy
open Prophy

/-- the bytes of one member's own encoding (the body of the loop of struct.encode) -/
def Py.fieldBytes (e : Endian) (all : List Member) (allv : List Val) (n : String) (t : Ty) (k : MKind)
    (v : Val) (f : Py.St) : Py.M Bytes :=
  match k, v with
  | .plain, v =>
    if isSizer n all then do
      let c ← Py.evaluateSize n all allv
      Py.pack e (Py.sizerPrim t) (c + sizerShift n all)
    else Py.encTy e t v
  | .optional, .absent => pure (zeros f.size)
  | .optional, .present x => do
    let flag ← Py.pack e .u32 1
    let b ← Py.encTy e t x
    pure (Py.ljust flag f.align ++ b)
  | .fixed _, .arr xs => Py.encElems e t xs
  | .fixed c, .bytes b => pure (Py.ljust b c)
  | .dyn _ _, .arr xs => Py.encElems e t xs
  | .dyn _ _, .bytes b => pure b
  | .limited _ _, .arr xs => do
    let b ← Py.encElems e t xs
    pure (Py.ljust b f.size)
  | .limited _ c, .bytes b => pure (Py.ljust b c)
  | .greedy, .arr xs => Py.encElems e t xs
  | .greedy, .bytes b => pure b
  | _, _ => .error .type

theorem Py.encMs_cons (e : Endian) (all : List Member) (allv : List Val) (n : String) (t : Ty) (k : MKind)
    (r : List Member) (v : Val) (vs : List Val) (f : Py.St) (fs : List Py.St) (p : Option Nat)
    (ps : List (Option Nat)) (off : Nat) :
    Py.encMs e all allv (.mk n t k :: r) (v :: vs) (f :: fs) (p :: ps) off =
      (do
        let body ← Py.fieldBytes e all allv n t k v f
        let off1 := off + padTo off f.align + body.length
        let pad2 := match p with
          | some a => padTo off1 a
          | none => 0
        let rest ← Py.encMs e all allv r vs fs ps (off1 + pad2)
        pure (zeros (padTo off f.align) ++ body ++ zeros pad2 ++ rest)) := by
  cases k <;> cases v <;> (simp only [Py.encMs, Py.fieldBytes]; try rfl)

end Prophy

namespace Prophy
open Prophy WF

/-! ### per-struct facts about sizers -/

theorem WF.uniq_find (all : List Member) (h : uniq (all.map (·.name)) = true) (m : Member) (hm : m ∈ all) :
    all.find? (fun x => x.name == m.name) = some m := by
  induction all with
  | nil => cases hm
  | cons a r ih =>
    simp only [List.map, uniq, Bool.and_eq_true, Bool.not_eq_true'] at h
    rcases List.mem_cons.1 hm with rfl | hr
    · simp [List.find?]
    · have hne : (a.name == m.name) = false := by
        cases hc : (a.name == m.name) with
        | false => rfl
        | true =>
          have : a.name = m.name := by simpa using hc
          have hin : (r.map (·.name)).contains a.name = true := by
            rw [this]; simp only [List.contains_iff_mem, List.mem_map]
            exact ⟨m, hr, rfl⟩
          rw [hin] at h; cases h.1
      simp only [List.find?, hne]
      exact ih h.2 hr


theorem WF.wfMs_mem (all : List Member) : (ms : List Member) → wfMs all ms = true → ∀ m ∈ ms,
    wfTy m.ty = true ∧ (needsFixed m.kind = true → Spec.fixedTy m.ty = true) ∧
    (∀ s, m.kind.sizer? = some s → sizerOk all s = true) ∧ shiftOk all m.kind = true
  | [], _, m, hm => by cases hm
  | .mk n t k :: r, h, m, hm => by
    obtain ⟨h1, h2, h3, h4, h5⟩ := (wfMs_cons all n t k r).1 h
    rcases List.mem_cons.1 hm with rfl | hr
    · exact ⟨h1, h2, h3, h4⟩
    · exact WF.wfMs_mem all r h5 m hr

theorem isSizer_iff (n : String) (all : List Member) :
    isSizer n all = true ↔ ∃ m ∈ all, m.kind.sizer? = some n := by
  simp [isSizer, List.any_eq_true]

/-- the member a bound array names as its sizer is a plain integer member -/
theorem WF.sizer_prim (all : List Member) (hu : uniq (all.map (·.name)) = true) (hw : wfMs all all = true)
    (n : String) (t : Ty) (k : MKind) (hm : Member.mk n t k ∈ all) (hs : isSizer n all = true) :
    ∃ p, t = .prim p ∧ k = .plain ∧ p.isFloat = false ∧ sizerMax n all = (primRange p).2 := by
  obtain ⟨m', hm', hs'⟩ := (isSizer_iff n all).1 hs
  have hok := (WF.wfMs_mem all all hw m' hm').2.2.1 n hs'
  have hf : all.find? (fun x => x.name == n) = some (.mk n t k) := WF.uniq_find all hu _ hm
  unfold sizerOk at hok
  rw [hf] at hok
  unfold sizerMax
  rw [hf]
  cases t <;> cases k <;> simp_all

theorem eraseDups_const (l : List Nat) (c : Nat) (hne : l ≠ []) (h : ∀ x ∈ l, x = c) : l.eraseDups = [c] := by
  cases l with
  | nil => exact absurd rfl hne
  | cons a r =>
    have ha : a = c := h a (List.mem_cons_self ..)
    subst ha
    rw [List.eraseDups_cons]
    have : (r.filter fun b => !b == a) = [] := by
      apply List.filter_eq_nil_iff.2
      intro x hx
      have := h x (List.mem_cons_of_mem _ hx)
      simp [this]
    rw [this]; rfl


/-- a bound array holds no more than its sizer can count above the shift -/
theorem hasField_len (all : List Member) (k : MKind) (t : Ty) (v : Val) (s : String)
    (hk : k.sizer? = some s) (h : hasField all k t v = true) : (v.len : Int) ≤ sizerMax s all - (k.shift : Int) := by
  cases k with
  | dyn s' sh =>
    simp only [MKind.sizer?, Option.some.injEq] at hk; subst hk
    cases v <;> cases t <;> simp_all [hasField, Val.len, MKind.shift]
  | limited s' c =>
    simp only [MKind.sizer?, Option.some.injEq] at hk; subst hk
    cases v <;> cases t <;> simp_all [hasField, Val.len, MKind.shift]
  | _ => simp [MKind.sizer?] at hk

theorem hasMs_cons (all : List Member) (n : String) (t : Ty) (k : MKind) (r : List Member) (v : Val) (vs : List Val) :
    hasMs all (.mk n t k :: r) (v :: vs) = true ↔
      (v.isCounter = isSizer n all) ∧ hasField all k t v = true ∧ hasMs all r vs = true := by
  cases v <;> simp [hasMs, Val.isCounter, and_assoc]

theorem boundLens_bound (all : List Member) (s : String) : (ms : List Member) → (vs : List Val) →
    wfMs all ms = true → hasMs all ms vs = true →
    ∀ x ∈ boundLens s ms vs, (x : Int) + (sizerShift s all : Int) ≤ sizerMax s all
  | [], _, _, _, x, hx => by simp [boundLens] at hx
  | _ :: _, [], _, _, x, hx => by simp [boundLens] at hx
  | .mk n t k :: r, v :: vs, hw, hh, x, hx => by
    obtain ⟨_, _, _, hsh, hwr⟩ := (wfMs_cons all n t k r).1 hw
    obtain ⟨_, hf, hhr⟩ := (hasMs_cons all n t k r v vs).1 hh
    simp only [boundLens] at hx
    by_cases hk : (Member.mk n t k).kind.sizer? = some s
    · rw [if_pos hk] at hx
      replace hk : k.sizer? = some s := hk
      rcases List.mem_cons.1 hx with rfl | hx'
      · have := hasField_len all k t v s hk hf
        unfold shiftOk at hsh
        rw [hk] at hsh
        simp only [Bool.and_eq_true, decide_eq_true_eq, beq_iff_eq] at hsh
        rw [← hsh.2]; omega
      · exact boundLens_bound all s r vs hwr hhr x hx'
    · rw [if_neg hk] at hx
      exact boundLens_bound all s r vs hwr hhr x hx

theorem boundLens_ne_nil (all : List Member) (s : String) : (ms : List Member) → (vs : List Val) →
    hasMs all ms vs = true → (∃ m ∈ ms, m.kind.sizer? = some s) → boundLens s ms vs ≠ []
  | [], _, _, ⟨m, hm, _⟩ => by cases hm
  | _ :: _, [], hh, _ => by simp [hasMs] at hh
  | .mk n t k :: r, v :: vs, hh, ⟨m, hm, hs⟩ => by
    obtain ⟨_, _, hhr⟩ := (hasMs_cons all n t k r v vs).1 hh
    simp only [boundLens]
    by_cases hk : (Member.mk n t k).kind.sizer? = some s
    · rw [if_pos hk]; simp
    · rw [if_neg hk]
      rcases List.mem_cons.1 hm with rfl | hr
      · exact absurd hs hk
      · exact boundLens_ne_nil all s r vs hhr ⟨m, hr, hs⟩

/-- what the proofs need to know about the counters of one struct value -/
structure SizerFacts (e : Endian) (all : List Member) (allv : List Val) : Prop where
  enc : ∀ n t k, Member.mk n t k ∈ all → isSizer n all = true →
    ∃ p, t = .prim p ∧
      Py.evaluateSize n all allv = .ok (Spec.counter n all allv) ∧
      Py.pack e p ((Spec.counter n all allv : Int) + (sizerShift n all : Int)) =
        .ok (scalarBytes e p.size (Spec.counter n all allv + sizerShift n all))

theorem primRange_nonfloat (p : Prim) (h : p.isFloat = false) :
    (primRange p).1 ≤ 0 ∧ (primRange p).2 ≤ ((256 ^ p.size : Nat) : Int) - 1 := by
  cases p <;> simp_all [primRange, Prim.isFloat, Prim.isSigned, Prim.size]

theorem sizerFacts (e : Endian) (all : List Member) (allv : List Val)
    (hu : uniq (all.map (·.name)) = true) (hw : wfMs all all = true)
    (hh : hasMs all all allv = true) (ha : agreeMs all allv = true) : SizerFacts e all allv := by
  refine ⟨fun n t k hm hs => ?_⟩
  obtain ⟨p, rfl, _, hfl, hmax⟩ := WF.sizer_prim all hu hw n t k hm hs
  obtain ⟨m', hm', hs'⟩ := (isSizer_iff n all).1 hs
  have hne := boundLens_ne_nil all n all allv hh ⟨m', hm', hs'⟩
  have hall : ∀ x ∈ boundLens n all allv, x = Spec.counter n all allv := by
    have := (List.all_eq_true.1 ha) m' hm'
    rw [hs'] at this
    intro x hx
    have := (List.all_eq_true.1 this) x hx
    simpa using this
  have hev : Py.evaluateSize n all allv = .ok (Spec.counter n all allv) := by
    unfold Py.evaluateSize
    rw [eraseDups_const _ _ hne hall]
  have hmem : Spec.counter n all allv ∈ boundLens n all allv := by
    unfold Spec.counter
    cases hb : boundLens n all allv with
    | nil => exact absurd hb hne
    | cons a r => simp
  have hb := boundLens_bound all n all allv hw hh _ hmem
  obtain ⟨hlo, hhi⟩ := primRange_nonfloat p hfl
  refine ⟨p, rfl, hev, ?_⟩
  have hin : inRange p ((Spec.counter n all allv + sizerShift n all : Nat) : Int) = true := by
    simp only [inRange, Bool.and_eq_true, decide_eq_true_eq]
    rw [hmax] at hb
    constructor <;> omega
  have hcast : ((Spec.counter n all allv : Int) + (sizerShift n all : Int)) = ((Spec.counter n all allv + sizerShift n all : Nat) : Int) := by omega
  rw [hcast, Py.pack_ok e p _ hin]
  congr 2
  have := toUnsigned_nonneg p.size ((Spec.counter n all allv + sizerShift n all : Nat) : Int) (by omega) (by rw [hmax] at hb; omega)
  omega

end Prophy

namespace Prophy
open Prophy WF

theorem hasField_plain_indep (al al' : List Member) (t : Ty) (v : Val) :
    hasField al .plain t v = hasField al' .plain t v := by
  cases v <;> cases t <;> simp [hasField]

theorem Spec.fieldChunks_plain (all : List Member) (allv : List Val) (n : String) (t : Ty) (v : Val)
    (h : v.isCounter = false) : Spec.fieldChunks all allv n t .plain v = Spec.chunksTy t v := by
  cases v <;> simp_all [Spec.fieldChunks, Val.isCounter]

theorem Py.fieldBytes_plain (e : Endian) (all : List Member) (allv : List Val) (n : String) (t : Ty) (v : Val)
    (f : Py.St) (h : isSizer n all = false) : Py.fieldBytes e all allv n t .plain v f = Py.encTy e t v := by
  simp [Py.fieldBytes, h]

theorem isSizer_nil (n : String) : isSizer n [] = false := rfl

theorem zeros_add (a b : Nat) : zeros (a + b) = zeros a ++ zeros b := by
  simp [zeros, List.replicate_append_replicate]

theorem zeros_zero : zeros 0 = [] := rfl

theorem Py.ljust_eq (b : Bytes) (n : Nat) : Py.ljust b n = b ++ zeros (n - b.length) := rfl

theorem toUnsigned_nat (k n : Nat) (h : n < 256 ^ k) : toUnsigned k (n : Int) = n := by
  have := toUnsigned_nonneg k (n : Int) (by omega) (by omega)
  omega

theorem render_scalar (e : Endian) (k n : Nat) : Spec.render e [.scalar k n] = scalarBytes e k n := by
  simp [Spec.render, Spec.Chunk.render]

theorem render_cons (e : Endian) (c : Spec.Chunk) (r : List Spec.Chunk) :
    Spec.render e (c :: r) = c.render e ++ Spec.render e r := rfl

theorem inRange_u32 (n : Nat) (h : n < 2 ^ 32) : inRange .u32 (n : Int) = true := by
  simp [inRange, primRange, Prim.isFloat, Prim.isSigned, Prim.size]; omega

theorem inRange_enum (es : List (String × Nat)) (i : Int)
    (hw : es.all (fun en => decide (en.2 < 2 ^ 32)) = true) (h : es.any (fun e => (e.2 : Int) == i) = true) :
    inRange .u32 i = true := by
  obtain ⟨en, hen, heq⟩ := List.any_eq_true.1 h
  have := List.all_eq_true.1 hw en hen
  simp only [decide_eq_true_eq] at this
  have hi : (en.2 : Int) = i := by simpa using heq
  rw [← hi]; exact inRange_u32 _ this

theorem WF.wfArms_get : (arms : List Arm) → wfArms arms = true → ∀ (idx : Nat) (a : Arm), arms[idx]? = some a →
    wfTy a.ty = true ∧ Spec.fixedTy a.ty = true
  | [], _, idx, a, h => by simp at h
  | .mk n d t :: r, hw, idx, a, h => by
    obtain ⟨h1, h2, h3⟩ := (wfArms_cons n d t r).1 hw
    cases idx with
    | zero => simp at h; subst h; exact ⟨h1, h2⟩
    | succ i => simp at h; exact WF.wfArms_get r h3 i a h

theorem WF.fixedArms_of_wf : (arms : List Arm) → wfArms arms = true → Spec.fixedArms arms = true
  | [], _ => rfl
  | .mk n d t :: r, hw => by
    obtain ⟨_, h2, h3⟩ := (wfArms_cons n d t r).1 hw
    simp [Spec.fixedArms, h2, WF.fixedArms_of_wf r h3]

end Prophy

namespace Prophy
open Prophy WF

/-- the alignment the runtime has already applied when the loop reaches a member: after a dynamic
    field it padded to the block alignment of what follows -/
def aheadAl (ad : Bool) (ms : List Member) : Nat := if ad then Spec.blockAlign ms else 1

abbrev SizerEnc (e : Endian) (all : List Member) (allv : List Val) (n : String) (t : Ty) : Prop :=
  isSizer n all = true → ∃ p, t = .prim p ∧
    Py.evaluateSize n all allv = .ok (Spec.counter n all allv) ∧
    Py.pack e p ((Spec.counter n all allv : Int) + (sizerShift n all : Int)) =
      .ok (scalarBytes e p.size (Spec.counter n all allv + sizerShift n all))

mutual
  theorem field_ok (e : Endian) : (v : Val) → ∀ (all : List Member) (allv : List Val) (n : String) (t : Ty) (k : MKind),
      wfTy t = true → (needsFixed k = true → Spec.fixedTy t = true) →
      hasField all k t v = true → agreeTy t v = true →
      v.isCounter = isSizer n all → SizerEnc e all allv n t →
      Py.fieldBytes e all allv n t k v (Py.fieldSt (Py.stTy t) k) =
        .ok (Spec.render e (Spec.fieldChunks all allv n t k v))
    | .sizer, all, allv, n, t, k, hwt, hfx, hh, hag, hc, hs => by
      have hk : k = .plain := by cases k <;> simp_all [hasField]
      subst hk
      have hsz : isSizer n all = true := by simpa [Val.isCounter] using hc.symm
      obtain ⟨p, rfl, hev, hpk⟩ := hs hsz
      simp [Py.fieldBytes, hsz, hev, bind, Except.bind, Py.sizerPrim, hpk, Spec.fieldChunks, render_scalar, Spec.sizeTy]
    | .int i, all, allv, n, t, k, hwt, hfx, hh, hag, hc, hs => by
      have hns : isSizer n all = false := by simpa [Val.isCounter] using hc.symm
      have hk : k = .plain := by cases k <;> cases t <;> simp_all [hasField]
      subst hk
      rw [Py.fieldBytes_plain e all allv n t _ _ hns, Spec.fieldChunks_plain all allv n t _ rfl]
      cases t with
      | prim p =>
        have hr : inRange p i = true := by simpa [hasField] using hh
        simp [Py.encTy, Spec.chunksTy, Py.pack_ok e p i hr, render_scalar]
      | byte =>
        have hr : inRange .u8 i = true := by simpa [hasField] using hh
        simp [Py.encTy, Spec.chunksTy, Py.pack_ok e .u8 i hr, render_scalar, Prim.size]
      | enum nm es =>
        have hr : inRange .u32 i = true := by
          apply inRange_enum es i
          · simpa [wfTy] using hwt
          · simpa [hasField] using hh
        simp [Py.encTy, Spec.chunksTy, Py.pack_ok e .u32 i hr, render_scalar, Prim.size]
      | struct nm ms => simp [hasField] at hh
      | union nm arms => simp [hasField] at hh
    | .struct vs, all, allv, n, t, k, hwt, hfx, hh, hag, hc, hs => by
      have hns : isSizer n all = false := by simpa [Val.isCounter] using hc.symm
      cases t with
      | struct nm ms =>
        have hk : k = .plain := by cases k <;> simp_all [hasField]
        subst hk
        rw [Py.fieldBytes_plain e all allv n _ _ _ hns, Spec.fieldChunks_plain all allv n _ _ rfl]
        have hhm : hasMs ms ms vs = true := by simpa [hasField] using hh
        simp only [wfTy, Bool.and_eq_true] at hwt
        simp only [agreeTy, Bool.and_eq_true] at hag
        have sf := sizerFacts e ms vs hwt.1 hwt.2 hhm hag.1
        obtain ⟨B, hB, hEq⟩ := ms_ok e vs ms ms vs sf (fun m hm => hm) hwt.2 hhm hag.2 0 false
        simp only [aheadAl, alignUp_one, padTo_one, zeros_zero, List.nil_append, Bool.false_eq_true, if_false] at hB hEq
        have hsa : (Py.structSt (Py.stMs ms)).align = Spec.alignMs ms := by
          simp [Py.structSt, Py.stMs_align]
        simp [Py.encTy, Spec.chunksTy, hB, hEq, hsa, bind, Except.bind, pure, Except.pure, Spec.render, Spec.Chunk.render]
      | prim p => cases k <;> simp [hasField] at hh
      | byte => cases k <;> simp [hasField] at hh
      | enum nm es => cases k <;> simp [hasField] at hh
      | union nm arms => cases k <;> simp [hasField] at hh
    | .union idx x, all, allv, n, t, k, hwt, hfx, hh, hag, hc, hs => by
      have hns : isSizer n all = false := by simpa [Val.isCounter] using hc.symm
      cases t with
      | union nm arms =>
        have hk : k = .plain := by cases k <;> simp_all [hasField]
        subst hk
        rw [Py.fieldBytes_plain e all allv n _ _ _ hns, Spec.fieldChunks_plain all allv n _ _ rfl]
        simp only [hasField, Bool.true_and] at hh
        cases ha : arms[idx]? with
        | none => simp [ha] at hh
        | some a =>
          obtain ⟨an, d, t'⟩ := a
          simp only [ha, Bool.and_eq_true, Bool.not_eq_true'] at hh
          simp only [wfTy, Bool.and_eq_true] at hwt
          obtain ⟨hwt', hfx'⟩ := WF.wfArms_get arms hwt.2 idx _ ha
          have hd : d < 2 ^ 32 := by
            have := List.all_eq_true.1 hwt.1 (.mk an d t') (List.mem_of_getElem? ha)
            exact of_decide_eq_true this
          have h1 := field_ok e x [] [] "" t' .plain hwt' (by intro h; cases h) hh.2
            (by simpa [agreeTy, ha] using hag) (by rw [hh.1]; rfl) (by intro h; cases h)
          rw [Py.fieldBytes_plain e [] [] "" t' x _ rfl, Spec.fieldChunks_plain [] [] "" t' x hh.1] at h1
          have hfa := WF.fixedArms_of_wf arms hwt.2
          have hus : (Py.unionSt (Py.stArms arms)).size = Spec.sizeTy (.union nm arms) :=
            Py.stTy_size (.union nm arms) (by simpa [Spec.fixedTy] using hfa)
          have hua : (Py.unionSt (Py.stArms arms)).align = max 4 (Spec.alignArms arms) := by
            simp [Py.unionSt, Py.stArms_align, Py.flagSize]
          have hdisc : Py.pack e .u32 d = .ok (scalarBytes e 4 d) := by
            rw [Py.pack_ok e .u32 d (inRange_u32 d hd)]
            simp [Prim.size, toUnsigned_nat 4 d (by simpa using hd)]
          have hnm : Spec.sizeTy (.union "" arms) = Spec.sizeTy (.union nm arms) := by simp [Spec.sizeTy]
          simp [Py.encTy, Spec.chunksTy, ha, h1, hdisc, hus, hua, hnm, bind, Except.bind, pure, Except.pure, Py.ljust_eq,
            Spec.render, Spec.Chunk.render, Spec.flagSize]
          congr 1; omega
      | prim p => cases k <;> simp [hasField] at hh
      | byte => cases k <;> simp [hasField] at hh
      | enum nm es => cases k <;> simp [hasField] at hh
      | struct nm ms => cases k <;> simp [hasField] at hh
    | .absent, all, allv, n, t, k, hwt, hfx, hh, hag, hc, hs => by
      have hk : k = .optional := by cases k <;> simp_all [hasField]
      subst hk
      have hsz := Py.stTy_size t (hfx rfl)
      have hal := Py.stTy_align t
      simp [Py.fieldBytes, Spec.fieldChunks, Py.fieldSt, hsz, hal, Spec.render, Spec.Chunk.render, pure, Except.pure,
        Py.flagSize, Spec.flagSize]
    | .present x, all, allv, n, t, k, hwt, hfx, hh, hag, hc, hs => by
      have hk : k = .optional := by cases k <;> simp_all [hasField]
      subst hk
      simp only [hasField, Bool.true_and, Bool.and_eq_true, Bool.not_eq_true'] at hh
      have hx : hasField [] .plain t x = true := by rw [hasField_plain_indep [] all]; exact hh.2
      have h1 := field_ok e x [] [] "" t .plain hwt (by intro h; cases h) hx (by simpa [agreeTy] using hag)
        (by rw [hh.1]; rfl) (by intro h; cases h)
      rw [Py.fieldBytes_plain e [] [] "" t x _ rfl, Spec.fieldChunks_plain [] [] "" t x hh.1] at h1
      have hal := Py.stTy_align t
      have hone : Py.pack e .u32 1 = .ok (scalarBytes e 4 1) := by
        rw [Py.pack_ok e .u32 1 (by decide)]; rfl
      simp [Py.fieldBytes, Spec.fieldChunks, Py.fieldSt, h1, hone, hal, bind, Except.bind, pure, Except.pure,
        Py.ljust_eq, Spec.render, Spec.Chunk.render, Py.flagSize, Spec.flagSize]
    | .bytes b, all, allv, n, t, k, hwt, hfx, hh, hag, hc, hs => by
      have ht : t = .byte := by cases t <;> simp_all [hasField]
      subst ht
      cases k with
      | plain => simp [hasField] at hh
      | optional => simp [hasField] at hh
      | fixed c =>
        have hl : b.length = c := by simpa [hasField] using hh
        simp [Py.fieldBytes, Spec.fieldChunks, Py.ljust_eq, hl, zeros_zero, Spec.render, Spec.Chunk.render, pure, Except.pure]
      | dyn s sh => simp [Py.fieldBytes, Spec.fieldChunks, Spec.render, Spec.Chunk.render, pure, Except.pure]
      | limited s c => simp [Py.fieldBytes, Spec.fieldChunks, Py.ljust_eq, Spec.render, Spec.Chunk.render, pure, Except.pure]
      | greedy => simp [Py.fieldBytes, Spec.fieldChunks, Spec.render, Spec.Chunk.render, pure, Except.pure]
    | .arr xs, all, allv, n, t, k, hwt, hfx, hh, hag, hc, hs => by
      have hel : hasElems t xs = true := by
        cases t <;> simp_all [hasField]
      have h1 := elems_ok e xs t hwt hel (by simpa [agreeTy] using hag)
      cases k with
      | plain => cases t <;> simp [hasField] at hh
      | optional => cases t <;> simp [hasField] at hh
      | fixed c => simp [Py.fieldBytes, Spec.fieldChunks, h1]
      | dyn s sh => simp [Py.fieldBytes, Spec.fieldChunks, h1]
      | greedy => simp [Py.fieldBytes, Spec.fieldChunks, h1]
      | limited s c =>
        have hsz := Py.stTy_size t (hfx rfl)
        simp [Py.fieldBytes, Spec.fieldChunks, h1, bind, Except.bind, pure, Except.pure, Py.ljust_eq, Py.fieldSt, hsz,
          Spec.render, Spec.Chunk.render]
  theorem ms_ok (e : Endian) : (vs : List Val) → ∀ (ms all : List Member) (allv : List Val),
      SizerFacts e all allv → (∀ m ∈ ms, m ∈ all) → wfMs all ms = true → hasMs all ms vs = true →
      agreeFields ms vs = true → ∀ (off : Nat) (ad : Bool),
      ∃ B, Py.encMs e all allv ms vs (Py.stMs ms) (Py.partials (Py.stMs ms)) (alignUp off (aheadAl ad ms)) = .ok B ∧
        zeros (padTo off (aheadAl ad ms)) ++ B = Spec.render e (Spec.chunksMs all allv ms vs off ad)
    | [], ms, all, allv, sf, hsub, hw, hh, hag, off, ad => by
      have hms : ms = [] := by cases ms <;> simp_all [hasMs]
      subst hms
      refine ⟨[], ?_, ?_⟩
      · simp [Py.encMs, pure, Except.pure]
      · cases ad <;> simp [aheadAl, Spec.blockAlign, padTo_one, Spec.chunksMs, Spec.render, zeros_zero]
    | v :: vs, ms, all, allv, sf, hsub, hw, hh, hag, off, ad => by
      cases ms with
      | nil => simp [hasMs] at hh
      | cons m r =>
        obtain ⟨n, t, k⟩ := m
        obtain ⟨hwt, hfx, _, _, hwr⟩ := (wfMs_cons all n t k r).1 hw
        obtain ⟨hcnt, hf, hhr⟩ := (hasMs_cons all n t k r v vs).1 hh
        simp only [agreeFields, Bool.and_eq_true] at hag
        have hmem : Member.mk n t k ∈ all := hsub _ (List.mem_cons_self ..)
        have hbody := field_ok e v all allv n t k hwt hfx hf hag.1 hcnt (fun hs => sf.enc n t k hmem hs)
        have hal : (Py.fieldSt (Py.stTy t) k).align = Spec.alignMember (.mk n t k) := Py.fieldSt_align_member n t k
        have hdyn : (Py.fieldSt (Py.stTy t) k).dyn = Spec.endsBlock (.mk n t k) := Py.fieldSt_dyn all n t k r hw
        have hpa : Py.partialAl (Py.stMs r) = Spec.blockAlign r := Py.partialAl_stMs all r hwr
        generalize hadef : (if ad = true then Spec.blockAlign (.mk n t k :: r) else Spec.alignMember (.mk n t k)) = a
        generalize hfc : Spec.fieldChunks all allv n t k v = fc at hbody
        have hoff : alignUp off (aheadAl ad (.mk n t k :: r))
              + padTo (alignUp off (aheadAl ad (.mk n t k :: r))) (Spec.alignMember (.mk n t k)) = off + padTo off a ∧
            padTo off (aheadAl ad (.mk n t k :: r))
              + padTo (alignUp off (aheadAl ad (.mk n t k :: r))) (Spec.alignMember (.mk n t k)) = padTo off a := by
          cases ad
          · simp at hadef; subst hadef
            simp [aheadAl, alignUp_one, padTo_one]
          · simp at hadef; subst hadef
            have hd := Spec.alignMember_dvd_blockAlign (.mk n t k) r
            have hp := (Spec.blockAlign_isAl (.mk n t k :: r)).pos
            have h0 := padTo_alignUp_of_dvd off _ _ hp hd
            unfold alignUp at h0
            simp [aheadAl, alignUp, h0]
        obtain ⟨B', hB', hEq'⟩ := ms_ok e vs r all allv sf (fun m hm => hsub m (List.mem_cons_of_mem _ hm)) hwr hhr hag.2
          (off + padTo off a + Spec.clen fc) (Spec.endsBlock (.mk n t k))
        have hst : Py.stMs (.mk n t k :: r) = Py.fieldSt (Py.stTy t) k :: Py.stMs r := by simp [Py.stMs]
        refine ⟨zeros (padTo (alignUp off (aheadAl ad (.mk n t k :: r))) (Spec.alignMember (.mk n t k))) ++ Spec.render e fc
            ++ zeros (padTo (off + padTo off a + Spec.clen fc) (aheadAl (Spec.endsBlock (.mk n t k)) r)) ++ B', ?_, ?_⟩
        · rw [hst, Py.partials_cons, Py.encMs_cons, hbody]
          simp only [bind, Except.bind, hal, hdyn, hpa, Spec.render_length, hoff.1]
          cases heb : Spec.endsBlock (.mk n t k)
          · simp [heb, aheadAl, padTo_one, alignUp_one] at hB' ⊢
            simp [hB', pure, Except.pure, zeros_zero]
          · simp [heb, aheadAl, alignUp] at hB' ⊢
            simp [hB', pure, Except.pure]
        · rw [Spec.chunksMs_cons, hadef, hfc]
          simp only [render_cons, Spec.render_append, Spec.Chunk.render]
          rw [← hEq', ← hoff.2, zeros_add]
          simp [List.append_assoc]
  theorem elems_ok (e : Endian) : (xs : List Val) → ∀ (t : Ty), wfTy t = true → hasElems t xs = true →
      agreeElems t xs = true → Py.encElems e t xs = .ok (Spec.render e (Spec.chunksElems t xs))
    | [], t, hwt, hh, hag => by
      simp [Py.encElems, Spec.chunksElems, Spec.render, pure, Except.pure]
    | x :: xs, t, hwt, hh, hag => by
      simp only [hasElems, Bool.and_eq_true, Bool.not_eq_true'] at hh
      simp only [agreeElems, Bool.and_eq_true] at hag
      have h1 := field_ok e x [] [] "" t .plain hwt (by intro h; cases h) hh.1.2 hag.1
        (by rw [hh.1.1]; rfl) (by intro h; cases h)
      rw [Py.fieldBytes_plain e [] [] "" t x _ rfl, Spec.fieldChunks_plain [] [] "" t x hh.1.1] at h1
      have h2 := elems_ok e xs t hwt hh.2 hag.2
      simp [Py.encElems, Spec.chunksElems, h1, h2, bind, Except.bind, pure, Except.pure]
end


/-- `Message.encode()` of the Python runtime produces the canonical encoding of docs/encoding.rst -/
theorem Py.encode_canonical (t : Ty) (v : Val) (e : Endian) (hw : wfTy t = true) (hv : hasType t v = true)
    (ha : agreeTy t v = true) : Py.encode t v e = .ok (Spec.enc t v e) := by
  simp only [hasType, Bool.and_eq_true, Bool.not_eq_true'] at hv
  have h := field_ok e v [] [] "" t .plain hw (by intro h; cases h) hv.2 ha (by rw [hv.1]; rfl) (by intro h; cases h)
  rw [Py.fieldBytes_plain e [] [] "" t v _ rfl, Spec.fieldChunks_plain [] [] "" t v hv.1] at h
  exact h

end Prophy

/- the layout kernel: padTo / alignUp arithmetic -/
import ProphyModel.Basic
namespace Prophy

theorem padTo_lt (off a : Nat) (ha : 0 < a) : padTo off a < a := by
  unfold padTo; exact Nat.mod_lt _ ha

theorem padTo_eq_zero_of_dvd (off a : Nat) (h : a ∣ off) : padTo off a = 0 := by
  unfold padTo
  obtain ⟨k, rfl⟩ := h
  simp

theorem alignUp_of_dvd (off a : Nat) (h : a ∣ off) : alignUp off a = off := by
  unfold alignUp; rw [padTo_eq_zero_of_dvd off a h]; rfl

theorem dvd_alignUp (off a : Nat) (ha : 0 < a) : a ∣ alignUp off a := by
  unfold alignUp padTo
  have hlt := Nat.mod_lt off ha
  by_cases hz : off % a = 0
  · have : (a - off % a) % a = 0 := by rw [hz]; simp
    rw [this]; exact Nat.dvd_of_mod_eq_zero (by simpa using hz)
  · have h2 : (a - off % a) % a = a - off % a := Nat.mod_eq_of_lt (by omega)
    rw [h2]
    have hd := Nat.div_add_mod off a
    refine ⟨off / a + 1, ?_⟩
    rw [Nat.mul_add]; omega

theorem le_alignUp (off a : Nat) : off ≤ alignUp off a := by unfold alignUp; omega

theorem alignUp_lt (off a : Nat) (ha : 0 < a) : alignUp off a < off + a := by
  unfold alignUp; have := padTo_lt off a ha; omega

/-- position independence: a block that starts at a multiple of `a` is padded the same as one starting at 0 -/
theorem padTo_add_mul (s off a : Nat) (h : a ∣ s) : padTo (s + off) a = padTo off a := by
  unfold padTo
  obtain ⟨k, rfl⟩ := h
  rw [Nat.mul_add_mod]

theorem alignUp_idem (off a : Nat) (ha : 0 < a) : alignUp (alignUp off a) a = alignUp off a :=
  alignUp_of_dvd _ _ (dvd_alignUp off a ha)

end Prophy

/- C10: the Python message API keeps every reachable state well-typed -/
import ProphyModel.Api
import ProphyModel.Accept
import ProphyModel.WF
import ProphyModel.Lemmas.WFAccept
namespace Prophy
open Prophy

/-! ## views of the typing predicate -/

theorem hasField_plain_all (all all' : List Member) (t : Ty) (v : Val) :
    hasField all .plain t v = hasField all' .plain t v := by
  cases v <;> cases t <;> simp [hasField]

/-- the length condition of an array / bytes member -/
def lenOk (all : List Member) (k : MKind) (n : Nat) : Bool :=
  match k with
  | .fixed c => n == c
  | .limited s c => n ≤ c && (n : Int) ≤ sizerMax s all
  | .dyn s sh => (n : Int) ≤ sizerMax s all - (sh : Int)
  | .greedy => true
  | _ => false

def notByte : Ty → Bool
  | .byte => false
  | _ => true

def isByte : Ty → Bool
  | .byte => true
  | _ => false

theorem hasField_arr (all : List Member) (k : MKind) (t : Ty) (xs : List Val) :
    hasField all k t (.arr xs) = (notByte t && lenOk all k xs.length && hasElems t xs) := by
  cases t <;> cases k <;> simp [hasField, lenOk, notByte]

theorem hasField_bytes (all : List Member) (k : MKind) (t : Ty) (b : Bytes) :
    hasField all k t (.bytes b) = (isByte t && lenOk all k b.length) := by
  cases t <;> cases k <;> simp [hasField, lenOk, isByte]

theorem hasElems_iff (t : Ty) : (xs : List Val) →
    (hasElems t xs = true ↔ ∀ x ∈ xs, hasType t x = true)
  | [] => by simp [hasElems]
  | x :: xs => by
    simp only [hasElems, Bool.and_eq_true, List.mem_cons, forall_eq_or_imp, hasElems_iff t xs, hasType]

/-- the per-member condition of `hasMs` -/
def fieldOk (all : List Member) (n : String) (k : MKind) (t : Ty) (v : Val) : Bool :=
  (match v with
   | .sizer => isSizer n all
   | _ => !(isSizer n all)) && hasField all k t v

theorem hasMs_cons_api (all : List Member) (n : String) (t : Ty) (k : MKind) (r : List Member) (v : Val) (vs : List Val) :
    hasMs all (.mk n t k :: r) (v :: vs) = (fieldOk all n k t v && hasMs all r vs) := by
  cases v <;> simp only [hasMs, fieldOk]

theorem hasMs_get (all : List Member) : (ms : List Member) → (vs : List Val) → (i : Nat) →
    (n : String) → (t : Ty) → (k : MKind) → (v : Val) →
    hasMs all ms vs = true → ms[i]? = some (.mk n t k) → vs[i]? = some v → fieldOk all n k t v = true
  | [], _, _, _, _, _, _, _, hm, _ => by simp at hm
  | _ :: _, [], _, _, _, _, _, _, _, hv => by simp at hv
  | .mk n' t' k' :: r, v' :: vs, 0, n, t, k, v, h, hm, hv => by
    rw [hasMs_cons_api, Bool.and_eq_true] at h
    simp at hm hv
    obtain ⟨rfl, rfl, rfl⟩ := hm
    subst hv
    exact h.1
  | .mk n' t' k' :: r, v' :: vs, i + 1, n, t, k, v, h, hm, hv => by
    rw [hasMs_cons_api, Bool.and_eq_true] at h
    simp at hm hv
    exact hasMs_get all r vs i n t k v h.2 hm hv

theorem hasMs_set (all : List Member) : (ms : List Member) → (vs : List Val) → (i : Nat) →
    (n : String) → (t : Ty) → (k : MKind) → (nv : Val) →
    hasMs all ms vs = true → ms[i]? = some (.mk n t k) → fieldOk all n k t nv = true →
    hasMs all ms (vs.set i nv) = true
  | [], _, _, _, _, _, _, _, hm, _ => by simp at hm
  | _ :: _, [], _, _, _, _, _, h, _, _ => by simp [hasMs] at h
  | .mk n' t' k' :: r, v' :: vs, 0, n, t, k, nv, h, hm, hn => by
    rw [hasMs_cons_api, Bool.and_eq_true] at h
    simp at hm
    obtain ⟨rfl, rfl, rfl⟩ := hm
    rw [List.set_cons_zero, hasMs_cons_api, Bool.and_eq_true]
    exact ⟨hn, h.2⟩
  | .mk n' t' k' :: r, v' :: vs, i + 1, n, t, k, nv, h, hm, hn => by
    rw [hasMs_cons_api, Bool.and_eq_true] at h
    simp at hm
    rw [List.set_cons_succ, hasMs_cons_api, Bool.and_eq_true]
    exact ⟨h.1, hasMs_set all r vs i n t k nv h.2 hm hn⟩

/-! ## what the proofs need of the schema -/
namespace Api

def isPlain : MKind → Bool
  | .plain => true
  | _ => false

mutual
  /-- enums and unions are not empty, only plain members are counters, every shift leaves the
      counter room to count.  Follows from `Accept.front` and `Accept.pyRt` (`okTy_of_accept`). -/
  def okTy : Ty → Bool
    | .enum _ es => !es.isEmpty
    | .struct _ ms => okMs ms ms
    | .union _ arms => !arms.isEmpty && okArms arms
    | _ => true
  def okMs (all : List Member) : List Member → Bool
    | [] => true
    | .mk n t k :: r =>
      okTy t && (isPlain k || !(isSizer n all))
      && (match k.sizer? with | some s => decide ((k.shift : Int) < sizerMax s all) | none => true)
      && okMs all r
  def okArms : List Arm → Bool
    | [] => true
    | .mk _ _ t :: r => okTy t && okArms r
end

theorem okMs_get (all : List Member) : (ms : List Member) → (i : Nat) → (n : String) → (t : Ty) → (k : MKind) →
    okMs all ms = true → ms[i]? = some (.mk n t k) →
    okTy t = true ∧ (isPlain k = true ∨ isSizer n all = false) ∧
      (∀ s, k.sizer? = some s → (k.shift : Int) < sizerMax s all)
  | [], _, _, _, _, _, hm => by simp at hm
  | .mk n' t' k' :: r, 0, n, t, k, h, hm => by
    simp at hm
    obtain ⟨rfl, rfl, rfl⟩ := hm
    simp only [okMs, Bool.and_eq_true, Bool.or_eq_true, Bool.not_eq_true'] at h
    refine ⟨h.1.1.1, h.1.1.2, ?_⟩
    intro s hs
    have := h.1.2
    rw [hs] at this
    simpa using this
  | .mk n' t' k' :: r, i + 1, n, t, k, h, hm => by
    simp at hm
    simp only [okMs, Bool.and_eq_true] at h
    exact okMs_get all r i n t k h.2 hm

theorem okArms_get : (arms : List Arm) → (i : Nat) → (arm : Arm) →
    okArms arms = true → arms[i]? = some arm → okTy arm.ty = true
  | [], _, _, _, hm => by simp at hm
  | .mk _ _ t :: r, 0, arm, h, hm => by
    simp at hm
    subst hm
    simp only [okArms, Bool.and_eq_true] at h
    exact h.1
  | .mk _ _ t :: r, i + 1, arm, h, hm => by
    simp at hm
    simp only [okArms, Bool.and_eq_true] at h
    exact okArms_get r i arm h.2 hm

/-! ## the freshly constructed message -/

theorem defaultTy_notCounter (t : Ty) : (defaultTy t).isCounter = false := by
  cases t with
  | union n arms => cases arms with
    | nil => simp [defaultTy, Val.isCounter]
    | cons a r => cases a; simp [defaultTy, Val.isCounter]
  | _ => simp [defaultTy, Val.isCounter]

theorem inRange_zero (p : Prim) : inRange p 0 = true := by
  cases p <;> decide

theorem inRange_one (p : Prim) : inRange p 1 = true := by
  cases p <;> decide

/-- the value a member starts with -/
def defaultField (all : List Member) (n : String) (t : Ty) (k : MKind) : Val :=
  match k with
  | .plain => if isSizer n all then Val.sizer else defaultTy t
  | .optional => Val.absent
  | .fixed c => (match t with
     | .byte => Val.bytes (zeros c)
     | _ => Val.arr (List.replicate c (defaultTy t)))
  | _ => (match t with
     | .byte => Val.bytes []
     | _ => Val.arr [])

theorem defaultMs_cons (all : List Member) (n : String) (t : Ty) (k : MKind) (r : List Member) :
    defaultMs all (.mk n t k :: r) = defaultField all n t k :: defaultMs all r := by
  cases k <;> cases t <;> simp [defaultMs, defaultField]

theorem fieldOk_notCounter (all : List Member) (n : String) (k : MKind) (t : Ty) (v : Val)
    (h : v.isCounter = false) : fieldOk all n k t v = (!(isSizer n all) && hasField all k t v) := by
  cases v <;> simp_all [fieldOk, Val.isCounter]

theorem defaultField_ok (all : List Member) (n : String) (t : Ty) (k : MKind)
    (ht : hasField [] .plain t (defaultTy t) = true)
    (hs : isPlain k = true ∨ isSizer n all = false)
    (hsh : ∀ s, k.sizer? = some s → (k.shift : Int) < sizerMax s all) :
    fieldOk all n k t (defaultField all n t k) = true := by
  have hnc := defaultTy_notCounter t
  have ht' : hasField all .plain t (defaultTy t) = true := by rw [hasField_plain_all all []]; exact ht
  have hall : ∀ c0, ∀ x ∈ List.replicate c0 (defaultTy t), hasType t x = true := by
    intro c0 x hx
    rw [(List.mem_replicate.1 hx).2]
    simp [hasType, hnc, ht]
  cases k with
  | plain =>
    by_cases hz : isSizer n all = true
    · simp [defaultField, hz, fieldOk, hasField]
    · simp only [Bool.not_eq_true] at hz
      rw [fieldOk_notCounter _ _ _ _ _ (by simp [defaultField, hz, hnc])]
      simp [defaultField, hz, ht']
  | optional =>
    simp [isPlain] at hs
    simp [defaultField, fieldOk, hs, hasField]
  | fixed c =>
    simp [isPlain] at hs
    cases t <;> simp [defaultField, fieldOk, hs, hasField_arr, hasField_bytes, lenOk, notByte, isByte, hasElems_iff]
    all_goals (intro _; simp [hasType, hnc, ht])
  | dyn s sh =>
    simp [isPlain] at hs
    have := hsh s rfl
    simp only [MKind.shift] at this
    cases t <;> simp [defaultField, fieldOk, hs, hasField_arr, hasField_bytes, lenOk, notByte, isByte, hasElems] <;> omega
  | limited s c =>
    simp [isPlain] at hs
    have := hsh s rfl
    simp only [MKind.shift] at this
    cases t <;> simp [defaultField, fieldOk, hs, hasField_arr, hasField_bytes, lenOk, notByte, isByte, hasElems] <;> omega
  | greedy =>
    simp [isPlain] at hs
    cases t <;> simp [defaultField, fieldOk, hs, hasField_arr, hasField_bytes, lenOk, notByte, isByte, hasElems]

mutual
  theorem default_ok : (t : Ty) → okTy t = true → hasField [] .plain t (defaultTy t) = true
    | .prim p, _ => by simp [defaultTy, hasField, inRange_zero]
    | .byte, _ => by simp [defaultTy, hasField]; decide
    | .enum _ es, h => by
      cases es with
      | nil => simp [okTy] at h
      | cons e r => simp [defaultTy, hasField]
    | .struct _ ms, h => by
      simp only [okTy] at h
      simp only [defaultTy, hasField, Bool.true_and]
      exact defaultMs_ok ms ms h
    | .union _ [], h => by simp [okTy] at h
    | .union _ (.mk _ _ t :: r), h => by
      simp only [okTy, okArms, Bool.and_eq_true] at h
      simp [defaultTy, hasField, defaultTy_notCounter, default_ok t h.2.1]
  theorem defaultMs_ok (all : List Member) : (ms : List Member) → okMs all ms = true →
      hasMs all ms (defaultMs all ms) = true
    | [], _ => by simp [defaultMs, hasMs]
    | .mk n t k :: r, h => by
      have h' := h
      simp only [okMs, Bool.and_eq_true] at h'
      have ih := defaultMs_ok all r h'.2
      have iht := default_ok t h'.1.1.1
      obtain ⟨_, h2, h3⟩ := okMs_get all (.mk n t k :: r) 0 n t k h rfl
      rw [defaultMs_cons, hasMs_cons_api, Bool.and_eq_true]
      exact ⟨defaultField_ok all n t k iht h2 h3, ih⟩
end

/-! ## `_check` -/

theorem enumByName_any (es : List (String × Nat)) (s : String) (v : Int) (h : enumByName es s = some v) :
    es.any (fun e => (e.2 : Int) == v) = true := by
  unfold enumByName at h
  cases hf : es.find? (·.1 == s) with
  | none => simp [hf] at h
  | some e =>
    simp [hf] at h
    have := List.mem_of_find?_eq_some hf
    simp only [List.any_eq_true]
    exact ⟨e, this, by simp [h]⟩

theorem check_ok (t : Ty) (a : Arg) (v : Val) (h : check t a = .ok v) :
    v.isCounter = false ∧ isComposite t = false ∧ hasField [] .plain t v = true := by
  cases t with
  | prim p =>
    cases a <;> simp only [check] at h <;> try (cases h; done)
    · split at h
      · cases h; simp [Val.isCounter, isComposite, hasField, inRange_zero]
      · split at h
        · cases h; simp_all [Val.isCounter, isComposite, hasField]
        · cases h
    · split at h <;> cases h <;> simp [Val.isCounter, isComposite, hasField, inRange_zero, inRange_one]
  | byte =>
    cases a <;> simp only [check] at h <;> try (cases h; done)
    · split at h
      · cases h; simp_all [Val.isCounter, isComposite, hasField]
      · cases h
    · cases h; simp [Val.isCounter, isComposite, hasField]; decide
  | enum n es =>
    cases a <;> simp only [check] at h <;> try (cases h; done)
    · split at h
      · cases h; simp_all [Val.isCounter, isComposite, hasField]
      · cases h
    · split at h
      · rename_i v' hv'
        cases h
        have := enumByName_any es _ _ hv'
        simp_all [Val.isCounter, isComposite, hasField]
      · cases h
    · split at h
      · rename_i hh
        cases h
        simp only [List.any_eq_true, beq_iff_eq] at hh
        obtain ⟨e, he, h1⟩ := hh
        have : es.any (fun e => (e.2 : Int) == 1) = true := by
          simp only [List.any_eq_true, beq_iff_eq]
          exact ⟨e, he, by simp [h1]⟩
        simp [Val.isCounter, isComposite, hasField, this]
      · cases h
  | struct n ms => cases a <;> simp only [check] at h <;> cases h
  | union n arms => cases a <;> simp only [check] at h <;> cases h

theorem check_typed (t : Ty) (a : Arg) (v : Val) (h : check t a = .ok v) : hasType t v = true := by
  obtain ⟨h1, _, h3⟩ := check_ok t a v h
  simp [hasType, h1, h3]

theorem checkAll_ok (t : Ty) : (as : List Arg) → (vs : List Val) → checkAll t as = .ok vs →
    ∀ v ∈ vs, hasType t v = true
  | [], vs, h => by
    simp only [checkAll] at h
    cases h
    simp
  | a :: r, vs, h => by
    simp only [checkAll, bind, Except.bind] at h
    cases hc : check t a with
    | error e => simp [hc] at h
    | ok v =>
      cases hr : checkAll t r with
      | error e => simp [hc, hr] at h
      | ok vs' =>
        simp only [hc, hr, pure, Except.pure] at h
        cases h
        intro x hx
        rcases List.mem_cons.1 hx with rfl | hx
        · exact check_typed t a _ hc
        · exact checkAll_ok t r vs' hr x hx

/-! ## `struct.member = a` -/

theorem setMember_ok (all : List Member) (n : String) (t : Ty) (k : MKind) (old : Val) (a : Arg) (nv : Val)
    (hok : okTy t = true) (h : setMember all (.mk n t k) old a = .ok nv) :
    fieldOk all n k t nv = true := by
  unfold setMember at h
  simp only at h
  by_cases hz : isSizer n all = true
  · rw [if_pos hz] at h; cases h
  · rw [if_neg hz] at h
    simp only [Bool.not_eq_true] at hz
    have hdef : fieldOk all n .optional t (.present (defaultTy t)) = true := by
      have := default_ok t hok
      rw [hasField_plain_all [] all] at this
      simp [fieldOk, hz, hasField, defaultTy_notCounter, this]
    have hchk : ∀ v, check t a = .ok v → fieldOk all n .plain t v = true := by
      intro v hv
      obtain ⟨h1, _, h3⟩ := check_ok t a v hv
      rw [hasField_plain_all [] all] at h3
      rw [fieldOk_notCounter _ _ _ _ _ h1]
      simp [hz, h3]
    have hchk' : ∀ v, check t a = .ok v → fieldOk all n .optional t (.present v) = true := by
      intro v hv
      obtain ⟨h1, _, h3⟩ := check_ok t a v hv
      rw [hasField_plain_all [] all] at h3
      simp [fieldOk, hz, hasField, h1, h3]
    have habs : fieldOk all n .optional t .absent = true := by simp [fieldOk, hz, hasField]
    have hpres : ∀ r : M Val, (do let v ← check t a; pure v.present) = .ok nv →
        fieldOk all n .optional t nv = true := by
      intro _ hh
      cases hc : check t a with
      | error e => simp [hc, bind, Except.bind] at hh
      | ok v =>
        simp only [hc, bind, Except.bind, pure, Except.pure] at hh
        cases hh
        exact hchk' v hc
    cases k with
    | plain =>
      simp only at h
      split at h
      · cases h
      · exact hchk nv h
    | optional =>
      simp only at h
      split at h
      · split at h
        · cases h; exact hdef
        · cases h; exact habs
        · cases h
      · split at h
        · cases h; exact habs
        · exact hpres (.ok nv) h
    | fixed c =>
      simp only at h
      split at h
      · split at h
        · cases h
        · cases h
          rename_i b hb
          simp [fieldOk, hz, hasField_bytes, isByte, lenOk]
          omega
      · cases h
      · cases h
    | limited s c =>
      simp only at h
      split at h
      · split at h
        · cases h
        · cases h
          rename_i b hb
          simp [fieldOk, hz, hasField_bytes, isByte, lenOk]
          omega
      · cases h
      · cases h
    | dyn s sh =>
      simp only at h
      split at h
      · split at h
        · cases h
        · cases h
          rename_i b hb
          simp [fieldOk, hz, hasField_bytes, isByte, lenOk]
          omega
      · cases h
      · cases h
    | greedy =>
      simp only at h
      split at h
      · cases h
        simp [fieldOk, hz, hasField_bytes, isByte, lenOk]
      · cases h
      · cases h

/-! ## array operations -/

theorem lenOk_notOver (all : List Member) (k : MKind) (n0 n : Nat) (hfx : isFixedKind k = false)
    (h0 : lenOk all k n0 = true) (h : overLimit all k n = false) : lenOk all k n = true := by
  cases k <;> simp_all [lenOk, overLimit, limitOf, isFixedKind] <;> omega

theorem lenOk_le (all : List Member) (k : MKind) (n0 n : Nat) (hfx : isFixedKind k = false)
    (h0 : lenOk all k n0 = true) (h : n ≤ n0) : lenOk all k n = true := by
  cases k <;> simp_all [lenOk, isFixedKind] <;> omega

theorem clamp_le' (b : Option Int) (d len : Nat) (hd : d ≤ len) : clampBound b d len ≤ len := by
  unfold clampBound
  grind

theorem normSlice_le (lo hi : Option Int) (len : Nat) :
    (normSlice lo hi len).1 ≤ (normSlice lo hi len).2 ∧ (normSlice lo hi len).2 ≤ len := by
  unfold normSlice
  simp only
  have h1 := clamp_le' lo 0 len (by omega)
  have h2 := clamp_le' hi len len (by omega)
  omega

theorem mem_replaceSlice {l xs : List Val} {s e : Nat} {y : Val} (h : y ∈ replaceSlice l s e xs) :
    y ∈ l ∨ y ∈ xs := by
  unfold replaceSlice at h
  rcases List.mem_append.1 h with h | h
  · rcases List.mem_append.1 h with h | h
    · exact .inl (List.mem_of_mem_take h)
    · exact .inr h
  · exact .inl (List.mem_of_mem_drop h)

theorem length_replaceSlice (l xs : List Val) (s e : Nat) (h1 : s ≤ e) (h2 : e ≤ l.length) :
    (replaceSlice l s e xs).length = l.length + xs.length - (e - s) := by
  unfold replaceSlice
  simp only [List.length_append, List.length_take, List.length_drop]
  omega

theorem insertAt_eq (l : List Val) (idx : Int) (x : Val) :
    insertAt l idx x = replaceSlice l (clampBound (some idx) 0 l.length) (clampBound (some idx) 0 l.length) [x] := by
  simp [insertAt, replaceSlice]

theorem normIndex_lt (i : Int) (len j : Nat) (h : normIndex i len = .ok j) : j < len := by
  unfold normIndex at h
  grind

/-- the message objects of a collection argument that carry the name of `t` are values of `t` -/
def msgOk (t : Ty) (a : Arg) : Prop :=
  ∀ as, argElems a = some as → ∀ tn v, Arg.msg tn v ∈ as → (tn == tyName t) = true → hasType t v = true

theorem copyAll_ok (t : Ty) : (as : List Arg) → (vs : List Val) → arrayOp.copyAll t as = .ok vs →
    ∀ v ∈ vs, ∃ tn, Arg.msg tn v ∈ as ∧ (tn == tyName t) = true
  | [], vs, h => by
    simp only [arrayOp.copyAll] at h
    cases h
    simp
  | a :: r, vs, h => by
    cases a with
    | msg tn v =>
      simp only [arrayOp.copyAll] at h
      split at h
      · rename_i htn
        cases hr : arrayOp.copyAll t r with
        | error e => simp [hr, bind, Except.bind] at h
        | ok vs' =>
          simp only [hr, bind, Except.bind, pure, Except.pure] at h
          cases h
          intro x hx
          rcases List.mem_cons.1 hx with rfl | hx
          · exact ⟨tn, by simp, htn⟩
          · obtain ⟨tn', h1, h2⟩ := copyAll_ok t r vs' hr x hx
            exact ⟨tn', by simp [h1], h2⟩
      · cases h
    | _ => simp only [arrayOp.copyAll] at h; cases h

/-- the body of `array[lo:hi] = a` once the step is accepted -/
def sliceBody (all : List Member) (t : Ty) (k : MKind) (xs : List Val) (lo hi : Option Int) (a : Arg) : M (List Val) :=
  match argElems a with
  | Option.none => .error .type
  | some as => do
    let vs ← checkAll t as
    let (s, e) := normSlice lo hi xs.length
    if isFixedKind k then
      if e - s ≠ vs.length then .error .prophy else pure (replaceSlice xs s e vs)
    else if overLimit all k (xs.length + vs.length - (e - s)) then .error .prophy
    else pure (replaceSlice xs s e vs)

theorem arrayOp_ok (all : List Member) (n : String) (t : Ty) (k : MKind) (xs : List Val) (op : Op) (ys : List Val)
    (hok : okTy t = true)
    (hfit : ∀ p i a, op = .extend p i a → isComposite t = true → msgOk t a)
    (hx : hasField all k t (.arr xs) = true) (h : arrayOp all (.mk n t k) xs op = .ok ys) :
    hasField all k t (.arr ys) = true := by
  rw [hasField_arr, Bool.and_eq_true, Bool.and_eq_true, hasElems_iff] at hx ⊢
  obtain ⟨⟨hb, hl⟩, he⟩ := hx
  suffices hh : lenOk all k ys.length = true ∧ ∀ y ∈ ys, hasType t y = true from ⟨⟨hb, hh.1⟩, hh.2⟩
  unfold arrayOp at h
  cases op with
  | append p i a =>
    simp only at h
    split at h
    · cases h
    · rename_i hfc
      simp only [Bool.or_eq_true, not_or, Bool.not_eq_true] at hfc
      cases hc : check t a with
      | error e => simp [hc, bind, Except.bind] at h
      | ok v =>
        simp only [hc, bind, Except.bind] at h
        split at h
        · cases h
        · rename_i hov
          simp only [pure, Except.pure] at h
          cases h
          have hlen : (xs ++ [v]).length = xs.length + 1 := by simp
          rw [hlen]
          refine ⟨lenOk_notOver all k xs.length _ hfc.1 hl (by simpa using hov), ?_⟩
          intro y hy
          rcases List.mem_append.1 hy with hy | hy
          · exact he y hy
          · simp at hy; subst hy; exact check_typed t a _ hc
  | insert p i idx a =>
    simp only at h
    split at h
    · cases h
    · rename_i hfc
      simp only [Bool.or_eq_true, not_or, Bool.not_eq_true] at hfc
      cases hc : check t a with
      | error e => simp [hc, bind, Except.bind] at h
      | ok v =>
        simp only [hc, bind, Except.bind] at h
        split at h
        · cases h
        · rename_i hov
          simp only [pure, Except.pure] at h
          cases h
          have hj := clamp_le' (some idx) 0 xs.length (by omega)
          have hlen : (insertAt xs idx v).length = xs.length + 1 := by
            rw [insertAt_eq, length_replaceSlice _ _ _ _ (Nat.le_refl _) hj]; simp
          rw [hlen]
          refine ⟨lenOk_notOver all k xs.length _ hfc.1 hl (by simpa using hov), ?_⟩
          intro y hy
          rw [insertAt_eq] at hy
          rcases mem_replaceSlice hy with hy | hy
          · exact he y hy
          · simp at hy; subst hy; exact check_typed t a _ hc
  | extend p i a =>
    simp only at h
    split at h
    · cases h
    · rename_i hfx
      simp only [Bool.not_eq_true] at hfx
      split at h
      · -- composite elements: copies of message objects
        rename_i hcomp
        split at h
        · cases h
        · rename_i as has
          cases hc : arrayOp.copyAll t as with
          | error e => simp [hc, bind, Except.bind] at h
          | ok vs =>
            simp only [hc, bind, Except.bind] at h
            split at h
            · cases h
            · rename_i hov
              simp only [pure, Except.pure] at h
              cases h
              rw [List.length_append]
              refine ⟨lenOk_notOver all k xs.length _ hfx hl (by simpa using hov), ?_⟩
              intro y hy
              rcases List.mem_append.1 hy with hy | hy
              · exact he y hy
              · obtain ⟨tn, h1, h2⟩ := copyAll_ok t as vs hc y hy
                exact hfit p i a rfl hcomp as has tn y h1 h2
      · split at h
        · cases h
        · rename_i as has
          cases hc : checkAll t as with
          | error e => simp [hc, bind, Except.bind] at h
          | ok vs =>
            simp only [hc, bind, Except.bind] at h
            split at h
            · cases h
            · rename_i hov
              simp only [pure, Except.pure] at h
              cases h
              rw [List.length_append]
              refine ⟨lenOk_notOver all k xs.length _ hfx hl (by simpa using hov), ?_⟩
              intro y hy
              rcases List.mem_append.1 hy with hy | hy
              · exact he y hy
              · exact checkAll_ok t as vs hc y hy
  | setItem p i idx a =>
    simp only at h
    split at h
    · cases h
    · cases hc : check t a with
      | error e => simp [hc, bind, Except.bind] at h
      | ok v =>
        cases hj : normIndex idx xs.length with
        | error e => simp [hc, hj, bind, Except.bind] at h
        | ok j =>
          simp only [hc, hj, bind, Except.bind, pure, Except.pure] at h
          cases h
          rw [List.length_set]
          refine ⟨hl, ?_⟩
          intro y hy
          rcases List.mem_or_eq_of_mem_set hy with hy | hy
          · exact he y hy
          · subst hy; exact check_typed t a _ hc
  | setSlice p i lo hi st a =>
    simp only at h
    split at h
    · cases h
    · have h' : sliceBody all t k xs lo hi a = Except.ok ys := by
        cases st <;> simp only at h <;> split at h <;> first | (cases h; done) | exact h
      clear h
      unfold sliceBody at h'
      simp only at h'
      have h := h'
      clear h'
      · split at h
        · cases h
        · rename_i as has
          cases hc : checkAll t as with
          | error e => simp [hc, bind, Except.bind] at h
          | ok vs =>
            simp only [hc, bind, Except.bind] at h
            obtain ⟨hse, hel⟩ := normSlice_le lo hi xs.length
            have hmem : ∀ y ∈ replaceSlice xs (normSlice lo hi xs.length).1 (normSlice lo hi xs.length).2 vs,
                hasType t y = true := by
              intro y hy
              rcases mem_replaceSlice hy with hy | hy
              · exact he y hy
              · exact checkAll_ok t as vs hc y hy
            have hlen := length_replaceSlice xs vs _ _ hse hel
            split at h
            · split at h
              · cases h
              · rename_i hfx hne
                simp only [pure, Except.pure] at h
                cases h
                refine ⟨?_, hmem⟩
                rw [hlen]
                simp only [Decidable.not_not] at hne
                have : xs.length + vs.length - ((normSlice lo hi xs.length).2 - (normSlice lo hi xs.length).1) = xs.length := by
                  omega
                rw [this]; exact hl
            · rename_i hfx
              simp only [Bool.not_eq_true] at hfx
              split at h
              · cases h
              · rename_i hov
                simp only [pure, Except.pure] at h
                cases h
                refine ⟨?_, hmem⟩
                rw [hlen]
                exact lenOk_notOver all k xs.length _ hfx hl (by simpa using hov)
  | delItem p i idx =>
    simp only at h
    split at h
    · cases h
    · rename_i hfx
      simp only [Bool.not_eq_true] at hfx
      cases hj : normIndex idx xs.length with
      | error e => simp [hj, bind, Except.bind] at h
      | ok j =>
        simp only [hj, bind, Except.bind, pure, Except.pure] at h
        cases h
        refine ⟨lenOk_le all k xs.length _ hfx hl (by rw [List.length_eraseIdx]; split <;> omega), ?_⟩
        intro y hy
        exact he y (List.mem_of_mem_eraseIdx hy)
  | delSlice p i lo hi =>
    simp only at h
    split at h
    · cases h
    · rename_i hfx
      simp only [Bool.not_eq_true] at hfx
      simp only [pure, Except.pure] at h
      cases h
      obtain ⟨hse, hel⟩ := normSlice_le lo hi xs.length
      have hlen := length_replaceSlice xs [] _ _ hse hel
      refine ⟨lenOk_le all k xs.length _ hfx hl (by rw [hlen]; simp), ?_⟩
      intro y hy
      rcases mem_replaceSlice hy with hy | hy
      · exact he y hy
      · simp at hy
  | remove p i a =>
    simp only at h
    split at h
    · cases h
    · rename_i hfc
      simp only [Bool.or_eq_true, not_or, Bool.not_eq_true] at hfc
      split at h
      · cases h
      · split at h
        · rename_i j hj
          simp only [pure, Except.pure] at h
          cases h
          refine ⟨lenOk_le all k xs.length _ hfc.1 hl (by rw [List.length_eraseIdx]; split <;> omega), ?_⟩
          intro y hy
          exact he y (List.mem_of_mem_eraseIdx hy)
        · cases h
  | add p i =>
    simp only at h
    split at h
    · cases h
    · rename_i hfc
      simp only [Bool.or_eq_true, not_or, Bool.not_eq_true, Bool.not_eq_true', Bool.not_eq_false] at hfc
      split at h
      · cases h
      · rename_i hov
        simp only [pure, Except.pure] at h
        cases h
        have hlen : (xs ++ [defaultTy t]).length = xs.length + 1 := by simp
        rw [hlen]
        refine ⟨lenOk_notOver all k xs.length _ hfc.1 hl (by simpa using hov), ?_⟩
        intro y hy
        rcases List.mem_append.1 hy with hy | hy
        · exact he y hy
        · simp at hy; subst hy
          simp [hasType, defaultTy_notCounter, default_ok t hok]
  | set p i a => simp only at h; cases h
  | setDisc p a => simp only at h; cases h

/-! ## message objects passed as arguments -/

mutual
  /-- a message object of class `tn` in state `v` is a well-typed value of every struct / union
      named `tn` that occurs in `t` -/
  def msgFits (tn : String) (v : Val) : Ty → Bool
    | .struct n ms => (!(tn == n) || hasType (.struct n ms) v) && msgFitsMs tn v ms
    | .union n arms => (!(tn == n) || hasType (.union n arms) v) && msgFitsArms tn v arms
    | _ => true
  def msgFitsMs (tn : String) (v : Val) : List Member → Bool
    | [] => true
    | .mk _ t _ :: r => msgFits tn v t && msgFitsMs tn v r
  def msgFitsArms (tn : String) (v : Val) : List Arm → Bool
    | [] => true
    | .mk _ _ t :: r => msgFits tn v t && msgFitsArms tn v r
end

/-- the message objects among the elements of a collection argument fit the schema -/
def argFits (t : Ty) (a : Arg) : Bool :=
  match argElems a with
  | some as => as.all fun x => match x with
    | .msg tn v => msgFits tn v t
    | _ => true
  | Option.none => true

/-- the only operation that stores message objects passed by the caller is `extend` -/
def opFits (t : Ty) : Op → Bool
  | .extend _ _ a => argFits t a
  | _ => true

theorem msgFits_self (tn : String) (v : Val) (t : Ty) (h : msgFits tn v t = true)
    (hc : isComposite t = true) (hn : (tn == tyName t) = true) : hasType t v = true := by
  cases t <;> simp_all [msgFits, isComposite, tyName]

theorem msgFitsMs_get (tn : String) (v : Val) : (ms : List Member) → (i : Nat) → (n : String) → (t : Ty) → (k : MKind) →
    msgFitsMs tn v ms = true → ms[i]? = some (.mk n t k) → msgFits tn v t = true
  | [], _, _, _, _, _, hm => by simp at hm
  | .mk n' t' k' :: r, 0, n, t, k, h, hm => by
    simp at hm
    obtain ⟨rfl, rfl, rfl⟩ := hm
    simp only [msgFitsMs, Bool.and_eq_true] at h
    exact h.1
  | .mk n' t' k' :: r, i + 1, n, t, k, h, hm => by
    simp at hm
    simp only [msgFitsMs, Bool.and_eq_true] at h
    exact msgFitsMs_get tn v r i n t k h.2 hm

theorem msgFitsArms_get (tn : String) (v : Val) : (arms : List Arm) → (i : Nat) → (arm : Arm) →
    msgFitsArms tn v arms = true → arms[i]? = some arm → msgFits tn v arm.ty = true
  | [], _, _, _, hm => by simp at hm
  | .mk _ _ t :: r, 0, arm, h, hm => by
    simp at hm
    subst hm
    simp only [msgFitsArms, Bool.and_eq_true] at h
    exact h.1
  | .mk _ _ t :: r, i + 1, arm, h, hm => by
    simp at hm
    simp only [msgFitsArms, Bool.and_eq_true] at h
    exact msgFitsArms_get tn v r i arm h.2 hm

theorem argFits_sub (t c : Ty) (a : Arg) (hsub : ∀ tn v, msgFits tn v t = true → msgFits tn v c = true)
    (h : argFits t a = true) : argFits c a = true := by
  unfold argFits at h ⊢
  cases ha : argElems a with
  | none => rfl
  | some as =>
    simp only [ha, List.all_eq_true] at h ⊢
    intro x hx
    have := h x hx
    cases x <;> simp_all

theorem opFits_sub (t c : Ty) (op : Op) (p : List Step) (hsub : ∀ tn v, msgFits tn v t = true → msgFits tn v c = true)
    (h : opFits t op = true) : opFits c (withPath op p) = true := by
  cases op <;> simp_all [opFits, withPath]
  exact argFits_sub t c _ hsub h

theorem opFits_member (sn : String) (ms : List Member) (i : Nat) (n : String) (t : Ty) (k : MKind) (op : Op) (p : List Step)
    (hm : ms[i]? = some (.mk n t k)) (h : opFits (.struct sn ms) op = true) : opFits t (withPath op p) = true := by
  refine opFits_sub _ _ op p ?_ h
  intro tn v hf
  simp only [msgFits, Bool.and_eq_true] at hf
  exact msgFitsMs_get tn v ms i n t k hf.2 hm

theorem opFits_arm (un : String) (arms : List Arm) (i : Nat) (arm : Arm) (op : Op) (p : List Step)
    (hm : arms[i]? = some arm) (h : opFits (.union un arms) op = true) : opFits arm.ty (withPath op p) = true := by
  refine opFits_sub _ _ op p ?_ h
  intro tn v hf
  simp only [msgFits, Bool.and_eq_true] at hf
  exact msgFitsArms_get tn v arms i arm hf.2 hm

theorem msgOk_of_fits (sn : String) (ms : List Member) (i : Nat) (n : String) (t : Ty) (k : MKind) (a : Arg)
    (hm : ms[i]? = some (.mk n t k)) (h : argFits (.struct sn ms) a = true) (hc : isComposite t = true) :
    msgOk t a := by
  intro as has tn v hmem hn
  unfold argFits at h
  simp only [has, List.all_eq_true] at h
  have := h _ hmem
  simp only [msgFits, Bool.and_eq_true] at this
  exact msgFits_self tn v t (msgFitsMs_get tn v ms i n t k this.2 hm) hc hn

/-! ## one operation -/

theorem apply_ok : (fuel : Nat) → (t : Ty) → (v : Val) → (op : Op) → (nv : Val) →
    okTy t = true → opFits t op = true → hasField [] .plain t v = true → apply fuel t v op = .ok nv →
    v.isCounter = false ∧ nv.isCounter = false ∧ hasField [] .plain t nv = true
  | 0, _, _, _, _, _, _, _, h => by simp [apply] at h
  | fuel + 1, t, v, op, nv, hok, hfit, hv, h => by
    unfold apply at h
    split at h
    · -- the operation targets this message
      split at h
      · -- struct.member = a
        rename_i sn ms vs pth i a hpath
        have hms : hasMs ms ms vs = true := by simpa [hasField] using hv
        split at h
        · rename_i m old hm ho
          obtain ⟨n, mt, k⟩ := m
          cases hs : setMember ms (.mk n mt k) old a with
          | error e => simp [hs, bind, Except.bind] at h
          | ok nv' =>
            simp only [hs, bind, Except.bind, pure, Except.pure] at h
            cases h
            simp only [okTy] at hok
            obtain ⟨hokt, _, _⟩ := okMs_get ms ms i n mt k hok hm
            have := hasMs_set ms ms vs i n mt k nv' hms hm (setMember_ok ms n mt k old a nv' hokt hs)
            refine ⟨rfl, rfl, ?_⟩
            simp [hasField, setAt, this]
        · cases h
      · -- union.discriminator = a
        rename_i un arms cur curv pth a hpath
        simp only at h
        split at h
        · rename_i j hj
          split at h
          · simp only [pure, Except.pure] at h
            cases h
            exact ⟨rfl, rfl, hv⟩
          · split at h
            · rename_i arm harm
              simp only [pure, Except.pure] at h
              cases h
              simp only [okTy, Bool.and_eq_true] at hok
              have hoka := okArms_get arms j arm hok.2 harm
              obtain ⟨an, ad, aty⟩ := arm
              have := default_ok aty hoka
              refine ⟨rfl, rfl, ?_⟩
              simp [hasField, harm, defaultTy_notCounter, Arm.ty, this]
            · cases h
        · cases h
      · -- union.arm = a
        rename_i un arms cur cv pth i a hpath
        split at h
        · rename_i arm harm
          split at h
          · cases h
          · rename_i hic
            simp only [Decidable.not_not] at hic
            subst hic
            split at h
            · cases h
            · cases hc : check arm.ty a with
              | error e => simp [hc, bind, Except.bind] at h
              | ok nv' =>
                simp only [hc, bind, Except.bind, pure, Except.pure] at h
                cases h
                obtain ⟨an, ad, aty⟩ := arm
                obtain ⟨h1, _, h3⟩ := check_ok aty a nv' hc
                refine ⟨rfl, rfl, ?_⟩
                simp [hasField, harm, h1, h3]
        · cases h
      · -- array operations
        rename_i sn ms vs hnot
        have hms : hasMs ms ms vs = true := by simpa [hasField] using hv
        have hD : ∀ (idx : Option Nat),
            (match idx with
              | some i =>
                match ms[i]?, vs[i]? with
                | some m, some (Val.arr xs) => do
                  let ys ← arrayOp ms m xs op
                  pure (Val.struct (setAt vs i (Val.arr ys)))
                | _, _ => Except.error Py.Exc.attribute
              | Option.none => Except.error Py.Exc.attribute) = Except.ok nv →
            (Val.struct vs).isCounter = false ∧ nv.isCounter = false ∧
              hasField [] MKind.plain (Ty.struct sn ms) nv = true := by
          intro idx h
          split at h
          · rename_i i
            split at h
            · rename_i m xs hm hx
              obtain ⟨n, mt, k⟩ := m
              cases hs : arrayOp ms (.mk n mt k) xs op with
              | error e => simp [hs, bind, Except.bind] at h
              | ok ys =>
                simp only [hs, bind, Except.bind, pure, Except.pure] at h
                cases h
                simp only [okTy] at hok
                obtain ⟨hokt, _, _⟩ := okMs_get ms ms i n mt k hok hm
                have hfo := hasMs_get ms ms vs i n mt k _ hms hm hx
                rw [fieldOk_notCounter _ _ _ _ _ rfl, Bool.and_eq_true] at hfo
                have hys := arrayOp_ok ms n mt k xs op ys hokt (by
                  intro p i' a hop hc
                  subst hop
                  exact msgOk_of_fits sn ms i n mt k a hm hfit hc) hfo.2 hs
                have hfo' : fieldOk ms n k mt (.arr ys) = true := by
                  rw [fieldOk_notCounter _ _ _ _ _ rfl, Bool.and_eq_true]
                  exact ⟨hfo.1, hys⟩
                have := hasMs_set ms ms vs i n mt k _ hms hm hfo'
                refine ⟨rfl, rfl, ?_⟩
                simp [hasField, setAt, this]
            · cases h
          · cases h
        exact hD _ h
      · cases h
    · split at h
      · -- a member of a struct
        rename_i pth i rest hpath _ _ sn ms vs
        have hms : hasMs ms ms vs = true := by simpa [hasField] using hv
        simp only [okTy] at hok
        split at h
        · rename_i n mt k mv hm hmv
          obtain ⟨hokt, hk1, hk2⟩ := okMs_get ms ms i n mt k hok hm
          have hfo := hasMs_get ms ms vs i n mt k mv hms hm hmv
          have hfit' : ∀ p, opFits mt (withPath op p) = true :=
            fun p => opFits_member sn ms i n mt k op p hm hfit
          split at h
          · -- optional, present
            rename_i x
            cases ha : apply fuel mt x (withPath op rest) with
            | error e => simp [ha, bind, Except.bind] at h
            | ok nx =>
              simp only [ha, bind, Except.bind, pure, Except.pure] at h
              cases h
              rw [fieldOk_notCounter _ _ _ _ _ rfl, Bool.and_eq_true] at hfo
              have hx : hasField [] .plain mt x = true := by
                have := hfo.2
                simp only [hasField, Bool.and_eq_true] at this
                rw [hasField_plain_all [] ms]; exact this.2
              obtain ⟨_, h2, h3⟩ := apply_ok fuel mt x _ nx hokt (hfit' rest) hx ha
              have hfo' : fieldOk ms n .optional mt (.present nx) = true := by
                rw [fieldOk_notCounter _ _ _ _ _ rfl, Bool.and_eq_true]
                refine ⟨hfo.1, ?_⟩
                rw [hasField_plain_all [] ms] at h3
                simp [hasField, h2, h3]
              have := hasMs_set ms ms vs i n mt .optional _ hms hm hfo'
              refine ⟨rfl, rfl, ?_⟩
              simp [hasField, setAt, this]
          · cases h
          · -- plain
            cases ha : apply fuel mt mv (withPath op rest) with
            | error e => simp [ha, bind, Except.bind] at h
            | ok nx =>
              simp only [ha, bind, Except.bind, pure, Except.pure] at h
              cases h
              have hx : hasField [] .plain mt mv = true := by
                unfold fieldOk at hfo
                rw [Bool.and_eq_true] at hfo
                rw [hasField_plain_all [] ms]; exact hfo.2
              obtain ⟨h1, h2, h3⟩ := apply_ok fuel mt mv _ nx hokt (hfit' rest) hx ha
              rw [fieldOk_notCounter _ _ _ _ _ h1, Bool.and_eq_true] at hfo
              have hfo' : fieldOk ms n .plain mt nx = true := by
                rw [fieldOk_notCounter _ _ _ _ _ h2, Bool.and_eq_true]
                refine ⟨hfo.1, ?_⟩
                rw [hasField_plain_all [] ms] at h3
                exact h3
              have := hasMs_set ms ms vs i n mt .plain _ hms hm hfo'
              refine ⟨rfl, rfl, ?_⟩
              simp [hasField, setAt, this]
          · -- an element of an array member
            rename_i xs hno hnp
            split at h
            · rename_i e rest'
              cases hj : normIndex e xs.length with
              | error e => simp [hj, bind, Except.bind] at h
              | ok j =>
                simp only [hj, bind, Except.bind] at h
                split at h
                · rename_i x hxj
                  cases ha : apply fuel mt x (withPath op rest') with
                  | error e => simp [ha] at h
                  | ok nx =>
                    simp only [ha, pure, Except.pure] at h
                    cases h
                    rw [fieldOk_notCounter _ _ _ _ _ rfl, Bool.and_eq_true, hasField_arr, Bool.and_eq_true,
                      Bool.and_eq_true, hasElems_iff] at hfo
                    obtain ⟨hz, ⟨hb, hl⟩, he⟩ := hfo
                    have hxm : x ∈ xs := List.mem_of_getElem? hxj
                    have hxt := he x hxm
                    simp only [hasType, Bool.and_eq_true, Bool.not_eq_true'] at hxt
                    obtain ⟨_, h2, h3⟩ := apply_ok fuel mt x _ nx hokt (hfit' rest') hxt.2 ha
                    have hfo' : fieldOk ms n k mt (.arr (xs.set j nx)) = true := by
                      rw [fieldOk_notCounter _ _ _ _ _ rfl, Bool.and_eq_true, hasField_arr, Bool.and_eq_true,
                        Bool.and_eq_true, hasElems_iff, List.length_set]
                      refine ⟨hz, ⟨hb, hl⟩, ?_⟩
                      intro y hy
                      rcases List.mem_or_eq_of_mem_set hy with hy | hy
                      · exact he y hy
                      · subst hy; simp [hasType, h2, h3]
                    have := hasMs_set ms ms vs i n mt k _ hms hm hfo'
                    refine ⟨rfl, rfl, ?_⟩
                    simp [hasField, setAt, this]
                · cases h
            · cases h
          · cases h
        · cases h
      · -- the discriminated arm of a union
        rename_i pth i rest hpath _ _ un arms cur cv
        simp only [okTy, Bool.and_eq_true] at hok
        split at h
        · rename_i arm harm
          split at h
          · cases h
          · rename_i hic
            simp only [Decidable.not_not] at hic
            subst hic
            cases ha : apply fuel arm.ty cv (withPath op rest) with
            | error e => simp [ha, bind, Except.bind] at h
            | ok nx =>
              simp only [ha, bind, Except.bind, pure, Except.pure] at h
              cases h
              have hoka := okArms_get arms i arm hok.2 harm
              have hfa := opFits_arm un arms i arm op rest harm hfit
              obtain ⟨an, ad, aty⟩ := arm
              simp only [Arm.ty] at ha hoka hfa
              have hcv : hasField [] .plain aty cv = true := by
                simp only [hasField, harm, Bool.true_and, Bool.and_eq_true] at hv
                exact hv.2
              obtain ⟨_, h2, h3⟩ := apply_ok fuel aty cv _ nx hoka hfa hcv ha
              refine ⟨rfl, rfl, ?_⟩
              simp [hasField, harm, h2, h3]
        · cases h
      · cases h
    · cases h

/-! ## accepted schemas are `okTy` -/

mutual
  /-- no enum and no union of the schema is empty -/
  def neTy : Ty → Bool
    | .enum _ es => !es.isEmpty
    | .struct _ ms => neMs ms
    | .union _ arms => !arms.isEmpty && neArms arms
    | _ => true
  def neMs : List Member → Bool
    | [] => true
    | .mk _ t _ :: r => neTy t && neMs r
  def neArms : List Arm → Bool
    | [] => true
    | .mk _ _ t :: r => neTy t && neArms r
end

mutual
  theorem neTy_of_pyRt : (t : Ty) → Accept.pyRt t = true → neTy t = true
    | .prim _, _ => rfl
    | .byte, _ => rfl
    | .enum _ es, h => by
      simp only [Accept.pyRt, Bool.and_eq_true] at h
      simp only [neTy]
      exact h.2
    | .struct _ ms, h => by
      simp only [Accept.pyRt] at h
      simp only [neTy]
      exact neMs_of_pyRt ms ms [] h
    | .union _ arms, h => by
      simp only [Accept.pyRt, Bool.and_eq_true] at h
      simp only [neTy, Bool.and_eq_true]
      exact ⟨h.1, neArms_of_pyRt arms h.2⟩
  theorem neMs_of_pyRt (all : List Member) : (ms before : List Member) → Accept.pyRtMs all ms before = true →
      neMs ms = true
    | [], _, _ => rfl
    | .mk n t k :: r, before, h => by
      obtain ⟨h1, _, _, _, _, _, _, h8⟩ := (Accept.pyRtMs_cons all n t k r before).1 h
      simp only [neMs, Bool.and_eq_true]
      exact ⟨neTy_of_pyRt t h1, neMs_of_pyRt all r _ h8⟩
  theorem neArms_of_pyRt : (arms : List Arm) → Accept.pyRtArms arms = true → neArms arms = true
    | [], _ => rfl
    | .mk _ _ t :: r, h => by
      simp only [Accept.pyRtArms, Bool.and_eq_true] at h
      simp only [neArms, Bool.and_eq_true]
      exact ⟨neTy_of_pyRt t h.1.1, neArms_of_pyRt r h.2⟩
end

theorem uniq_name_eq : (ms : List Member) → WF.uniq (ms.map (·.name)) = true → (a b : Member) →
    a ∈ ms → b ∈ ms → a.name = b.name → a = b
  | [], _, _, _, ha, _, _ => by simp at ha
  | x :: r, hu, a, b, ha, hb, hn => by
    simp only [List.map_cons, WF.uniq, Bool.and_eq_true, Bool.not_eq_true'] at hu
    have hnot : ∀ c ∈ r, c.name ≠ x.name := by
      intro c hc heq
      have : (r.map (·.name)).contains x.name = true := by
        simp only [List.contains_eq_mem, List.mem_map, decide_eq_true_eq]
        exact ⟨c, hc, heq⟩
      rw [this] at hu
      exact Bool.noConfusion hu.1
    rcases List.mem_cons.1 ha with rfl | ha' <;> rcases List.mem_cons.1 hb with rfl | hb'
    · rfl
    · exact absurd hn.symm (hnot b hb')
    · exact absurd hn (hnot a ha')
    · exact uniq_name_eq r hu.2 a b ha' hb' hn

theorem wfMs_sizerOk (all : List Member) : (ms : List Member) → WF.wfMs all ms = true → (m : Member) → m ∈ ms →
    (s : String) → m.kind.sizer? = some s → WF.sizerOk all s = true
  | [], _, _, hm, _, _ => by simp at hm
  | .mk n t k :: r, h, m, hm, s, hs => by
    obtain ⟨_, _, h3, _, h5⟩ := (WF.wfMs_cons all n t k r).1 h
    rcases List.mem_cons.1 hm with rfl | hm'
    · exact h3 s hs
    · exact wfMs_sizerOk all r h5 m hm' s hs

/-- in a well-formed struct only plain members are counters -/
theorem sizer_plain (ms : List Member) (hu : WF.uniq (ms.map (·.name)) = true) (hw : WF.wfMs ms ms = true)
    (n : String) (t : Ty) (k : MKind) (hm : Member.mk n t k ∈ ms) (hs : isSizer n ms = true) : k = .plain := by
  unfold isSizer at hs
  simp only [List.any_eq_true, decide_eq_true_eq] at hs
  obtain ⟨m', hm', hs'⟩ := hs
  have hso := wfMs_sizerOk ms ms hw m' hm' n hs'
  unfold WF.sizerOk at hso
  cases hf : ms.find? (fun m => m.name == n) with
  | none => simp [hf] at hso
  | some m0 =>
    have hmem := List.mem_of_find?_eq_some hf
    have hname := List.find?_some hf
    simp only [beq_iff_eq] at hname
    have := uniq_name_eq ms hu m0 (.mk n t k) hmem hm (by rw [hname]; rfl)
    subst this
    cases t <;> cases k <;> simp_all

mutual
  theorem okTy_of_wf : (t : Ty) → WF.wfTy t = true → neTy t = true → okTy t = true
    | .prim _, _, _ => rfl
    | .byte, _, _ => rfl
    | .enum _ es, _, hn => by
      simp only [neTy] at hn
      simp only [okTy]
      exact hn
    | .struct _ ms, hw, hn => by
      simp only [WF.wfTy, Bool.and_eq_true] at hw
      simp only [neTy] at hn
      simp only [okTy]
      exact okMs_of_wf ms (sizer_plain ms hw.1 hw.2) ms (fun _ hm => hm) hw.2 hn
    | .union _ arms, hw, hn => by
      simp only [WF.wfTy, Bool.and_eq_true] at hw
      simp only [neTy, Bool.and_eq_true] at hn
      simp only [okTy, Bool.and_eq_true]
      exact ⟨hn.1, okArms_of_wf arms hw.2 hn.2⟩
  theorem okMs_of_wf (all : List Member)
      (hsp : ∀ n t k, Member.mk n t k ∈ all → isSizer n all = true → k = .plain) :
      (ms : List Member) → (∀ m ∈ ms, m ∈ all) → WF.wfMs all ms = true → neMs ms = true → okMs all ms = true
    | [], _, _, _ => rfl
    | .mk n t k :: r, hsub, hw, hn => by
      obtain ⟨h1, _, _, h4, h5⟩ := (WF.wfMs_cons all n t k r).1 hw
      simp only [neMs, Bool.and_eq_true] at hn
      simp only [okMs, Bool.and_eq_true, Bool.or_eq_true, Bool.not_eq_true']
      refine ⟨⟨⟨okTy_of_wf t h1 hn.1, ?_⟩, ?_⟩, okMs_of_wf all hsp r (fun m hm => hsub m (List.mem_cons_of_mem _ hm)) h5 hn.2⟩
      · cases hz : isSizer n all with
        | false => exact .inr rfl
        | true =>
          have := hsp n t k (hsub _ (List.mem_cons_self)) hz
          subst this
          exact .inl rfl
      · unfold WF.shiftOk at h4
        cases hs : k.sizer? with
        | none => rfl
        | some s =>
          rw [hs] at h4
          simp only [Bool.and_eq_true] at h4
          exact h4.1
  theorem okArms_of_wf : (arms : List Arm) → WF.wfArms arms = true → neArms arms = true → okArms arms = true
    | [], _, _ => rfl
    | .mk n d t :: r, hw, hn => by
      obtain ⟨h1, _, h3⟩ := (WF.wfArms_cons n d t r).1 hw
      simp only [neArms, Bool.and_eq_true] at hn
      simp only [okArms, Bool.and_eq_true]
      exact ⟨okTy_of_wf t h1 hn.1, okArms_of_wf r h3 hn.2⟩
end

theorem okTy_of_accept (t : Ty) (hf : Accept.front t = true) (hp : Accept.pyRt t = true) : okTy t = true :=
  okTy_of_wf t (Accept.wf_of_accept t hf hp) (neTy_of_pyRt t hp)

/-! ## the property -/

/-- one operation on an `okTy` schema -/
theorem step_ok (t : Ty) (v : Val) (op : Op) (hok : okTy t = true) (hfit : opFits t op = true)
    (hv : hasType t v = true) : hasType t (step t v op).1 = true := by
  unfold step
  cases ha : apply 64 t v op with
  | error e => exact hv
  | ok nv =>
    simp only [hasType, Bool.and_eq_true, Bool.not_eq_true'] at hv
    obtain ⟨_, h2, h3⟩ := apply_ok 64 t v op nv hok hfit hv.2 ha
    simp [hasType, h2, h3]

theorem run_ok (t : Ty) (hok : okTy t = true) : (ops : List Op) → (v : Val) → (acc : List (Option Py.Exc)) →
    hasType t v = true → (∀ op ∈ ops, opFits t op = true) → hasType t (run t ops v acc).1 = true
  | [], v, acc, hv, _ => by simpa [run] using hv
  | op :: r, v, acc, hv, hfit => by
    simp only [run]
    exact run_ok t hok r _ _ (step_ok t v op hok (hfit op List.mem_cons_self) hv)
      (fun o ho => hfit o (List.mem_cons_of_mem _ ho))

/-- a collection argument that holds a message object -/
def hasMsg (a : Arg) : Bool :=
  match argElems a with
  | some as => as.any fun x => match x with
    | .msg _ _ => true
    | _ => false
  | Option.none => false

/-- operations that pass no message object satisfy `opFits` for every schema -/
def noMsg : Op → Bool
  | .extend _ _ a => !hasMsg a
  | _ => true

theorem opFits_of_noMsg (t : Ty) (op : Op) (h : noMsg op = true) : opFits t op = true := by
  cases op <;> simp only [opFits]
  rename_i p i a
  simp only [noMsg, Bool.not_eq_true'] at h
  unfold hasMsg at h
  unfold argFits
  cases ha : argElems a with
  | none => rfl
  | some as =>
    simp only [ha, List.any_eq_false] at h
    simp only [List.all_eq_true]
    intro x hx
    have := h x hx
    cases x <;> simp_all

/-! ### counterexample to the statement without `opFits`

`extend` on an array of structs copies the state of the message objects it is given after comparing
class NAMES only (container.py `extend` → `_checker.check` is `isinstance`; the model keeps the
name).  The model lets the caller pass any `Val` as that state, so an ill-typed "message object"
becomes an element. -/

def cexTy : Ty :=
  .struct "S" [.mk "n" (.prim .u32) .plain, .mk "x" (.struct "T" [.mk "a" (.prim .u8) .plain]) (.dyn "n" 0)]

def cexOp : Op := .extend [] 1 (.list [.msg "T" (.int 5)])

end Api

end Prophy

namespace Prophy
namespace Api

theorem cex_front : Accept.front cexTy = true := by decide
theorem cex_pyRt : Accept.pyRt cexTy = true := by decide
theorem cex_before : hasType cexTy (defaultTy cexTy) = true := by decide
theorem cex_step : step cexTy (defaultTy cexTy) cexOp = (.struct [.sizer, .arr [.int 5]], Option.none) := by rfl
theorem cex_after : hasType cexTy (step cexTy (defaultTy cexTy) cexOp).1 = false := by decide
theorem cex_run : hasType cexTy (run cexTy [cexOp] (defaultTy cexTy) []).1 = false := by decide
theorem cex_not_fits : opFits cexTy cexOp = false := by decide

/-- the target `step_typed` as first stated (any argument whatsoever) is false in the model -/
theorem step_typed_unrestricted_false :
    ¬ (∀ (t : Ty) (v : Val) (op : Op), Accept.front t = true → Accept.pyRt t = true → hasType t v = true →
        hasType t (step t v op).1 = true) := by
  intro h
  have := h cexTy (defaultTy cexTy) cexOp cex_front cex_pyRt cex_before
  rw [cex_after] at this
  cases this

/-- and so is `run_typed` as first stated -/
theorem run_typed_unrestricted_false :
    ¬ (∀ (t : Ty) (ops : List Op), Accept.front t = true → Accept.pyRt t = true →
        hasType t (run t ops (defaultTy t) []).1 = true) := by
  intro h
  have := h cexTy [cexOp] cex_front cex_pyRt
  rw [cex_run] at this
  cases this

/-! ### the theorems

Original statements (the first is true as stated; the other two are false, see above):
```
theorem Api.step_typed (t : Ty) (v : Val) (op : Api.Op)
    (hf : Accept.front t = true) (hp : Accept.pyRt t = true) (hv : hasType t v = true) :
    hasType t (Api.step t v op).1 = true
theorem Api.run_typed (t : Ty) (ops : List Api.Op)
    (hf : Accept.front t = true) (hp : Accept.pyRt t = true) :
    hasType t (Api.run t ops (Api.defaultTy t) []).1 = true
```
Added hypothesis `opFits t op = true`: the message objects handed to `extend` are well-typed values
of the structs / unions of the schema that carry their class name (`msgFits`).  It holds for every
operation that passes no message object (`opFits_of_noMsg`). -/

/-- the freshly constructed message is well-typed -/
theorem default_typed (t : Ty) (hf : Accept.front t = true) (hp : Accept.pyRt t = true) :
    hasType t (defaultTy t) = true := by
  simp [hasType, defaultTy_notCounter, default_ok t (okTy_of_accept t hf hp)]

/-- one operation, whatever its arguments (message objects passed being well-typed themselves),
    takes a well-typed message to a well-typed message -/
theorem step_typed (t : Ty) (v : Val) (op : Op)
    (hf : Accept.front t = true) (hp : Accept.pyRt t = true) (hfit : opFits t op = true)
    (hv : hasType t v = true) :
    hasType t (step t v op).1 = true :=
  step_ok t v op (okTy_of_accept t hf hp) hfit hv

/-- every state reachable from the constructor by any finite history is well-typed -/
theorem run_typed (t : Ty) (ops : List Op)
    (hf : Accept.front t = true) (hp : Accept.pyRt t = true) (hfit : ∀ op ∈ ops, opFits t op = true) :
    hasType t (run t ops (defaultTy t) []).1 = true :=
  run_ok t (okTy_of_accept t hf hp) ops _ _ (default_typed t hf hp) hfit

/-- histories that pass no message object: the statement as first given -/
theorem run_typed_noMsg (t : Ty) (ops : List Op)
    (hf : Accept.front t = true) (hp : Accept.pyRt t = true) (hno : ∀ op ∈ ops, noMsg op = true) :
    hasType t (run t ops (defaultTy t) []).1 = true :=
  run_typed t ops hf hp (fun op ho => opFits_of_noMsg t op (hno op ho))

/-- `wfTy` alone does not suffice: the constructor of an empty enum holds 0, not an enumerator -/
theorem default_wf_only_false :
    WF.wfTy (.enum "E" []) = true ∧ hasType (.enum "E" []) (defaultTy (.enum "E" [])) = false := by decide

/-- weaker schema hypotheses suffice: well-formed, no empty enum / union -/
theorem run_typed_wf (t : Ty) (ops : List Op)
    (hw : WF.wfTy t = true) (hne : neTy t = true) (hfit : ∀ op ∈ ops, opFits t op = true) :
    hasType t (run t ops (defaultTy t) []).1 = true := by
  have hok := okTy_of_wf t hw hne
  refine run_ok t hok ops _ _ ?_ hfit
  simp [hasType, defaultTy_notCounter, default_ok t hok]

end Api
end Prophy

#print axioms Prophy.Api.default_typed
#print axioms Prophy.Api.step_typed
#print axioms Prophy.Api.run_typed
#print axioms Prophy.Api.run_typed_noMsg
#print axioms Prophy.Api.run_typed_wf
#print axioms Prophy.Api.step_typed_unrestricted_false
#print axioms Prophy.Api.run_typed_unrestricted_false

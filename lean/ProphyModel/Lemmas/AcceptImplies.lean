/-
  Property C12: what prophyc accepts, the Python runtime imports.

  `Accept.front t` (prophyc's front-end rules, with prophyc's own stiffness `PL.nodeTy .kind`) implies
  `Accept.pyRt t` (the checks of the Python runtime at import, with the runtime's own `_DYNAMIC` /
  `_UNLIMITED` statics `Py.stTy`), *except* for the two checks the runtime makes on shifted counters
  (`prophy.array(bound=, shift=)`: substitute_len_field / validate_bound_shift), which have no
  counterpart in prophyc because the prophy language cannot express a shift.

  Results
    * `Accept.pyRt_of_front_false`       the literal statement `front t → pyRt t` is FALSE in the model
                                          (witness: a u8 counter shifted by 255);
    * `Accept.stTy_kind_p12`             the bridge of the two stiffness notions under `front` alone;
    * `Accept.pyRt_iff_shiftsOk`         `front t → (pyRt t ↔ shiftsOk t)`: the shift checks are exactly what
                                          `front` misses (strongest variant);
    * `Accept.pyRt_of_front`             `front t → noShift t → pyRt t` (prophyc never emits a shift).
-/
import ProphyModel.Lemmas.PLayoutSpec
import ProphyModel.Lemmas.WFAccept
import ProphyModel.Lemmas.PyRoundTripAccept
namespace Prophy
open Prophy WF Accept

namespace Accept

/-! ## the predicates added -/

mutual
  /-- no bound array carries a counter shift (`.dyn s sh` has `sh = 0`): true of everything prophyc's
      Python back-end emits, the prophy language has no syntax for a shift -/
  def noShift : Ty → Bool
    | .struct _ ms => noShiftMs ms
    | .union _ arms => noShiftArms arms
    | _ => true
  def noShiftMs : List Member → Bool
    | [] => true
    | .mk _ t k :: r => k.shift == 0 && noShift t && noShiftMs r
  def noShiftArms : List Arm → Bool
    | [] => true
    | .mk _ _ t :: r => noShift t && noShiftArms r
end

mutual
  /-- the runtime's two shift checks (`WF.shiftOk`: the shift leaves the counter room to count, one
      shift per counter) hold at every struct of the tree -/
  def shiftsOk : Ty → Bool
    | .struct _ ms => shiftsOkMs ms ms
    | .union _ arms => shiftsOkArms arms
    | _ => true
  def shiftsOkMs (all : List Member) : List Member → Bool
    | [] => true
    | .mk _ t k :: r => shiftOk all k && shiftsOk t && shiftsOkMs all r
  def shiftsOkArms : List Arm → Bool
    | [] => true
    | .mk _ _ t :: r => shiftsOk t && shiftsOkArms r
end

/-! ## the statement as given is false: shifted counters -/

/-- `struct S { u8 n; u8 x<@n> }` with the counter shifted by 255 (only expressible in hand-written
    Python: `prophy.array(prophy.u8, bound='n', shift=255)`) -/
def shifted255 : Ty := .struct "S" [.mk "n" (.prim .u8) .plain, .mk "x" (.prim .u8) (.dyn "n" 255)]

/-- two arrays on one counter with different shifts -/
def shiftedTwice : Ty :=
  .struct "S" [.mk "n" (.prim .u8) .plain, .mk "x" (.prim .u8) (.dyn "n" 0), .mk "y" (.prim .u8) (.dyn "n" 1)]

end Accept

/-! ## unfolding of the front-end's per-member check -/

theorem Accept.frontMs_cons_p12 (all : List Member) (n : String) (t : Ty) (k : MKind) (r before : List Member)
    (h : frontMs all (.mk n t k :: r) before = true) :
    front t = true ∧
    (isOptional k = true → (PL.nodeTy t).kind = 0) ∧
    ((sizeOf? k).isSome = true → (PL.nodeTy t).kind = 0) ∧
    (isArrayKind k = true → (PL.nodeTy t).kind ≠ 2) ∧
    (r ≠ [] → isGreedy k = false ∧ (PL.nodeTy t).kind ≠ 2) ∧
    (∀ s, k.sizer? = some s → ∃ sn sty sk, before.find? (·.name == s) = some (.mk sn sty sk) ∧
        isIntPrim sty = true ∧ isOptional sk = false ∧ isArrayKind sk = false) ∧
    frontMs all r (before ++ [.mk n t k]) = true := by
  obtain ⟨h1, h2, h3, h4, h5, h6⟩ := Accept.frontMs_cons_playou all n t k r before h
  refine ⟨h1, h2, h3, h4, h5, ?_, h6⟩
  simp only [frontMs, Bool.and_eq_true] at h
  have hs := h.1.1.1.2
  intro s hk
  rw [hk] at hs
  simp only at hs
  split at hs
  · rename_i sn sty sk hf
    simp only [Bool.and_eq_true, Bool.not_eq_true'] at hs
    exact ⟨sn, sty, sk, hf, hs.1.1, hs.1.2, hs.2⟩
  · cases hs

theorem Accept.frontArms_cons_p12 (n : String) (d : Nat) (t : Ty) (r : List Arm)
    (h : frontArms (.mk n d t :: r) = true) :
    front t = true ∧ (PL.nodeTy t).kind = 0 ∧ frontArms r = true :=
  PL.frontArms_cons' n d t r h

/-! ## the bridge: prophyc's stiffness and the runtime's `_DYNAMIC` / `_UNLIMITED` -/

theorem Accept.spec_of_kind0_p12 (t : Ty) (ht : front t = true) (hk : (PL.nodeTy t).kind = 0) :
    Spec.dynTy t = false ∧ Spec.unlTy t = false := by
  rw [PL.nodeTy_kind t ht] at hk
  grind

theorem Accept.spec_of_kindne2_p12 (t : Ty) (ht : front t = true) (hk : (PL.nodeTy t).kind ≠ 2) :
    Spec.unlTy t = false := by
  rw [PL.nodeTy_kind t ht] at hk
  grind

mutual
  /-- on schemas prophyc accepts, the runtime's flags are the documented stiffness -/
  theorem Accept.stTy_spec_p12 : (t : Ty) → front t = true →
      (Py.stTy t).dyn = Spec.dynTy t ∧ (Py.stTy t).unl = Spec.unlTy t
    | .prim _, _ => ⟨rfl, rfl⟩
    | .byte, _ => ⟨rfl, rfl⟩
    | .enum _ _, _ => ⟨rfl, rfl⟩
    | .union _ _, _ => ⟨rfl, rfl⟩
    | .struct _ ms, h => by
      have h' : frontMs ms ms [] = true := by
        simp only [front, Bool.and_eq_true] at h; exact h.2
      simp only [Py.stTy, Py.structSt, Spec.dynTy, Spec.unlTy]
      exact Accept.stMs_spec_p12 ms ms [] h'
  theorem Accept.stMs_spec_p12 : (ms all before : List Member) → frontMs all ms before = true →
      (Py.stMs ms).any (·.dyn) = Spec.dynMs ms ∧ (Py.stMs ms).any (·.unl) = Spec.unlMs ms
    | [], _, _, _ => ⟨rfl, rfl⟩
    | .mk n t k :: r, all, before, h => by
      obtain ⟨ht, ho, _, _, _, _, hr⟩ := Accept.frontMs_cons_p12 all n t k r before h
      obtain ⟨ih1, ih2⟩ := Accept.stMs_spec_p12 r all _ hr
      obtain ⟨it1, it2⟩ := Accept.stTy_spec_p12 t ht
      simp only [Py.stMs, List.any_cons, Spec.dynMs, Spec.unlMs, ih1, ih2]
      constructor
      · congr 1
        cases k with
        | plain => exact it1
        | optional =>
          have := (Accept.spec_of_kind0_p12 t ht (ho rfl)).1
          simp [Py.fieldSt, it1, this]
        | fixed c => rfl
        | dyn s sh => rfl
        | limited s c => rfl
        | greedy => rfl
      · congr 1
        cases k with
        | plain => exact it2
        | optional =>
          have := (Accept.spec_of_kind0_p12 t ht (ho rfl)).2
          simp [Py.fieldSt, it2, this]
        | fixed c => rfl
        | dyn s sh => rfl
        | limited s c => rfl
        | greedy => rfl
end

/-- the bridge between prophyc's `Kind` and the runtime's `_DYNAMIC` / `_UNLIMITED`, under `front` alone -/
theorem Accept.stTy_kind_p12 (t : Ty) (ht : front t = true) :
    ((PL.nodeTy t).kind = 0 ↔ (Py.stTy t).dyn = false) ∧
    ((PL.nodeTy t).kind = 2 ↔ (Py.stTy t).unl = true) ∧
    (PL.nodeTy t).kind ≤ 2 := by
  obtain ⟨h1, h2⟩ := Accept.stTy_spec_p12 t ht
  have h3 := Py.stTy_unl_dyn t
  rw [PL.nodeTy_kind t ht, ← h1, ← h2]
  cases hu : (Py.stTy t).unl <;> cases hd : (Py.stTy t).dyn <;> simp_all

/-! ## `pyRt` gives the shift checks (no `front` needed) -/
mutual
  theorem Accept.shiftsOk_of_pyRt : (t : Ty) → pyRt t = true → shiftsOk t = true
    | .prim _, _ => rfl
    | .byte, _ => rfl
    | .enum _ _, _ => rfl
    | .struct _ ms, h => by
      simp only [pyRt] at h
      simp only [shiftsOk]
      exact Accept.shiftsOkMs_of_pyRt ms ms [] h
    | .union _ arms, h => by
      simp only [pyRt, Bool.and_eq_true] at h
      simp only [shiftsOk]
      exact Accept.shiftsOkArms_of_pyRt arms h.2
  theorem Accept.shiftsOkMs_of_pyRt (all : List Member) : (ms before : List Member) →
      pyRtMs all ms before = true → shiftsOkMs all ms = true
    | [], _, _ => rfl
    | .mk n t k :: r, before, h => by
      obtain ⟨h1, _, _, _, _, _, h7, h8⟩ := (Accept.pyRtMs_cons all n t k r before).1 h
      simp only [shiftsOkMs, Bool.and_eq_true]
      refine ⟨⟨?_, Accept.shiftsOk_of_pyRt t h1⟩, Accept.shiftsOkMs_of_pyRt all r _ h8⟩
      unfold shiftOk
      cases hs : k.sizer? with
      | none => rfl
      | some s =>
        obtain ⟨a, b⟩ := h7 s hs
        simp only [Bool.and_eq_true, decide_eq_true_eq, beq_iff_eq]
        exact ⟨a, b⟩
  theorem Accept.shiftsOkArms_of_pyRt : (arms : List Arm) → pyRtArms arms = true → shiftsOkArms arms = true
    | [], _ => rfl
    | .mk _ _ t :: r, h => by
      simp only [pyRtArms, Bool.and_eq_true] at h
      simp only [shiftsOkArms, Bool.and_eq_true]
      exact ⟨Accept.shiftsOk_of_pyRt t h.1.1, Accept.shiftsOkArms_of_pyRt r h.2⟩
end

/-! ## `front` and the shift checks give `pyRt` -/
mutual
  theorem Accept.pyRt_of_front_shiftsOk : (t : Ty) → front t = true → shiftsOk t = true → pyRt t = true
    | .prim _, _, _ => rfl
    | .byte, _, _ => rfl
    | .enum _ es, hf, _ => by
      simp only [front] at hf
      simp only [pyRt]
      exact hf
    | .struct _ ms, hf, hs => by
      simp only [front, Bool.and_eq_true] at hf
      simp only [shiftsOk] at hs
      simp only [pyRt]
      exact Accept.pyRtMs_of_front_shiftsOk ms ms [] hf.2 hs
    | .union _ arms, hf, hs => by
      simp only [front, Bool.and_eq_true] at hf
      simp only [shiftsOk] at hs
      simp only [pyRt, Bool.and_eq_true]
      exact ⟨hf.1.1.1.1, Accept.pyRtArms_of_front_shiftsOk arms hf.2 hs⟩
  theorem Accept.pyRtMs_of_front_shiftsOk (all : List Member) : (ms before : List Member) →
      frontMs all ms before = true → shiftsOkMs all ms = true → pyRtMs all ms before = true
    | [], _, _, _ => rfl
    | .mk n t k :: r, before, hf, hs => by
      obtain ⟨ht, ho, hz, ha, hl, hsz, hr⟩ := Accept.frontMs_cons_p12 all n t k r before hf
      simp only [shiftsOkMs, Bool.and_eq_true] at hs
      obtain ⟨⟨hs1, hs2⟩, hs3⟩ := hs
      obtain ⟨b0, b2, _⟩ := Accept.stTy_kind_p12 t ht
      rw [Accept.pyRtMs_cons]
      refine ⟨Accept.pyRt_of_front_shiftsOk t ht hs2, fun hk => b0.1 (ho hk), fun hk => b0.1 (hz hk), ?_, ?_, hsz, ?_,
        Accept.pyRtMs_of_front_shiftsOk all r _ hr hs3⟩
      · intro hk
        have := ha hk
        cases hu : (Py.stTy t).unl with
        | false => rfl
        | true => exact absurd (b2.2 hu) this
      · by_cases hre : r = []
        · left; simp [hre]
        · right
          obtain ⟨hg, hk2⟩ := hl hre
          have hu : (Py.stTy t).unl = false := by
            cases hu : (Py.stTy t).unl with
            | false => rfl
            | true => exact absurd (b2.2 hu) hk2
          cases k with
          | plain => exact hu
          | optional => exact hu
          | fixed c => rfl
          | dyn s sh => rfl
          | limited s c => rfl
          | greedy => simp [isGreedy] at hg
      · intro s hk
        unfold shiftOk at hs1
        rw [hk] at hs1
        simpa using hs1
  theorem Accept.pyRtArms_of_front_shiftsOk : (arms : List Arm) → frontArms arms = true → shiftsOkArms arms = true →
      pyRtArms arms = true
    | [], _, _ => rfl
    | .mk n d t :: r, hf, hs => by
      obtain ⟨ht, hk, hr⟩ := Accept.frontArms_cons_p12 n d t r hf
      simp only [shiftsOkArms, Bool.and_eq_true] at hs
      simp only [pyRtArms, Bool.and_eq_true, Bool.not_eq_true']
      exact ⟨⟨Accept.pyRt_of_front_shiftsOk t ht hs.1, (Accept.stTy_kind_p12 t ht).1.1 hk⟩,
        Accept.pyRtArms_of_front_shiftsOk r hr hs.2⟩
end

/-- strongest variant: on what prophyc accepts, the runtime's import checks come down to its two checks
    on shifted counters -/
theorem Accept.pyRt_iff_shiftsOk (t : Ty) (hf : Accept.front t = true) :
    Accept.pyRt t = true ↔ Accept.shiftsOk t = true :=
  ⟨Accept.shiftsOk_of_pyRt t, Accept.pyRt_of_front_shiftsOk t hf⟩

/-! ## without shifts the shift checks hold on accepted schemas -/

theorem primRange_pos_p12 (p : Prim) (h : p.isFloat = false) : 0 < (primRange p).2 := by
  cases p <;> simp [primRange, Prim.isFloat, Prim.isSigned, Prim.size] at h ⊢

theorem sizerShift_zero_p12 (s : String) : (all : List Member) → noShiftMs all = true → sizerShift s all = 0
  | [], _ => rfl
  | .mk n t k :: r, h => by
    simp only [noShiftMs, Bool.and_eq_true, beq_iff_eq] at h
    simp only [sizerShift]
    by_cases hc : (Member.mk n t k).kind.sizer? = some s
    · rw [if_pos hc]; exact h.1.1
    · rw [if_neg hc]; exact sizerShift_zero_p12 s r h.2

theorem noShiftMs_append_p12 : (a b : List Member) → noShiftMs (a ++ b) = (noShiftMs a && noShiftMs b)
  | [], b => by simp [noShiftMs]
  | .mk n t k :: r, b => by
    simp only [List.cons_append, noShiftMs, noShiftMs_append_p12 r b, Bool.and_assoc]

mutual
  theorem Accept.shiftsOk_of_front : (t : Ty) → front t = true → noShift t = true → shiftsOk t = true
    | .prim _, _, _ => rfl
    | .byte, _, _ => rfl
    | .enum _ _, _, _ => rfl
    | .struct _ ms, hf, hn => by
      simp only [front, Bool.and_eq_true] at hf
      simp only [noShift] at hn
      simp only [shiftsOk]
      exact Accept.shiftsOkMs_of_front ms hn ms [] rfl hf.2 hn
    | .union _ arms, hf, hn => by
      simp only [front, Bool.and_eq_true] at hf
      simp only [noShift] at hn
      simp only [shiftsOk]
      exact Accept.shiftsOkArms_of_front arms hf.2 hn
  theorem Accept.shiftsOkMs_of_front (all : List Member) (hall : noShiftMs all = true) :
      (ms before : List Member) → all = before ++ ms →
      frontMs all ms before = true → noShiftMs ms = true → shiftsOkMs all ms = true
    | [], _, _, _, _ => rfl
    | .mk n t k :: r, before, he, hf, hn => by
      obtain ⟨ht, _, _, _, _, hsz, hr⟩ := Accept.frontMs_cons_p12 all n t k r before hf
      simp only [noShiftMs, Bool.and_eq_true, beq_iff_eq] at hn
      obtain ⟨⟨hk0, hnt⟩, hnr⟩ := hn
      simp only [shiftsOkMs, Bool.and_eq_true]
      refine ⟨⟨?_, Accept.shiftsOk_of_front t ht hnt⟩,
        Accept.shiftsOkMs_of_front all hall r (before ++ [.mk n t k]) (by simp [he]) hr hnr⟩
      unfold shiftOk
      cases hs : k.sizer? with
      | none => rfl
      | some s =>
        obtain ⟨sn, sty, sk, hfind, hi, _, _⟩ := hsz s hs
        obtain ⟨p, rfl, hfl⟩ := (Accept.isIntPrim_iff sty).1 hi
        have hmax : sizerMax s all = (primRange p).2 := by
          unfold sizerMax
          rw [he, List.find?_append, hfind]
          rfl
        simp only [Bool.and_eq_true, decide_eq_true_eq, beq_iff_eq]
        rw [hmax, hk0, sizerShift_zero_p12 s all hall]
        exact ⟨by simpa using primRange_pos_p12 p hfl, rfl⟩
  theorem Accept.shiftsOkArms_of_front : (arms : List Arm) → frontArms arms = true → noShiftArms arms = true →
      shiftsOkArms arms = true
    | [], _, _ => rfl
    | .mk n d t :: r, hf, hn => by
      obtain ⟨ht, _, hr⟩ := Accept.frontArms_cons_p12 n d t r hf
      simp only [noShiftArms, Bool.and_eq_true] at hn
      simp only [shiftsOkArms, Bool.and_eq_true]
      exact ⟨Accept.shiftsOk_of_front t ht hn.1, Accept.shiftsOkArms_of_front r hr hn.2⟩
end

/-! ## main theorem -/

/- Original target (FALSE in the model, see `Accept.pyRt_of_front_false` below):
     theorem Accept.pyRt_of_front (t : Ty) (hf : Accept.front t = true) : Accept.pyRt t = true
   Added hypothesis `hns : Accept.noShift t = true`: no bound array has a counter shift.  prophyc's
   Python back-end never emits `shift=` and the prophy language cannot express one, so every tree that
   comes out of prophyc satisfies it. -/
theorem Accept.pyRt_of_front (t : Ty) (hf : Accept.front t = true) (hns : Accept.noShift t = true) :
    Accept.pyRt t = true :=
  Accept.pyRt_of_front_shiftsOk t hf (Accept.shiftsOk_of_front t hf hns)

/-! ## the counterexamples -/

theorem Accept.shifted255_front : Accept.front Accept.shifted255 = true := by decide
theorem Accept.shifted255_pyRt : Accept.pyRt Accept.shifted255 = false := by decide
theorem Accept.shiftedTwice_front : Accept.front Accept.shiftedTwice = true := by decide
theorem Accept.shiftedTwice_pyRt : Accept.pyRt Accept.shiftedTwice = false := by decide

/-- the implication without a hypothesis on shifts is false -/
theorem Accept.pyRt_of_front_false : ¬ (∀ t : Ty, Accept.front t = true → Accept.pyRt t = true) := by
  intro h
  have := h Accept.shifted255 Accept.shifted255_front
  rw [Accept.shifted255_pyRt] at this
  cases this

end Prophy

#print axioms Prophy.Accept.pyRt_iff_shiftsOk
#print axioms Prophy.Accept.pyRt_of_front_false
#print axioms Prophy.Accept.pyRt_of_front

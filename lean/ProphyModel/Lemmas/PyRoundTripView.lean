/- views of the inline matches of `Py.decMs` (decode loop body) -/
import ProphyModel.Lemmas.PyEncode
import ProphyModel.Lemmas.WFAccept
namespace Prophy
open Prophy

/-- the body of the loop of struct._decode_impl for one member: value, size, new hints -/
def Py.fieldDec (e : Endian) (all : List Member) (n : String) (t : Ty) (k : MKind) (f : Py.St)
    (data : Bytes) (pos0 : Nat) (hints : List (String × Nat)) (terminal : Bool) :
    Py.M (Val × Nat × List (String × Nat)) :=
  match k with
  | .plain =>
    if isSizer n all then do
      let (c, sz) ← Py.decSizer e (Py.sizerPrim t) (sizerShift n all) data pos0
      let bound := all.filterMap (fun m => if m.kind.sizer? = some n then some (m.name, c) else none)
      pure (Val.sizer, sz, bound ++ hints)
    else do
      let (v, sz) ← Py.decTy e t data pos0 terminal
      pure (v, sz, hints)
  | .optional => do
    let (flag, _) ← Py.decScalar e .u32 data pos0
    if flag ≠ 0 then do
      let (v, sz) ← Py.decTy e t data (pos0 + f.align) false
      pure (Val.present v, f.align + sz, hints)
    else pure (Val.absent, f.align + (Py.stTy t).size, hints)
  | .fixed c =>
    match t with
    | .byte =>
      if (data.length : Int) - (pos0 : Int) < (c : Int) then .error .prophy
      else pure (Val.bytes (Py.slice data pos0 c), c, hints)
    | _ => do
      if (f.size : Int) > (data.length : Int) - (pos0 : Int) then .error .prophy
      let (vs, cur) ← Py.decN (fun d q => Py.decTy e t d q false) c data pos0 0
      pure (Val.arr vs, cur, hints)
  | .dyn _ _ => do
    let c ← Py.lookupHint hints n
    match t with
    | .byte =>
      if (data.length : Int) - (pos0 : Int) < (c : Int) then .error .prophy
      else pure (Val.bytes (Py.slice data pos0 c), c, hints)
    | _ => do
      if (f.size : Int) > (data.length : Int) - (pos0 : Int) then .error .prophy
      let (vs, cur) ← Py.decN (fun d q => Py.decTy e t d q false) c data pos0 0
      pure (Val.arr vs, max cur f.size, hints)
  | .limited _ lim => do
    let c ← Py.lookupHint hints n
    match t with
    | .byte =>
      if (data.length : Int) - (pos0 : Int) < (lim : Int) then .error .prophy
      else if c > lim then .error .prophy
      else
        let b := Py.slice data pos0 c
        if b.length > lim then .error .prophy
        else pure (Val.bytes b, lim, hints)
    | _ => do
      if (f.size : Int) > (data.length : Int) - (pos0 : Int) then .error .prophy
      let (vs, cur) ← Py.decN (fun d q => Py.decTy e t d q false) (min c lim) data pos0 0
      if c > lim then .error .prophy
      pure (Val.arr vs, max cur f.size, hints)
  | .greedy =>
    match t with
    | .byte =>
      if (data.length : Int) - (pos0 : Int) < 0 then .error .prophy
      else pure (Val.bytes (data.drop pos0), data.length - pos0, hints)
    | .struct _ _ | .union _ _ => do
      if (f.size : Int) > (data.length : Int) - (pos0 : Int) then .error .prophy
      let (vs, cur) ← Py.decWhile (fun d q => Py.decTy e t d q false) data.length data pos0 0
      pure (Val.arr vs, max cur f.size, hints)
    | _ => do
      if (f.size : Int) > (data.length : Int) - (pos0 : Int) then .error .prophy
      let remaining : Int := (data.length : Int) - (pos0 : Int)
      let esz := (Py.stTy t).size
      let cnt := if remaining ≤ 0 then 0 else (remaining.toNat / esz) + (if remaining.toNat % esz = 0 then 0 else 1)
      let (vs, cur) ← Py.decN (fun d q => Py.decTy e t d q false) cnt data pos0 0
      pure (Val.arr vs, max cur f.size, hints)

theorem Py.decMs_cons (e : Endian) (all : List Member) (n : String) (t : Ty) (k : MKind) (r : List Member)
    (f : Py.St) (fs : List Py.St) (p : Option Nat) (ps : List (Option Nat)) (data : Bytes) (pos : Nat)
    (hints : List (String × Nat)) :
    Py.decMs e all (.mk n t k :: r) (f :: fs) (p :: ps) data pos hints =
      (do
        let (v, sz, hints') ← Py.fieldDec e all n t k f data (pos + padTo pos f.align) hints false
        let pos1 := pos + padTo pos f.align + sz
        let pos2 := match p with
          | some a => pos1 + padTo pos1 a
          | none => pos1
        let (vs, posEnd) ← Py.decMs e all r fs ps data pos2 hints'
        pure (v :: vs, posEnd)) := by
  cases k <;> (simp only [Py.decMs, Py.fieldDec]; try rfl)

end Prophy

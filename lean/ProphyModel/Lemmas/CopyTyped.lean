/-
  copy_from (property C11): the copy is well-typed, encodes to the same bytes, copying is idempotent,
  and - the model-level content of INDEPENDENCE - the sharing flag computed by `copyFrom` is `false`
  for every well-typed value of every type (optional composites, fixed / limited / dynamic / greedy
  composite arrays, every union arm, at any depth), hence for every state reachable through the API.
-/
import ProphyModel.Copy
import ProphyModel.Text
import ProphyModel.Properties.C11
import ProphyModel.Lemmas.PyEncode
import ProphyModel.Lemmas.ApiTyped
namespace Prophy
open Prophy Prophy.Copy

/-! ## unfolding lemmas for `copyField` (one per constructor of the value) -/

theorem Copy.copyField_sizer_p14 (k : MKind) (t : Ty) : copyField k t .sizer = (.sizer, false) := by
  cases t <;> simp [copyField]

theorem Copy.copyField_absent_p14 (k : MKind) (t : Ty) : copyField k t .absent = (.absent, false) := by
  cases t <;> simp [copyField]

theorem Copy.copyField_bytes_p14 (k : MKind) (t : Ty) (b : Bytes) : copyField k t (.bytes b) = (.bytes b, false) := by
  cases t <;> simp [copyField]

theorem Copy.copyField_int_p14 (k : MKind) (t : Ty) (i : Int) : copyField k t (.int i) = (.int i, false) := by
  cases t <;> simp [copyField]

theorem Copy.copyField_present_p14 (k : MKind) (t : Ty) (x : Val) :
    copyField k t (.present x) = (.present (copyField .plain t x).1, (copyField .plain t x).2) := by
  cases t <;> simp [copyField]

theorem Copy.copyField_arr_p14 (k : MKind) (t : Ty) (xs : List Val) :
    copyField k t (.arr xs) = (.arr (copyElems t xs).1, (copyElems t xs).2) := by
  cases t <;> simp [copyField]

theorem Copy.copyField_struct_p14 (k : MKind) (n : String) (ms : List Member) (fs : List Val) :
    copyField k (.struct n ms) (.struct fs) = (.struct (copyMs ms fs).1, (copyMs ms fs).2) := by
  simp [copyField]

theorem Copy.copyField_union_some_p14 (k : MKind) (n : String) (arms : List Arm) (idx : Nat) (v : Val)
    (an : String) (ad : Nat) (at_ : Ty) (h : arms[idx]? = some (.mk an ad at_)) :
    copyField k (.union n arms) (.union idx v) =
      (.union idx (copyField .plain at_ v).1, (copyField .plain at_ v).2) := by
  simp [copyField, h]

theorem Copy.copyField_union_none_p14 (k : MKind) (n : String) (arms : List Arm) (idx : Nat) (v : Val)
    (h : arms[idx]? = none) :
    copyField k (.union n arms) (.union idx v) = (.union idx v, true) := by
  simp [copyField, h]

/-- a struct value under a type that is not a struct is stored as it is (and flagged shared) -/
theorem Copy.copyField_struct_off_p14 (k : MKind) (t : Ty) (fs : List Val)
    (h : ∀ n ms, t ≠ .struct n ms) : copyField k t (.struct fs) = (.struct fs, true) := by
  cases t <;> simp_all [copyField]

theorem Copy.copyField_union_off_p14 (k : MKind) (t : Ty) (idx : Nat) (v : Val)
    (h : ∀ n arms, t ≠ .union n arms) : copyField k t (.union idx v) = (.union idx v, true) := by
  cases t <;> simp_all [copyField]

theorem Copy.copyMs_cons_p14 (n : String) (t : Ty) (k : MKind) (r : List Member) (v : Val) (vs : List Val) :
    copyMs (.mk n t k :: r) (v :: vs) =
      ((copyField k t v).1 :: (copyMs r vs).1, ((copyField k t v).2 || (copyMs r vs).2)) := by
  simp [copyMs]

theorem Copy.copyMs_nil_left_p14 (vs : List Val) : copyMs [] vs = ([], false) := by
  simp [copyMs]

theorem Copy.copyMs_nil_right_p14 (ms : List Member) : copyMs ms [] = ([], false) := by
  cases ms <;> simp [copyMs]

theorem Copy.copyElems_cons_p14 (t : Ty) (x : Val) (xs : List Val) :
    copyElems t (x :: xs) =
      ((copyField .plain t x).1 :: (copyElems t xs).1, ((copyField .plain t x).2 || (copyElems t xs).2)) := by
  simp [copyElems]

/-! ## every well-typed value has the shape of its type -/

mutual
  theorem Copy.shape_of_hasField_p14 : (v : Val) → ∀ (all : List Member) (k : MKind) (t : Ty),
      hasField all k t v = true → shapeField t v = true
    | .sizer, _, _, t, _ => by cases t <;> simp [shapeField]
    | .absent, _, _, t, _ => by cases t <;> simp [shapeField]
    | .bytes _, _, _, t, _ => by cases t <;> simp [shapeField]
    | .int _, _, _, t, _ => by cases t <;> simp [shapeField]
    | .present x, all, k, t, h => by
      have h' : hasField all .plain t x = true := by
        cases t <;> (simp only [hasField, Bool.and_eq_true] at h; exact h.2)
      have := Copy.shape_of_hasField_p14 x all .plain t h'
      cases t <;> simpa [shapeField] using this
    | .arr xs, all, k, t, h => by
      have h' : hasElems t xs = true := by
        cases t <;> (simp only [hasField, Bool.and_eq_true] at h; exact h.2)
      have := Copy.shape_of_hasElems_p14 xs t h'
      cases t <;> simpa [shapeField] using this
    | .struct fs, all, k, t, h => by
      cases t with
      | struct n ms =>
        have h' : hasMs ms ms fs = true := by
          simp only [hasField, Bool.and_eq_true] at h; exact h.2
        simpa [shapeField] using Copy.shape_of_hasMs_p14 fs ms ms h'
      | prim p => simp [hasField] at h
      | byte => simp [hasField] at h
      | enum n es => simp [hasField] at h
      | union n arms => simp [hasField] at h
    | .union idx v, all, k, t, h => by
      cases t with
      | union n arms =>
        simp only [hasField, Bool.and_eq_true] at h
        simp only [shapeField]
        cases harm : arms[idx]? with
        | none => simp [harm] at h
        | some a =>
          obtain ⟨an, ad, at_⟩ := a
          have h' : hasField [] .plain at_ v = true := by
            have := h.2; simp only [harm, Bool.and_eq_true] at this; exact this.2
          simpa using Copy.shape_of_hasField_p14 v [] .plain at_ h'
      | prim p => simp [hasField] at h
      | byte => simp [hasField] at h
      | enum n es => simp [hasField] at h
      | struct n ms => simp [hasField] at h
  theorem Copy.shape_of_hasMs_p14 : (vs : List Val) → ∀ (all ms : List Member),
      hasMs all ms vs = true → shapeMs ms vs = true
    | [], all, ms, h => by cases ms <;> simp_all [hasMs, shapeMs]
    | v :: vs, all, ms, h => by
      cases ms with
      | nil => simp [hasMs] at h
      | cons m r =>
        obtain ⟨n, t, k⟩ := m
        simp only [hasMs, Bool.and_eq_true] at h
        simp only [shapeMs, Bool.and_eq_true]
        exact ⟨Copy.shape_of_hasField_p14 v all k t h.1.2, Copy.shape_of_hasMs_p14 vs all r h.2⟩
  theorem Copy.shape_of_hasElems_p14 : (xs : List Val) → ∀ (t : Ty),
      hasElems t xs = true → shapeElems t xs = true
    | [], t, _ => by simp [shapeElems]
    | x :: xs, t, h => by
      simp only [hasElems, Bool.and_eq_true] at h
      simp only [shapeElems, Bool.and_eq_true]
      exact ⟨Copy.shape_of_hasField_p14 x [] .plain t h.1.2, Copy.shape_of_hasElems_p14 xs t h.2⟩
end

theorem Copy.shape_of_hasType_p14 (t : Ty) (v : Val) (hv : hasType t v = true) : shapeField t v = true := by
  simp only [hasType, Bool.and_eq_true] at hv
  exact Copy.shape_of_hasField_p14 v [] .plain t hv.2

/-! ## equality, typing -/

/-- the copy of a well-typed message is that message -/
theorem Copy.copy_eq (t : Ty) (v : Val) (hv : hasType t v = true) : (Copy.copyFrom t v).1 = v :=
  C11.C11_copy_equal t v (Copy.shape_of_hasType_p14 t v hv)

/-- the copy of a well-typed message is well-typed (so it can be encoded), and encodes to the same bytes -/
theorem Copy.copy_typed (t : Ty) (v : Val) (hv : hasType t v = true) :
    hasType t (Copy.copyFrom t v).1 = true := by
  rw [Copy.copy_eq t v hv]; exact hv

/-! ## the encoding of the copy, for EVERY value (no typing hypothesis)

Off-shape values are not copied literally: `copyMs` drops the values of a struct beyond its member
list.  The encoder never looks at them either, and the lengths of arrays (what counters are computed
from) are preserved, so the bytes - or the exception - are the same. -/

theorem Copy.copyElems_length_p14 (t : Ty) : (xs : List Val) → (copyElems t xs).1.length = xs.length
  | [] => by simp [copyElems]
  | x :: xs => by simp [Copy.copyElems_cons_p14, Copy.copyElems_length_p14 t xs]

theorem Copy.copyField_len_p14 (k : MKind) (t : Ty) (v : Val) : (copyField k t v).1.len = v.len := by
  cases v with
  | sizer => rw [Copy.copyField_sizer_p14]
  | absent => rw [Copy.copyField_absent_p14]
  | bytes b => rw [Copy.copyField_bytes_p14]
  | int i => rw [Copy.copyField_int_p14]
  | present x => rw [Copy.copyField_present_p14]; rfl
  | arr xs => rw [Copy.copyField_arr_p14]; simp [Val.len, Copy.copyElems_length_p14]
  | struct fs => cases t <;> simp [copyField, Val.len]
  | union idx x =>
    cases t with
    | union un arms =>
      cases harm : arms[idx]? with
      | none => rw [Copy.copyField_union_none_p14 k un arms idx x harm]
      | some a =>
        obtain ⟨an, ad, at_⟩ := a
        rw [Copy.copyField_union_some_p14 k un arms idx x an ad at_ harm]; rfl
    | prim p => simp [copyField]
    | byte => simp [copyField]
    | enum n es => simp [copyField]
    | struct n ms => simp [copyField]

theorem Copy.boundLens_copy_p14 (s : String) : (ms : List Member) → (vs : List Val) →
    boundLens s ms (copyMs ms vs).1 = boundLens s ms vs
  | [], vs => by cases vs <;> simp [boundLens]
  | m :: r, [] => by simp [Copy.copyMs_nil_right_p14]
  | .mk n t k :: r, v :: vs => by
    rw [Copy.copyMs_cons_p14]
    simp only [boundLens, Copy.copyField_len_p14, Copy.boundLens_copy_p14 s r vs]

theorem Py.evaluateSize_congr_p14 (n : String) (all : List Member) (allv allv' : List Val)
    (hb : ∀ s, boundLens s all allv' = boundLens s all allv) :
    Py.evaluateSize n all allv' = Py.evaluateSize n all allv := by
  unfold Py.evaluateSize; rw [hb]

theorem Py.fieldBytes_plain_p14 (e : Endian) (all : List Member) (allv : List Val) (n : String) (t : Ty) (v : Val)
    (f : Py.St) : Py.fieldBytes e all allv n t .plain v f =
      (if isSizer n all then do
        let c ← Py.evaluateSize n all allv
        Py.pack e (Py.sizerPrim t) (c + sizerShift n all)
      else Py.encTy e t v) := by
  simp [Py.fieldBytes]

theorem Py.encMs_nil_vals_p14 (e : Endian) (all : List Member) (allv allv' : List Val) (ms : List Member)
    (fs : List Py.St) (ps : List (Option Nat)) (off : Nat) :
    Py.encMs e all allv' ms [] fs ps off = Py.encMs e all allv ms [] fs ps off := by
  cases ms <;> simp [Py.encMs]

theorem Py.encMs_nil_ms_p14 (e : Endian) (all : List Member) (allv allv' : List Val) (vs vs' : List Val)
    (fs : List Py.St) (ps : List (Option Nat)) (off : Nat) :
    Py.encMs e all allv' [] vs' fs ps off = Py.encMs e all allv [] vs fs ps off := by
  simp [Py.encMs]

mutual
  /- for a member of any kind holding `v`: the copy of `v` encodes as `v` does, as a message (first part)
     and as the body of the member in the loop of struct.encode (second part) -/
  theorem Copy.field_enc_p14 : (v : Val) → ∀ (t : Ty) (e : Endian),
      (∀ k, Py.encTy e t (copyField k t v).1 = Py.encTy e t v) ∧
      (∀ (k : MKind) (all : List Member) (allv allv' : List Val) (n : String) (f : Py.St),
        (∀ s, boundLens s all allv' = boundLens s all allv) →
        Py.fieldBytes e all allv' n t k (copyField k t v).1 f = Py.fieldBytes e all allv n t k v f)
    | .sizer, t, e => by
      refine ⟨fun k => by rw [Copy.copyField_sizer_p14], ?_⟩
      intro k all allv allv' n f hb
      rw [Copy.copyField_sizer_p14]
      cases k <;> simp [Py.fieldBytes, Py.evaluateSize_congr_p14 n all allv allv' hb]
    | .absent, t, e => by
      refine ⟨fun k => by rw [Copy.copyField_absent_p14], ?_⟩
      intro k all allv allv' n f hb
      rw [Copy.copyField_absent_p14]
      cases k <;> simp [Py.fieldBytes, Py.evaluateSize_congr_p14 n all allv allv' hb]
    | .bytes b, t, e => by
      refine ⟨fun k => by rw [Copy.copyField_bytes_p14], ?_⟩
      intro k all allv allv' n f hb
      rw [Copy.copyField_bytes_p14]
      cases k <;> simp [Py.fieldBytes, Py.evaluateSize_congr_p14 n all allv allv' hb]
    | .int i, t, e => by
      refine ⟨fun k => by rw [Copy.copyField_int_p14], ?_⟩
      intro k all allv allv' n f hb
      rw [Copy.copyField_int_p14]
      cases k <;> simp [Py.fieldBytes, Py.evaluateSize_congr_p14 n all allv allv' hb]
    | .present x, t, e => by
      have ih := (Copy.field_enc_p14 x t e).1 .plain
      have h1 : ∀ k, Py.encTy e t (copyField k t (.present x)).1 = Py.encTy e t (.present x) := by
        intro k; rw [Copy.copyField_present_p14]; cases t <;> simp [Py.encTy]
      refine ⟨h1, ?_⟩
      intro k all allv allv' n f hb
      cases k with
      | plain =>
        rw [Py.fieldBytes_plain_p14, Py.fieldBytes_plain_p14, h1, Py.evaluateSize_congr_p14 n all allv allv' hb]
      | optional => rw [Copy.copyField_present_p14]; simp [Py.fieldBytes, ih]
      | fixed c => rw [Copy.copyField_present_p14]; simp [Py.fieldBytes]
      | dyn s sh => rw [Copy.copyField_present_p14]; simp [Py.fieldBytes]
      | limited s c => rw [Copy.copyField_present_p14]; simp [Py.fieldBytes]
      | greedy => rw [Copy.copyField_present_p14]; simp [Py.fieldBytes]
    | .arr xs, t, e => by
      have ih := Copy.elems_enc_p14 xs t e
      have h1 : ∀ k, Py.encTy e t (copyField k t (.arr xs)).1 = Py.encTy e t (.arr xs) := by
        intro k; rw [Copy.copyField_arr_p14]; cases t <;> simp [Py.encTy]
      refine ⟨h1, ?_⟩
      intro k all allv allv' n f hb
      cases k with
      | plain =>
        rw [Py.fieldBytes_plain_p14, Py.fieldBytes_plain_p14, h1, Py.evaluateSize_congr_p14 n all allv allv' hb]
      | optional => rw [Copy.copyField_arr_p14]; simp [Py.fieldBytes]
      | fixed c => rw [Copy.copyField_arr_p14]; simp [Py.fieldBytes, ih]
      | dyn s sh => rw [Copy.copyField_arr_p14]; simp [Py.fieldBytes, ih]
      | limited s c => rw [Copy.copyField_arr_p14]; simp [Py.fieldBytes, ih]
      | greedy => rw [Copy.copyField_arr_p14]; simp [Py.fieldBytes, ih]
    | .struct fs, t, e => by
      have h1 : ∀ k, Py.encTy e t (copyField k t (.struct fs)).1 = Py.encTy e t (.struct fs) := by
        intro k
        cases t with
        | struct sn ms =>
          rw [Copy.copyField_struct_p14]
          simp only [Py.encTy]
          rw [Copy.ms_enc_p14 fs ms e ms fs (copyMs ms fs).1 (Py.stMs ms) (Py.partials (Py.stMs ms)) 0
            (fun s => Copy.boundLens_copy_p14 s ms fs)]
        | prim p => simp [copyField]
        | byte => simp [copyField]
        | enum n es => simp [copyField]
        | union n arms => simp [copyField]
      refine ⟨h1, ?_⟩
      intro k all allv allv' n f hb
      cases k with
      | plain =>
        rw [Py.fieldBytes_plain_p14, Py.fieldBytes_plain_p14, h1, Py.evaluateSize_congr_p14 n all allv allv' hb]
      | optional => cases t <;> simp [copyField, Py.fieldBytes]
      | fixed c => cases t <;> simp [copyField, Py.fieldBytes]
      | dyn s sh => cases t <;> simp [copyField, Py.fieldBytes]
      | limited s c => cases t <;> simp [copyField, Py.fieldBytes]
      | greedy => cases t <;> simp [copyField, Py.fieldBytes]
    | .union idx x, t, e => by
      have h1 : ∀ k, Py.encTy e t (copyField k t (.union idx x)).1 = Py.encTy e t (.union idx x) := by
        intro k
        cases t with
        | union un arms =>
          cases harm : arms[idx]? with
          | none => rw [Copy.copyField_union_none_p14 k un arms idx x harm]
          | some a =>
            obtain ⟨an, ad, at_⟩ := a
            rw [Copy.copyField_union_some_p14 k un arms idx x an ad at_ harm]
            simp only [Py.encTy, harm]
            rw [(Copy.field_enc_p14 x at_ e).1 .plain]
        | prim p => simp [copyField]
        | byte => simp [copyField]
        | enum n es => simp [copyField]
        | struct n ms => simp [copyField]
      refine ⟨h1, ?_⟩
      intro k all allv allv' n f hb
      have hc : ∃ y, (copyField k t (.union idx x)).1 = .union idx y := by
        cases t with
        | union un arms =>
          cases harm : arms[idx]? with
          | none => exact ⟨x, by rw [Copy.copyField_union_none_p14 k un arms idx x harm]⟩
          | some a =>
            obtain ⟨an, ad, at_⟩ := a
            exact ⟨_, by rw [Copy.copyField_union_some_p14 k un arms idx x an ad at_ harm]⟩
        | prim p => exact ⟨x, by simp [copyField]⟩
        | byte => exact ⟨x, by simp [copyField]⟩
        | enum n es => exact ⟨x, by simp [copyField]⟩
        | struct n ms => exact ⟨x, by simp [copyField]⟩
      cases k with
      | plain =>
        rw [Py.fieldBytes_plain_p14, Py.fieldBytes_plain_p14, h1, Py.evaluateSize_congr_p14 n all allv allv' hb]
      | optional => obtain ⟨y, hy⟩ := hc; rw [hy]; simp [Py.fieldBytes]
      | fixed c => obtain ⟨y, hy⟩ := hc; rw [hy]; simp [Py.fieldBytes]
      | dyn s sh => obtain ⟨y, hy⟩ := hc; rw [hy]; simp [Py.fieldBytes]
      | limited s c => obtain ⟨y, hy⟩ := hc; rw [hy]; simp [Py.fieldBytes]
      | greedy => obtain ⟨y, hy⟩ := hc; rw [hy]; simp [Py.fieldBytes]
  theorem Copy.ms_enc_p14 : (vs : List Val) → ∀ (ms : List Member) (e : Endian) (all : List Member)
      (allv allv' : List Val) (fs : List Py.St) (ps : List (Option Nat)) (off : Nat),
      (∀ s, boundLens s all allv' = boundLens s all allv) →
      Py.encMs e all allv' ms (copyMs ms vs).1 fs ps off = Py.encMs e all allv ms vs fs ps off
    | [], ms, e, all, allv, allv', fs, ps, off, _ => by
      rw [Copy.copyMs_nil_right_p14]; exact Py.encMs_nil_vals_p14 e all allv allv' ms fs ps off
    | v :: vs, ms, e, all, allv, allv', fs, ps, off, hb => by
      cases ms with
      | nil => exact Py.encMs_nil_ms_p14 e all allv allv' _ _ fs ps off
      | cons m r =>
        obtain ⟨n, t, k⟩ := m
        rw [Copy.copyMs_cons_p14]
        cases fs with
        | nil => simp [Py.encMs]
        | cons f fs =>
          cases ps with
          | nil => simp [Py.encMs]
          | cons p ps =>
            rw [Py.encMs_cons, Py.encMs_cons, (Copy.field_enc_p14 v t e).2 k all allv allv' n f hb]
            cases hbody : Py.fieldBytes e all allv n t k v f with
            | error x => rfl
            | ok body =>
              simp only [bind, Except.bind]
              rw [Copy.ms_enc_p14 vs r e all allv allv' fs ps _ hb]
  theorem Copy.elems_enc_p14 : (xs : List Val) → ∀ (t : Ty) (e : Endian),
      Py.encElems e t (copyElems t xs).1 = Py.encElems e t xs
    | [], t, e => by simp [copyElems]
    | x :: xs, t, e => by
      rw [Copy.copyElems_cons_p14]
      simp only [Py.encElems]
      rw [(Copy.field_enc_p14 x t e).1 .plain, Copy.elems_enc_p14 xs t e]
end

/-- the copy encodes to the same bytes (or raises the same exception) as the source, for every type and
    every value whatsoever -/
theorem Copy.copy_encoding (t : Ty) (v : Val) (e : Endian) :
    Py.encode t (Copy.copyFrom t v).1 e = Py.encode t v e := by
  unfold Py.encode Copy.copyFrom
  exact (Copy.field_enc_p14 v t e).1 .plain

/-! ## idempotence, for EVERY value -/

mutual
  theorem Copy.field_idem_p14 : (v : Val) → ∀ (k k' : MKind) (t : Ty),
      (copyField k' t (copyField k t v).1).1 = (copyField k t v).1
    | .sizer, k, k', t => by rw [Copy.copyField_sizer_p14, Copy.copyField_sizer_p14]
    | .absent, k, k', t => by rw [Copy.copyField_absent_p14, Copy.copyField_absent_p14]
    | .bytes b, k, k', t => by rw [Copy.copyField_bytes_p14, Copy.copyField_bytes_p14]
    | .int i, k, k', t => by rw [Copy.copyField_int_p14, Copy.copyField_int_p14]
    | .present x, k, k', t => by
      rw [Copy.copyField_present_p14, Copy.copyField_present_p14, Copy.field_idem_p14 x .plain .plain t]
    | .arr xs, k, k', t => by
      rw [Copy.copyField_arr_p14, Copy.copyField_arr_p14, Copy.elems_idem_p14 xs t]
    | .struct fs, k, k', t => by
      cases t with
      | struct n ms =>
        rw [Copy.copyField_struct_p14, Copy.copyField_struct_p14, Copy.ms_idem_p14 fs ms]
      | prim p => simp [copyField]
      | byte => simp [copyField]
      | enum n es => simp [copyField]
      | union n arms => simp [copyField]
    | .union idx x, k, k', t => by
      cases t with
      | union un arms =>
        cases harm : arms[idx]? with
        | none =>
          rw [Copy.copyField_union_none_p14 k un arms idx x harm, Copy.copyField_union_none_p14 k' un arms idx x harm]
        | some a =>
          obtain ⟨an, ad, at_⟩ := a
          rw [Copy.copyField_union_some_p14 k un arms idx x an ad at_ harm,
            Copy.copyField_union_some_p14 k' un arms idx _ an ad at_ harm,
            Copy.field_idem_p14 x .plain .plain at_]
      | prim p => simp [copyField]
      | byte => simp [copyField]
      | enum n es => simp [copyField]
      | struct n ms => simp [copyField]
  theorem Copy.ms_idem_p14 : (vs : List Val) → ∀ (ms : List Member),
      (copyMs ms (copyMs ms vs).1).1 = (copyMs ms vs).1
    | [], ms => by rw [Copy.copyMs_nil_right_p14, Copy.copyMs_nil_right_p14]
    | v :: vs, ms => by
      cases ms with
      | nil => rw [Copy.copyMs_nil_left_p14, Copy.copyMs_nil_left_p14]
      | cons m r =>
        obtain ⟨n, t, k⟩ := m
        rw [Copy.copyMs_cons_p14, Copy.copyMs_cons_p14, Copy.field_idem_p14 v k k t, Copy.ms_idem_p14 vs r]
  theorem Copy.elems_idem_p14 : (xs : List Val) → ∀ (t : Ty),
      (copyElems t (copyElems t xs).1).1 = (copyElems t xs).1
    | [], t => by simp [copyElems]
    | x :: xs, t => by
      rw [Copy.copyElems_cons_p14, Copy.copyElems_cons_p14, Copy.field_idem_p14 x .plain .plain t,
        Copy.elems_idem_p14 xs t]
end

/-- whatever the destination held before does not matter (`copyFrom` does not take it), and copying
    twice changes nothing - for every type and every value whatsoever -/
theorem Copy.copy_idempotent (t : Ty) (v : Val) :
    (Copy.copyFrom t (Copy.copyFrom t v).1).1 = (Copy.copyFrom t v).1 := by
  unfold Copy.copyFrom
  exact Copy.field_idem_p14 v .plain .plain t

/-- `(copyFrom t v).1 = v` does NOT hold for every value: values of a struct beyond its member list are
    dropped (such a state is not reachable, `hasType` excludes it) - which is why `copy_encoding` and
    `copy_idempotent` above are proved by induction rather than from `copy_eq` -/
theorem Copy.copy_eq_untyped_false :
    (Copy.copyFrom (.struct "S" []) (.struct [.int 1])).1 ≠ .struct [.int 1] := by
  simp [Copy.copyFrom, copyField, copyMs]

/-! ## independence

The model is a model of VALUES: `Api.step t v op` returns a new value and cannot, by construction,
change any other value, so "a later `Api.step` on the copy leaves the source unchanged" is not
expressible as a statement about two `Val`s - what the implementation could get wrong is ALIASING:
after `b.copy_from(a)` some mutable Python object (a message or a list) reachable from `a` is the very
object reachable from `b`, and then a later setter on one is seen through the other.  `copyFrom`
therefore computes, following `set_field` / `extend` statement by statement, whether any mutable object
is stored in the destination as it is (`shared`); immutable objects (ints, bytes, None) never count.
`shared = false` is the model-level content of independence: every message and every list reachable
from the destination was built by the copy, so the two object graphs are disjoint on mutable objects
and every later operation on either one (which, by `Api.apply`, only rebinds fields of / mutates lists
of objects reachable from its own root) is invisible through the other.

The flag is NOT `false` for every value (see `shared_untyped_true`): a value that does not have the
shape of the type is stored as it is.  It is `false` for every value that has the shape of its type
(`C11.C11_separation`), hence for every well-typed value and every reachable state, of every type. -/

/-- independence: no mutable object of a well-typed source is shared with the copy - all member kinds
    (optional composites, fixed / limited / dynamic / greedy composite arrays), every union arm, any depth -/
theorem Copy.copy_independent (t : Ty) (v : Val) (hv : hasType t v = true) : (Copy.copyFrom t v).2 = false :=
  C11.C11_separation t v (Copy.shape_of_hasType_p14 t v hv)

/-- all of C11 for a well-typed source in one statement -/
theorem Copy.copy_spec (t : Ty) (v : Val) (hv : hasType t v = true) : Copy.copyFrom t v = (v, false) := by
  unfold Copy.copyFrom
  exact C11.copyField_spec v .plain t (Copy.shape_of_hasType_p14 t v hv)

/-- the same for a member of any kind inside a struct (`set_field`) ... -/
theorem Copy.copyField_typed (all : List Member) (k : MKind) (t : Ty) (v : Val)
    (hv : hasField all k t v = true) : copyField k t v = (v, false) :=
  C11.copyField_spec v k t (Copy.shape_of_hasField_p14 v all k t hv)

/-- ... and for the elements a composite array's `extend()` copies -/
theorem Copy.copyElems_typed (t : Ty) (xs : List Val) (hv : hasElems t xs = true) :
    copyElems t xs = (xs, false) :=
  C11.copyElems_spec xs t (Copy.shape_of_hasElems_p14 xs t hv)

/-- without a hypothesis on the value the flag can be `true`: a struct object under a scalar type is
    stored as it is -/
theorem Copy.shared_untyped_true : (Copy.copyFrom (.prim .u8) (.struct [])).2 = true := by
  simp [Copy.copyFrom, copyField]

/-- the original wording "`shared` is `false` for every type and value" is false -/
theorem Copy.shared_false_unrestricted_false : ¬ (∀ (t : Ty) (v : Val), (Copy.copyFrom t v).2 = false) := by
  intro h
  have := h (.prim .u8) (.struct [])
  rw [Copy.shared_untyped_true] at this
  cases this

/-- every state reachable from the constructor of an accepted schema is copied exactly and independently -/
theorem Copy.copy_reachable (t : Ty) (ops : List Api.Op)
    (hf : Accept.front t = true) (hp : Accept.pyRt t = true) (hfit : ∀ op ∈ ops, Api.opFits t op = true) :
    Copy.copyFrom t (Api.run t ops (Api.defaultTy t) []).1 = ((Api.run t ops (Api.defaultTy t) []).1, false) :=
  Copy.copy_spec t _ (Api.run_typed t ops hf hp hfit)

/-- after the copy the two messages answer every later operation alike (same new state, same exception),
    and an operation on one of them returns a value, leaving the other as it is -/
theorem Copy.copy_step (t : Ty) (v : Val) (op : Api.Op) (hv : hasType t v = true) :
    Api.step t (Copy.copyFrom t v).1 op = Api.step t v op := by
  rw [Copy.copy_eq t v hv]

/-- text rendering (C18) of the copy is that of the source, in Python and in C++ -/
theorem Copy.copy_text (t : Ty) (v : Val) (hv : hasType t v = true) :
    Text.pyText t (Copy.copyFrom t v).1 = Text.pyText t v ∧
    Text.cppText t (Copy.copyFrom t v).1 = Text.cppText t v := by
  rw [Copy.copy_eq t v hv]; exact ⟨rfl, rfl⟩

/-- non-vacuity: a struct with a set optional struct, a limited array of structs, a dynamic array of
    unions and a union holding a struct is well-typed, so copied exactly and independently -/
example : hasType
    (.struct "S" [.mk "o" (.struct "I" [.mk "a" (.prim .u8) .plain]) .optional,
                  .mk "k" (.prim .u32) .plain,
                  .mk "cs" (.struct "I" [.mk "a" (.prim .u8) .plain]) (.limited "k" 2),
                  .mk "n" (.prim .u32) .plain,
                  .mk "us" (.union "U" [.mk "x" 1 (.prim .u32)]) (.dyn "n" 0),
                  .mk "u" (.union "V" [.mk "x" 1 (.prim .u32), .mk "y" 2 (.struct "I" [.mk "a" (.prim .u8) .plain])]) .plain])
    (.struct [.present (.struct [.int 5]), .sizer, .arr [.struct [.int 1]], .sizer, .arr [.union 0 (.int 7)],
              .union 1 (.struct [.int 9])]) = true := by decide

end Prophy

#print axioms Prophy.Copy.copy_typed
#print axioms Prophy.Copy.copy_encoding
#print axioms Prophy.Copy.copy_idempotent
#print axioms Prophy.Copy.copy_independent

/- what prophyc and the Python runtime accept is well-formed in the sense of the codec theorems -/
import ProphyModel.Accept
import ProphyModel.Lemmas.Layout
namespace Prophy
open Prophy WF Accept

theorem Accept.uniq_eq : (l : List String) → Accept.uniq l = WF.uniq l
  | [] => rfl
  | x :: r => by simp [Accept.uniq, WF.uniq, Accept.uniq_eq r]

theorem Accept.pyRtMs_cons (all : List Member) (n : String) (t : Ty) (k : MKind) (r before : List Member) :
    pyRtMs all (.mk n t k :: r) before = true ↔
      pyRt t = true ∧ (isOptional k = true → (Py.stTy t).dyn = false) ∧
      ((sizeOf? k).isSome = true → (Py.stTy t).dyn = false) ∧
      (isArrayKind k = true → (Py.stTy t).unl = false) ∧
      (r.isEmpty = true ∨ (Py.fieldSt (Py.stTy t) k).unl = false) ∧
      (∀ s, k.sizer? = some s → ∃ sn sty sk, before.find? (·.name == s) = some (.mk sn sty sk) ∧
          isIntPrim sty = true ∧ isOptional sk = false ∧ isArrayKind sk = false) ∧
      (∀ s, k.sizer? = some s → (k.shift : Int) < sizerMax s all ∧ k.shift = sizerShift s all) ∧
      pyRtMs all r (before ++ [.mk n t k]) = true := by
  simp only [pyRtMs, Bool.and_eq_true, Bool.not_eq_true', Bool.or_eq_true]
  constructor
  · rintro ⟨⟨⟨⟨⟨⟨⟨h1, h2⟩, h3⟩, h4⟩, h5⟩, h6⟩, h7⟩, h8⟩
    refine ⟨h1, ?_, ?_, ?_, h5, ?_, ?_, h8⟩
    · intro hk; simpa [hk] using h2
    · intro hk; simpa [hk] using h3
    · intro hk; simpa [hk] using h4
    · intro s hs
      rw [hs] at h6
      simp only at h6
      split at h6
      · rename_i sn sty sk hf
        simp only [Bool.and_eq_true, Bool.not_eq_true'] at h6
        exact ⟨sn, sty, sk, hf, h6.1.1, h6.1.2, h6.2⟩
      · cases h6
    · intro s hs
      rw [hs] at h7
      simpa using h7
  · rintro ⟨h1, h2, h3, h4, h5, h6, h7, h8⟩
    refine ⟨⟨⟨⟨⟨⟨⟨h1, ?_⟩, ?_⟩, ?_⟩, h5⟩, ?_⟩, ?_⟩, h8⟩
    · cases hk : isOptional k <;> simp_all
    · cases hk : (sizeOf? k).isSome <;> simp_all
    · cases hk : isArrayKind k <;> simp_all
    · cases hs : k.sizer? with
      | none => rfl
      | some s =>
        obtain ⟨sn, sty, sk, hf, a, b, c⟩ := h6 s hs
        simp [hf, a, b, c]
    · cases hs : k.sizer? with
      | none => rfl
      | some s => simpa using h7 s hs


mutual
  theorem Accept.fixed_of_pyRt : (t : Ty) → pyRt t = true → (Py.stTy t).dyn = false → Spec.fixedTy t = true
    | .prim _, _, _ => rfl
    | .byte, _, _ => rfl
    | .enum _ _, _, _ => rfl
    | .struct _ ms, h, hd => by
      simp only [pyRt] at h
      simp only [Py.stTy, Py.structSt] at hd
      simp only [Spec.fixedTy]
      exact Accept.fixedMs_of_pyRt ms ms [] h hd
    | .union _ arms, h, _ => by
      simp only [pyRt, Bool.and_eq_true] at h
      simp only [Spec.fixedTy]
      exact Accept.fixedArms_of_pyRt arms h.2
  theorem Accept.fixedMs_of_pyRt (all : List Member) : (ms before : List Member) → pyRtMs all ms before = true →
      (Py.stMs ms).any (·.dyn) = false → Spec.fixedMs ms = true
    | [], _, _, _ => rfl
    | .mk n t k :: r, before, h, hd => by
      obtain ⟨h1, h2, h3, _, _, _, _, h8⟩ := (Accept.pyRtMs_cons all n t k r before).1 h
      simp only [Py.stMs, List.any_cons, Bool.or_eq_false_iff] at hd
      have ihr := Accept.fixedMs_of_pyRt all r _ h8 hd.2
      rw [Spec.fixedMs_cons]
      have hdyn : (Py.stTy t).dyn = false ∧ k.isStatic = true := by
        cases k <;> simp_all [Py.fieldSt, MKind.isStatic, isOptional, sizeOf?]
      exact ⟨hdyn.2, Accept.fixed_of_pyRt t h1 hdyn.1, ihr⟩
  theorem Accept.fixedArms_of_pyRt : (arms : List Arm) → pyRtArms arms = true → Spec.fixedArms arms = true
    | [], _ => rfl
    | .mk _ _ t :: r, h => by
      simp only [pyRtArms, Bool.and_eq_true, Bool.not_eq_true'] at h
      simp only [Spec.fixedArms, Bool.and_eq_true]
      exact ⟨Accept.fixed_of_pyRt t h.1.1 h.1.2, Accept.fixedArms_of_pyRt r h.2⟩
end


theorem Accept.isIntPrim_iff (t : Ty) : isIntPrim t = true ↔ ∃ p, t = .prim p ∧ p.isFloat = false := by
  cases t <;> simp [isIntPrim]

theorem Accept.plain_of_flags (k : MKind) (h1 : isOptional k = false) (h2 : isArrayKind k = false) : k = .plain := by
  cases k <;> simp_all [isOptional, isArrayKind]

theorem Accept.needsFixed_iff (k : MKind) : needsFixed k = true ↔ (isOptional k = true ∨ (sizeOf? k).isSome = true) := by
  cases k <;> simp [needsFixed, isOptional, sizeOf?]

mutual
  theorem Accept.wf_of_accept : (t : Ty) → front t = true → pyRt t = true → wfTy t = true
    | .prim _, _, _ => rfl
    | .byte, _, _ => rfl
    | .enum _ es, _, hp => by
      simp only [pyRt, Bool.and_eq_true] at hp
      simp only [wfTy]
      exact hp.1.2
    | .struct _ ms, hf, hp => by
      simp only [front, Bool.and_eq_true] at hf
      simp only [pyRt] at hp
      simp only [wfTy, Bool.and_eq_true]
      exact ⟨by rw [← Accept.uniq_eq]; exact hf.1.2, Accept.wfMs_of_accept ms ms [] rfl hf.2 hp⟩
    | .union _ arms, hf, hp => by
      simp only [front, Bool.and_eq_true] at hf
      simp only [pyRt, Bool.and_eq_true] at hp
      simp only [wfTy, Bool.and_eq_true]
      exact ⟨hf.1.2, Accept.wfArms_of_accept arms hf.2 hp.2⟩
  theorem Accept.wfMs_of_accept (all : List Member) : (ms before : List Member) → all = before ++ ms →
      frontMs all ms before = true → pyRtMs all ms before = true → wfMs all ms = true
    | [], _, _, _, _ => rfl
    | .mk n t k :: r, before, hall, hf, hp => by
      simp only [frontMs, Bool.and_eq_true] at hf
      have hft : front t = true := hf.1.1.1.1.1.1.1.1
      obtain ⟨h1, h2, h3, _, _, h6, h7, h8⟩ := (Accept.pyRtMs_cons all n t k r before).1 hp
      have ihr := Accept.wfMs_of_accept all r (before ++ [.mk n t k]) (by simp [hall]) hf.2 h8
      rw [wfMs_cons]
      refine ⟨Accept.wf_of_accept t hft h1, ?_, ?_, ?_, ihr⟩
      · intro hk
        rcases (Accept.needsFixed_iff k).1 hk with ho | hs
        · exact Accept.fixed_of_pyRt t h1 (h2 ho)
        · exact Accept.fixed_of_pyRt t h1 (h3 hs)
      · intro s hs
        obtain ⟨sn, sty, sk, hfind, hi, ho, ha⟩ := h6 s hs
        obtain ⟨p, rfl, hfl⟩ := (Accept.isIntPrim_iff sty).1 hi
        have hk := Accept.plain_of_flags sk ho ha
        subst hk
        unfold sizerOk
        rw [hall, List.find?_append, hfind]
        simp [hfl]
      · unfold shiftOk
        cases hs : k.sizer? with
        | none => rfl
        | some s =>
          obtain ⟨a, b⟩ := h7 s hs
          simp only [Bool.and_eq_true, decide_eq_true_eq, beq_iff_eq]
          exact ⟨a, b⟩
  theorem Accept.wfArms_of_accept : (arms : List Arm) → frontArms arms = true → pyRtArms arms = true → wfArms arms = true
    | [], _, _ => rfl
    | .mk n d t :: r, hf, hp => by
      simp only [frontArms, Bool.and_eq_true] at hf
      simp only [pyRtArms, Bool.and_eq_true, Bool.not_eq_true'] at hp
      rw [wfArms_cons]
      exact ⟨Accept.wf_of_accept t hf.1.1.1 hp.1.1, Accept.fixed_of_pyRt t hp.1.1 hp.1.2, Accept.wfArms_of_accept r hf.2 hp.2⟩
end

end Prophy

/-
  The name scan of `check_cpp_names` (prophyc/generators/base.py):

      for name in re.findall(r"(?<![0-9A-Za-z_])[A-Za-z_]\w*", text): ...

  on an ASCII text (`\w` = letter, digit, `_`).  `re.findall` walks the text from the left; at a position where the
  pattern matches it reports the (greedy, hence maximal) match and goes on AFTER it; elsewhere it moves one
  character on.  The look-behind reads the character of the text before the position, whether or not that
  character was part of an earlier match.

  `scanF` is that walk, with fuel (one unit per position visited, so `length + 1` is enough); the flag `prev`
  says whether the character before the position is an identifier character (`false` at the start of the text).
  `scanGo` is the same function written by structural recursion (it walks THROUGH a reported name with `prev = true`,
  where no candidate can start); `Lemmas/NameScanLemmas.lean` proves `scanF = scanGo` for enough fuel.
-/
import ProphyModel.Expr
namespace Prophy
namespace NameScan
open Prophy.Expr

/-- `re.findall(r"(?<![0-9A-Za-z_])[A-Za-z_]\w*", ·)` from a position; `prev` = the character before the position is
    an identifier character -/
def scanF : Nat → Bool → List Char → List String
  | 0, _, _ => []
  | _ + 1, _, [] => []
  | fuel + 1, prev, c :: r =>
    if !prev && isIdStart c then
      match takeWhileAcc isIdChar (c :: r) [] with
      | (name, rest) => String.ofList name :: scanF fuel true rest
    else scanF fuel (isIdChar c) r

/-- the names `check_cpp_names` looks up, in the order of the text -/
def scan (cs : List Char) : List String := scanF (cs.length + 1) false cs

/-- the same by structural recursion: a name starts where an identifier start follows a character that is not an
    identifier character, and is the maximal run of identifier characters from there -/
def scanGo : Bool → List Char → List String
  | _, [] => []
  | prev, c :: r =>
    if !prev && isIdStart c then String.ofList (c :: r.takeWhile isIdChar) :: scanGo true r
    else scanGo (isIdChar c) r

/-- the names the evaluator resolves: the strings of the identifier tokens, in order -/
def identsOf : List Tok → List String
  | [] => []
  | .ident s :: r => s :: identsOf r
  | _ :: r => identsOf r

end NameScan
end Prophy

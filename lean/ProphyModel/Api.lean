/-
  Reference model of the Python message API (prophy/generators.py property setters
  :248-301, :438-481; prophy/container.py array classes; scalar / enum / bytes `_check`).

  A message state is a `Val`; an operation either returns the new state or the class of
  the exception raised, in which case the state is unchanged (by construction here; that
  the implementation behaves the same is what the correspondence run checks, operation by
  operation).  Python list index / slice normalisation is modelled explicitly.
-/
import ProphyModel.Typing
import ProphyModel.Py
namespace Prophy
namespace Api

open Py (Exc)

/-- arguments a caller may pass -/
inductive Arg
  | int (i : Int)            -- a Python int
  | flt                      -- some Python float
  | str (s : String)
  | bytes (b : Bytes)
  | none
  | true_                    -- the object `True`
  | list (xs : List Arg)
  | iter (xs : List Arg)     -- an iterator yielding these values
  | msg (tname : String) (v : Val)   -- a message object of class `tname`
  | other                    -- anything else (e.g. an object())
  deriving Repr, Inhabited

inductive Step
  | field (i : Nat)          -- struct member / union arm number `i`
  | elem (i : Int)           -- array element (Python index)
  deriving Repr, Inhabited

inductive Op
  | set (path : List Step) (i : Nat) (a : Arg)                   -- `target.member = a`
  | setDisc (path : List Step) (a : Arg)                         -- `target.discriminator = a`
  | append (path : List Step) (i : Nat) (a : Arg)
  | insert (path : List Step) (i : Nat) (idx : Int) (a : Arg)
  | extend (path : List Step) (i : Nat) (a : Arg)
  | setItem (path : List Step) (i : Nat) (idx : Int) (a : Arg)
  | setSlice (path : List Step) (i : Nat) (lo hi step : Option Int) (a : Arg)
  | delItem (path : List Step) (i : Nat) (idx : Int)
  | delSlice (path : List Step) (i : Nat) (lo hi : Option Int)
  | remove (path : List Step) (i : Nat) (a : Arg)
  | add (path : List Step) (i : Nat)                             -- `array.add()`
  deriving Repr, Inhabited

abbrev M := Except Exc

/-! ### Python list semantics -/

/-- index of `l[i]` / `l[i] = x` / `del l[i]` -/
def normIndex (i : Int) (len : Nat) : M Nat :=
  let j := if i < 0 then i + len else i
  if j < 0 ∨ j ≥ len then .error .index else .ok j.toNat

/-- clamp of a slice bound -/
def clampBound (b : Option Int) (dflt : Nat) (len : Nat) : Nat :=
  match b with
  | none => dflt
  | some i =>
    let j := if i < 0 then i + len else i
    if j < 0 then 0 else if j > len then len else j.toNat

/-- `(start, stop)` of `l[lo:hi]`, with `stop ≥ start` -/
def normSlice (lo hi : Option Int) (len : Nat) : Nat × Nat :=
  let s := clampBound lo 0 len
  let e := clampBound hi len len
  (s, max s e)

def insertAt (l : List Val) (idx : Int) (x : Val) : List Val :=
  let j := clampBound (some idx) 0 l.length
  l.take j ++ x :: l.drop j

def replaceSlice (l : List Val) (s e : Nat) (xs : List Val) : List Val := l.take s ++ xs ++ l.drop e

/-! ### `_check` of the scalar types -/

def enumByName (es : List (String × Nat)) (s : String) : Option Int :=
  (es.find? (·.1 == s)).map fun e => (e.2 : Int)

/-- `type._check(value)` for the element / field type `t`; the value stored -/
def check (t : Ty) (a : Arg) : M Val :=
  match t, a with
  | .prim p, .int i => if p.isFloat then .ok (.int 0) else if inRange p i then .ok (.int i) else .error .prophy
  | .prim p, .true_ => if p.isFloat then .ok (.int 0) else .ok (.int 1)
  | .byte, .int i => if inRange .u8 i then .ok (.int i) else .error .prophy
  | .byte, .true_ => .ok (.int 1)
  | .enum _ es, .int i => if es.any (fun e => (e.2 : Int) == i) then .ok (.int i) else .error .prophy
  | .enum _ es, .true_ => if es.any (fun e => e.2 == 1) then .ok (.int 1) else .error .prophy
  | .enum _ es, .str s => match enumByName es s with
    | some v => .ok (.int v)
    | none => .error .prophy
  | _, _ => .error .prophy

/-- elements of a collection argument; `none` for something that is not iterable
    (`len(x)` / iteration then raises TypeError) -/
def argElems : Arg → Option (List Arg)
  | .list xs => some xs
  | .iter xs => some xs
  | .bytes b => some (b.map fun x => Arg.int x.toNat)     -- iterating bytes yields ints
  | .str s => some (s.toList.map fun c => Arg.str (String.ofList [c]))
  | _ => Option.none

def checkAll (t : Ty) : List Arg → M (List Val)
  | [] => .ok []
  | a :: r => do
    let v ← check t a
    let vs ← checkAll t r
    pure (v :: vs)

mutual
  /-- value of a freshly constructed message / field -/
  def defaultTy : Ty → Val
    | .prim _ => .int 0
    | .byte => .int 0
    | .enum _ es => .int (match es with | e :: _ => (e.2 : Int) | [] => 0)
    | .struct _ ms => .struct (defaultMs ms ms)
    | .union _ arms => match arms with
      | .mk _ _ t :: _ => .union 0 (defaultTy t)
      | [] => .union 0 (.int 0)
  def defaultMs (all : List Member) : List Member → List Val
    | [] => []
    | .mk n t k :: r =>
      (match k with
       | .plain => if isSizer n all then Val.sizer else defaultTy t
       | .optional => Val.absent
       | .fixed c => (match t with
          | .byte => Val.bytes (zeros c)
          | _ => Val.arr (List.replicate c (defaultTy t)))
       | _ => (match t with
          | .byte => Val.bytes []
          | _ => Val.arr [])) :: defaultMs all r
end

def isComposite : Ty → Bool
  | .struct _ _ => true
  | .union _ _ => true
  | _ => false

def tyName : Ty → String
  | .struct n _ => n
  | .union n _ => n
  | .enum n _ => n
  | _ => ""

/-- effective limit of an array member: its declared limit and what its sizer can count -/
def limitOf (all : List Member) (k : MKind) : Option Int :=
  match k with
  | .limited s c => some (min (c : Int) (sizerMax s all))
  | .dyn s sh => some (sizerMax s all - (sh : Int))
  | _ => Option.none

def overLimit (all : List Member) (k : MKind) (n : Nat) : Bool :=
  match limitOf all k with
  | some l => (n : Int) > l
  | Option.none => false

/-! ### operations on one struct member -/

/-- `struct.member = a` -/
def setMember (all : List Member) (m : Member) (old : Val) (a : Arg) : M Val :=
  match m with
  | .mk n t k =>
    if isSizer n all then .error .attribute            -- the counter is not an attribute
    else match k with
    | .plain =>
      if isComposite t then .error .prophy             -- assignment to composite field not allowed
      else check t a
    | .optional =>
      if isComposite t then
        match a with
        | .true_ => .ok (.present (defaultTy t))
        | .none => .ok .absent
        | _ => .error .prophy
      else match a with
        | .none => .ok .absent
        | _ => do
          let v ← check t a
          pure (.present v)
    | _ =>
      match t, a with
      | .byte, .bytes b =>
        (match k with
         | .fixed c => if b.length > c then .error .prophy else .ok (.bytes (b ++ zeros (c - b.length)))
         | .limited s c => if b.length > c ∨ (b.length : Int) > sizerMax s all then .error .prophy else .ok (.bytes b)
         | .dyn s sh => if (b.length : Int) > sizerMax s all - (sh : Int) then .error .prophy else .ok (.bytes b)
         | _ => .ok (.bytes b))
      | .byte, _ => .error .prophy                     -- not a bytes
      | _, _ => let _ := old; .error .prophy           -- assignment to array field not allowed

def isFixedKind : MKind → Bool
  | .fixed _ => true
  | _ => false

/-- an operation on the array held by member `m` (value `.arr xs`) -/
def arrayOp (all : List Member) (m : Member) (xs : List Val) (op : Op) : M (List Val) :=
  match m with
  | .mk _ t k =>
    let fixed : Bool := isFixedKind k
    let comp : Bool := isComposite t
    match op with
    | .append _ _ a =>
      if fixed || comp then .error .attribute
      else do
        let v ← check t a
        if overLimit all k (xs.length + 1) then .error .prophy else pure (xs ++ [v])
    | .insert _ _ idx a =>
      if fixed || comp then .error .attribute
      else do
        let v ← check t a
        if overLimit all k (xs.length + 1) then .error .prophy else pure (insertAt xs idx v)
    | .extend _ _ a =>
      if fixed then .error .attribute
      else if comp then
        match argElems a with
        | Option.none => .error .type
        | some as =>
          let rec copyAll : List Arg → M (List Val)
            | [] => .ok []
            | .msg tn v :: r => if tn == tyName t then do
                let vs ← copyAll r
                pure (v :: vs)
              else .error .type
            | _ :: _ => .error .type
          do
            let vs ← copyAll as
            if overLimit all k (xs.length + vs.length) then .error .prophy else pure (xs ++ vs)
      else
        match argElems a with
        | Option.none => .error .type
        | some as => do
          let vs ← checkAll t as
          if overLimit all k (xs.length + vs.length) then .error .prophy else pure (xs ++ vs)
    | .setItem _ _ idx a =>
      if comp then .error .attribute              -- composite arrays have no __setitem__
      else do
        let v ← check t a
        let j ← normIndex idx xs.length
        pure (xs.set j v)
    | .setSlice _ _ lo hi step a =>
      if comp then .error .attribute
      else if (match step with | Option.none => false | some s => s != 1) then .error .prophy
      else
        match argElems a with
        | Option.none => .error .type
        | some as => do
          let vs ← checkAll t as
          let (s, e) := normSlice lo hi xs.length
          if fixed then
            if e - s ≠ vs.length then .error .prophy else pure (replaceSlice xs s e vs)
          else if overLimit all k (xs.length + vs.length - (e - s)) then .error .prophy
          else pure (replaceSlice xs s e vs)
    | .delItem _ _ idx =>
      if fixed then .error .attribute
      else do
        let j ← normIndex idx xs.length
        pure (xs.eraseIdx j)
    | .delSlice _ _ lo hi =>
      if fixed then .error .attribute
      else
        let (s, e) := normSlice lo hi xs.length
        pure (replaceSlice xs s e [])
    | .remove _ _ a =>
      if fixed || comp then .error .attribute
      else
        let target : Option Int := match a with
          | .int i => some i
          | .true_ => some 1
          | _ => Option.none
        match target with
        | Option.none => .error .value
        | some i =>
          match xs.findIdx? (fun v => match v with | .int j => j == i | _ => false) with
          | some j => pure (xs.eraseIdx j)
          | Option.none => .error .value
    | .add _ _ =>
      if fixed || !comp then .error .attribute
      else if overLimit all k (xs.length + 1) then .error .prophy
      else pure (xs ++ [defaultTy t])
    | _ => .error .attribute

def opPath : Op → List Step
  | .set p _ _ | .setDisc p _ | .append p _ _ | .insert p _ _ _ | .extend p _ _ | .setItem p _ _ _
  | .setSlice p _ _ _ _ _ | .delItem p _ _ | .delSlice p _ _ _ | .remove p _ _ | .add p _ => p

def withPath (op : Op) (p : List Step) : Op :=
  match op with
  | .set _ i a => .set p i a
  | .setDisc _ a => .setDisc p a
  | .append _ i a => .append p i a
  | .insert _ i idx a => .insert p i idx a
  | .extend _ i a => .extend p i a
  | .setItem _ i idx a => .setItem p i idx a
  | .setSlice _ i lo hi st a => .setSlice p i lo hi st a
  | .delItem _ i idx => .delItem p i idx
  | .delSlice _ i lo hi => .delSlice p i lo hi
  | .remove _ i a => .remove p i a
  | .add _ i => .add p i

/-- replace element `i` of a list -/
def setAt {α : Type} (l : List α) (i : Nat) (x : α) : List α := l.set i x

/-- apply `op` to the message `v : t`; fuel bounds the path length -/
def apply : Nat → Ty → Val → Op → M Val
  | 0, _, _, _ => .error .recursion
  | fuel + 1, t, v, op =>
    match opPath op with
    | [] =>
      -- the operation targets this message
      match t, v, op with
      | .struct _ ms, .struct vs, .set _ i a =>
        match ms[i]?, vs[i]? with
        | some m, some old => do
          let nv ← setMember ms m old a
          pure (.struct (setAt vs i nv))
        | _, _ => .error .attribute
      | .union _ arms, .union cur curv, .setDisc _ a =>
        let found : Option Nat := arms.findIdx? fun arm =>
          match a with
          | .int i => (arm.disc : Int) == i
          | .true_ => arm.disc == 1
          | .str s => arm.name == s
          | _ => false
        match found with
        | some j =>
          if j = cur then pure (.union cur curv)
          else match arms[j]? with
            | some arm => pure (.union j (defaultTy arm.ty))
            | Option.none => .error .prophy
        | Option.none => .error .prophy
      | .union _ arms, .union cur _, .set _ i a =>
        match arms[i]? with
        | some arm =>
          if i ≠ cur then .error .prophy                    -- currently another field is discriminated
          else if isComposite arm.ty then .error .prophy
          else do
            let nv ← check arm.ty a
            pure (.union cur nv)
        | Option.none => .error .attribute
      | .struct _ ms, .struct vs, op =>
        -- array operations: the member number is carried by the operation
        let idx : Option Nat := match op with
          | .append _ i _ | .insert _ i _ _ | .extend _ i _ | .setItem _ i _ _ | .setSlice _ i _ _ _ _
          | .delItem _ i _ | .delSlice _ i _ _ | .remove _ i _ | .add _ i => some i
          | _ => Option.none
        match idx with
        | some i =>
          match ms[i]?, vs[i]? with
          | some m, some (.arr xs) => do
            let ys ← arrayOp ms m xs op
            pure (.struct (setAt vs i (.arr ys)))
          | _, _ => .error .attribute
        | Option.none => .error .attribute
      | _, _, _ => .error .attribute
    | .field i :: rest =>
      match t, v with
      | .struct _ ms, .struct vs =>
        match ms[i]?, vs[i]? with
        | some (.mk _ mt k), some mv =>
          (match k, mv with
           | .optional, .present x => do
             let nx ← apply fuel mt x (withPath op rest)
             pure (.struct (setAt vs i (.present nx)))
           | .optional, _ => .error .attribute            -- None has no attributes
           | .plain, x => do
             let nx ← apply fuel mt x (withPath op rest)
             pure (.struct (setAt vs i nx))
           | _, .arr xs =>
             -- the next step must select an element
             (match rest with
              | .elem e :: rest' => do
                let j ← normIndex e xs.length
                match xs[j]? with
                | some x => do
                  let nx ← apply fuel mt x (withPath op rest')
                  pure (.struct (setAt vs i (.arr (setAt xs j nx))))
                | Option.none => .error .index
              | _ => .error .attribute)
           | _, _ => .error .attribute)
        | _, _ => .error .attribute
      | .union _ arms, .union cur cv =>
        match arms[i]? with
        | some arm =>
          if i ≠ cur then .error .prophy
          else do
            let nx ← apply fuel arm.ty cv (withPath op rest)
            pure (.union cur nx)
        | Option.none => .error .attribute
      | _, _ => .error .attribute
    | .elem _ :: _ => .error .attribute

/-- outcome of one operation: the new state, or the exception class with the state unchanged -/
def step (t : Ty) (v : Val) (op : Op) : Val × Option Exc :=
  match apply 64 t v op with
  | .ok nv => (nv, Option.none)
  | .error e => (v, some e)

/-- run a history from the freshly constructed message; returns the final state and the outcomes -/
def run (t : Ty) : List Op → Val → List (Option Exc) → Val × List (Option Exc)
  | [], v, acc => (v, acc.reverse)
  | op :: r, v, acc =>
    let (nv, e) := step t v op
    run t r nv (e :: acc)

end Api
end Prophy

"""
Rendering of abstract schemas (harness/gen/schema.py) as isar XML, and of the patch lines
needed for what isar cannot express (greedy arrays).  Element kinds are grouped by
IsarParser.parse itself (constants, typedefs, enums, structs, unions), so only the order
*within* a kind is an input order.
"""
from xml.sax.saxutils import quoteattr

from harness.gen import schema as S


def _attr(**kw):
    return ''.join(' %s=%s' % (k, quoteattr(str(v))) for k, v in kw.items() if v is not None)


def isar_sizer(name):
    return name + '_len'


def member_xml(m):
    t = m.type
    if m.mk == 'plain':
        return '<member%s/>' % _attr(name=m.name, type=t)
    if m.mk == 'optional':
        return '<member%s/>' % _attr(name=m.name, type=t, optional='true')
    if m.mk == 'fixed':
        return '<member%s><dimension%s/></member>' % (_attr(name=m.name, type=t), _attr(size=m.size))
    if m.mk == 'dyn':
        return '<member%s><dimension%s/></member>' % (_attr(name=m.name, type=t), _attr(isVariableSize='true'))
    if m.mk == 'limited':
        return '<member%s><dimension%s/></member>' % (_attr(name=m.name, type=t), _attr(isVariableSize='true', size=m.size))
    if m.mk == 'dynext':
        return '<member%s><dimension%s/></member>' % (_attr(name=m.name, type=t), _attr(variableSizeFieldName='@' + m.sizer))
    if m.mk == 'greedy':
        # not expressible: rendered as a fixed array of 1, completed by the patch line `<Struct> greedy <name>`
        return '<member%s><dimension%s/></member>' % (_attr(name=m.name, type=t), _attr(size=1))
    raise ValueError(m.mk)


def decl_xml(d):
    if isinstance(d, S.Const):
        return '<constant%s/>' % _attr(name=d.name, value=d.value)
    if isinstance(d, S.Typedef):
        return '<typedef%s/>' % _attr(name=d.name, type=d.target)
    if isinstance(d, S.Enum):
        return '<enum%s>%s</enum>' % (_attr(name=d.name), ''.join('<enum-member%s/>' % _attr(name=n, value=v) for n, v in d.members))
    if isinstance(d, S.Struct):
        return '<struct%s>%s</struct>' % (_attr(name=d.name), ''.join(member_xml(m) for m in d.members))
    if isinstance(d, S.Union):
        return '<union%s>%s</union>' % (_attr(name=d.name), ''.join(
            '<member%s/>' % _attr(name=n, type=t, discriminatorValue=disc) for n, disc, t in d.arms))
    raise ValueError(d)


def to_isar(schema, order=None, includes=()):
    decls = schema.decls if order is None else [schema.decls[i] for i in order]
    body = ''.join('  <xi:include xmlns:xi="http://www.w3.org/2001/XInclude"%s/>\n' % _attr(href=h) for h in includes)
    body += ''.join('  ' + decl_xml(d) + '\n' for d in decls)
    return '<?xml version="1.0" encoding="utf-8"?>\n<dom>\n%s</dom>\n' % body


def patch_lines(schema):
    """patch rules completing what the XML cannot say"""
    out = []
    for d in schema.decls:
        if isinstance(d, S.Struct):
            for m in d.members:
                if m.mk == 'greedy':
                    out.append('%s greedy %s' % (d.name, m.name))
    return out


def topo_decls(schema, order=None, includes=()):
    """the definitions as the Lean model of topological_sort reads them, in IsarParser.parse order (Include nodes first)"""
    decls = schema.decls if order is None else [schema.decls[i] for i in order]
    out = [{'k': 'include', 'name': i} for i in includes]
    for kind in (S.Const, S.Typedef, S.Enum, S.Struct, S.Union):
        for d in decls:
            if not isinstance(d, kind):
                continue
            if kind is S.Const:
                out.append({'k': 'const', 'name': d.name, 'value': expand_operators(str(d.value))})
            elif kind is S.Typedef:
                out.append({'k': 'typedef', 'name': d.name, 'type': d.target})
            elif kind is S.Enum:
                out.append({'k': 'enum', 'name': d.name, 'members': [[n, expand_operators(str(v))] for n, v in d.members]})
            elif kind is S.Struct:
                ms = []
                for m in d.members:
                    if m.mk == 'dyn':
                        ms.append(['u32', None])
                        ms.append([m.type, None])
                    elif m.mk == 'limited':
                        ms.append(['u32', None])
                        ms.append([m.type, str(m.size)])
                    elif m.mk in ('fixed',):
                        ms.append([m.type, str(m.size)])
                    elif m.mk == 'greedy':
                        ms.append([m.type, None])
                    else:
                        ms.append([m.type, None])
                out.append({'k': 'struct', 'name': d.name, 'members': ms})
            else:
                out.append({'k': 'union', 'name': d.name, 'members': [[t, str(disc)] for n, disc, t in d.arms]})
    return out


def expand_operators(s):
    """text rewriting of isar operator calls is done by the implementation (isar.expand_operators);
    the harness renders `shiftLeft(a, b)` / `bitMaskOr(a, b)` itself only through this helper so that
    the model sees the same expression text as prophyc's model nodes hold"""
    import prophyc.parsers.isar as I
    return I.expand_operators(s)

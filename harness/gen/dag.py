"""
Random acyclic definition sets for the order-independence check (C15): constants, enums,
typedefs, structs and unions referring to each other through types, array sizes,
enumerator values and discriminators.  Generated in a dependency order, then permuted.
"""
from harness.gen import schema as S


def gen_dag(rng, n=10, prefix='N', enum_heavy=False):
    sc = S.Schema()
    consts = []        # (name, value)
    enumerators = []   # (name, value)
    fixed_types = []   # declared fixed type names usable as member types
    values = {}

    def num_ref():
        """a small positive number or a name denoting one"""
        pool = [(n_, v) for n_, v in consts + enumerators if 1 <= v <= 4]
        epool = [(n_, v) for n_, v in enumerators if 1 <= v <= 4]
        if epool and rng.random() < 0.3:
            return rng.choice(epool)
        if pool and rng.random() < 0.6:
            return rng.choice(pool)
        v = rng.randint(1, 3)
        return (str(v), v)

    def expr():
        a, av = num_ref()
        r = rng.random()
        if r < 0.35:
            return a, av
        b, bv = num_ref()
        if r < 0.55:
            return '%s*%s' % (a, b), av * bv
        if r < 0.70:
            return '%s + %s' % (a, b), av + bv
        if r < 0.80 and bv <= 2:
            return 'shiftLeft(%s, %s)' % (a, b), av << bv
        if r < 0.90:
            return 'bitMaskOr(%s, %s)' % (a, b), av | bv
        return '(%s+%s)*2' % (a, b), (av + bv) * 2

    for i in range(n):
        name = '%s%d' % (prefix, i)
        r = rng.random()
        if enum_heavy:
            r = 0.1 if r < 0.15 else 0.3 if r < 0.6 else 0.4 + (r - 0.6) * 1.5    # 15% constants, 45% enums, the rest as usual
        if r < 0.25:
            e, v = expr()
            sc.decls.append(S.Const(name, e))
            consts.append((name, v))
        elif r < 0.40:
            mem = []
            used = set()
            own = []
            for j in range(rng.randint(1, 4)):
                # an enumerator may use earlier enumerators of its own enum
                saved = list(enumerators)
                enumerators.extend(own)
                e, v = expr()
                del enumerators[:]
                enumerators.extend(saved)
                foreign = {}
                for n_, v_ in saved:
                    foreign.setdefault(n_.split('_e')[0], []).append((n_, v_))
                if len(foreign) >= 2 and rng.random() < 0.35:
                    # enumerators of two different other enums in one value (the sort has two unresolved names to choose from)
                    ea, eb = rng.sample(sorted(foreign), 2)
                    (an, av), (bn, bv) = rng.choice(foreign[ea]), rng.choice(foreign[eb])
                    e, v = '%s + %s' % (an, bn), av + bv
                elif own and rng.random() < 0.5:
                    # own earlier enumerator first, then a name defined elsewhere
                    on, ov = rng.choice(own)
                    pool = [(n_, v_) for n_, v_ in consts + saved if v_ <= 9]
                    if pool and rng.random() < 0.8:
                        xn, xv = rng.choice(pool)
                    else:
                        xv = rng.randint(1, 3)
                        xn = str(xv)
                    e, v = '%s + %s' % (on, xn), ov + xv
                if v in used:
                    continue
                used.add(v)
                mem.append(('%s_e%d' % (name, j), e, v))
                own.append(('%s_e%d' % (name, j), v))
            sc.decls.append(S.Enum(name, [(n_, e) for n_, e, _ in mem]))
            enumerators.extend((n_, v) for n_, _, v in mem)
            fixed_types.append(name)
        elif r < 0.50:
            structs_so_far = [d.name for d in sc.decls if isinstance(d, S.Struct) and d.name in fixed_types]
            # a typedef naming a struct pulls the struct in front of the enums (isar lists typedefs before enums)
            target = rng.choice(structs_so_far) if structs_so_far and rng.random() < 0.5 else rng.choice(fixed_types + S.INTS)
            sc.decls.append(S.Typedef(name, target))
            fixed_types.append(name)
        elif r < 0.62 and fixed_types:
            arms = []
            discs = set()
            for j in range(rng.randint(1, 3)):
                if enumerators and rng.random() < 0.5:
                    d, dv = rng.choice(enumerators)
                else:
                    dv = rng.randint(0, 9)
                    d = str(dv)
                if dv in discs:
                    continue
                discs.add(dv)
                arms.append(('a%d' % j, d, rng.choice(fixed_types + S.INTS)))
            sc.decls.append(S.Union(name, arms))
            fixed_types.append(name)
        else:
            ms = []
            dyn = False
            for j in range(rng.randint(1, 4)):
                t = rng.choice(fixed_types + S.INTS + S.INTS)
                q = rng.random()
                if q < 0.5:
                    ms.append(S.Member('f%d' % j, t))
                elif q < 0.75:
                    e, v = num_ref()
                    ms.append(S.Member('f%d' % j, t, 'fixed', size=e if not e.isdigit() else int(e)))
                elif q < 0.81:
                    e, v = num_ref()
                    ms.append(S.Member('f%d' % j, t, 'limited', size=e if not e.isdigit() else int(e)))
                elif q < 0.88:
                    ms.append(S.Member('f%d' % j, t, 'optional'))
                else:
                    ms.append(S.Member('f%d' % j, t, 'dyn'))
                    dyn = True
            sc.decls.append(S.Struct(name, ms))
            if not dyn:
                fixed_types.append(name)
    return sc


def directed_sets():
    """hand-made acyclic definition sets with the dependency shapes that are rare in the random ones"""
    M = S.Member
    out = []
    # a struct that needs an enumerator for a limited / fixed array size, and is pulled forward by a typedef naming it
    sc = S.Schema()
    sc.decls += [S.Const('MAXN', 3), S.Enum('ESlot', [('ESlot_First', 1), ('ESlot_Last', 'MAXN')]),
                 S.Struct('SItem', [M('a', 'u8', 'limited', size='ESlot_Last'), M('b', 'u16')]),
                 S.Typedef('TItem', 'SItem'), S.Struct('SBox', [M('x', 'TItem'), M('y', 'TItem', 'fixed', size='ESlot_First')])]
    out.append(sc)
    # a union whose discriminators are enumerators, named by a typedef used in a struct sized by a constant built from an enumerator
    sc = S.Schema()
    sc.decls += [S.Enum('EKind', [('EKind_A', 1), ('EKind_B', 2)]), S.Const('TWICE', '2*EKind_B'),
                 S.Union('UVal', [('a', 'EKind_A', 'u8'), ('b', 'EKind_B', 'u32')]), S.Typedef('TVal', 'UVal'),
                 S.Struct('SHold', [M('v', 'TVal', 'fixed', size='TWICE'), M('w', 'u8', 'limited', size='EKind_B')])]
    out.append(sc)
    # enumerators of one enum using its own earlier ones and two other enums
    sc = S.Schema()
    sc.decls += [S.Enum('EA', [('EA_x', 1)]), S.Enum('EB', [('EB_x', 2)]),
                 S.Enum('EAll', [('EAll_a', 'EA_x + EB_x'), ('EAll_b', 'EAll_a + 1'), ('EAll_c', '2*EAll_b')]),
                 S.Struct('SUse', [M('q', 'u8', 'fixed', size='EAll_a')])]
    out.append(sc)
    # definitions whose names look like built-in types but are not (r8, r16, u128): taken for built-ins by the sorter until c5d... (D78)
    sc = S.Schema()
    sc.decls += [S.Const('r16', 3), S.Const('A', 'r16 + 1'), S.Struct('r8', [M('y', 'u8'), M('z', 'u32')]), S.Typedef('u128', 'r8'),
                 S.Struct('X', [M('f', 'r8'), M('a', 'u8', 'fixed', size='A'), M('g', 'u128')])]
    out.append(sc)
    return out


def symbol_owner(sc):
    own = {}
    for d in sc.decls:
        own[d.name] = d.name
        if isinstance(d, S.Enum):
            for n_, _ in d.members:
                own[n_] = d.name
    return own


def true_deps(sc):
    """declaration name -> set of declaration names it really needs (through types, sizes, values, discriminators)"""
    import re
    own = symbol_owner(sc)
    out = {}

    def syms(text):
        return [own[s] for s in re.findall(r'[A-Za-z_]\w*', str(text)) if s in own]

    for d in sc.decls:
        deps = set()
        if isinstance(d, S.Const):
            deps.update(syms(d.value))
        elif isinstance(d, S.Enum):
            for _, v in d.members:
                deps.update(syms(v))
        elif isinstance(d, S.Typedef):
            deps.update(syms(d.target))
        elif isinstance(d, S.Struct):
            for m in d.members:
                deps.update(syms(m.type))
                if m.size is not None:
                    deps.update(syms(m.size))
        elif isinstance(d, S.Union):
            for _, disc, t in d.arms:
                deps.update(syms(t))
                deps.update(syms(disc))
        deps.discard(d.name)
        out[d.name] = deps
    return out

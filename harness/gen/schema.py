"""
Abstract schema generator.

A schema is an ordered list of declarations (Const, Enum, Typedef, Struct, Union)
referring to each other by name.  Generation is type directed and biased towards
the layout cases the properties name (sub-4-byte optionals after odd offsets,
blocks after nested dynamic structs, 8-aligned optionals, narrow sizers, ...).

Renderers:
  to_prophy(schema)        -> text in the prophy language
  tree(schema, name)       -> resolved type tree in the JSON form the Lean driver
                              reads (typedefs resolved, `T x<>` desugared like
                              prophyc/parsers/prophy.py:281)
All randomness comes from the `random.Random` passed in.
"""
import itertools

INTS = ['u8', 'u16', 'u32', 'u64', 'i8', 'i16', 'i32', 'i64']
FLOATS = ['r32', 'r64']
PRIMS = INTS + FLOATS
PRIM_SIZE = {'u8': 1, 'u16': 2, 'u32': 4, 'u64': 8, 'i8': 1, 'i16': 2, 'i32': 4, 'i64': 8, 'r32': 4, 'r64': 8}
PROPHY_NAME = {'r32': 'float', 'r64': 'double'}

FIXED, DYNAMIC, UNLIMITED = 0, 1, 2


class Const(object):
    def __init__(self, name, value):
        self.name, self.value = name, value


class Enum(object):
    kind = FIXED

    def __init__(self, name, members):
        self.name, self.members = name, members  # [(name, value)]


class Typedef(object):
    def __init__(self, name, target):
        self.name, self.target = name, target


class Member(object):
    """mk in plain / optional / fixed / dyn / limited / greedy / dynext (externally sized: `T x<@s>`)"""

    def __init__(self, name, type_, mk='plain', size=None, sizer=None, shift=0):
        self.shift = shift   # prophy.array(..., bound=, shift=): only through hand-written / patched Python descriptors
        self.name, self.type, self.mk, self.size, self.sizer = name, type_, mk, size, sizer


class Struct(object):
    def __init__(self, name, members):
        self.name, self.members = name, members


class Union(object):
    kind = FIXED

    def __init__(self, name, arms):
        self.name, self.arms = name, arms  # [(name, disc, type)]


class Schema(object):
    def __init__(self, decls=None):
        self.decls = decls or []

    def by_name(self):
        return {d.name: d for d in self.decls}

    def resolve(self, type_name):
        """follow typedefs down to a builtin name or a non-typedef declaration"""
        idx = self.by_name()
        while type_name in idx and isinstance(idx[type_name], Typedef):
            type_name = idx[type_name].target
        return idx.get(type_name, type_name)

    # --- derived attributes (the generator's own notion, used only to generate valid schemas)
    def kind_of(self, type_name):
        d = self.resolve(type_name)
        if isinstance(d, Struct):
            return struct_kind(self, d)
        return FIXED

    def composites(self):
        return [d for d in self.decls if isinstance(d, (Struct, Union))]


def struct_kind(schema, st):
    k = FIXED
    for i, m in enumerate(st.members):
        if m.mk == 'greedy':
            k = max(k, UNLIMITED)
        elif m.mk in ('dyn', 'dynext'):
            k = max(k, DYNAMIC)
        elif m.mk == 'plain':
            k = max(k, schema.kind_of(m.type))
    return k


# ----------------------------------------------------------------------------- rendering

def _tn(t):
    return PROPHY_NAME.get(t, t)


def member_to_prophy(m):
    t = 'bytes' if m.type == 'byte' else _tn(m.type)
    if m.mk == 'plain':
        return '%s %s;' % (t, m.name)
    if m.mk == 'optional':
        return '%s* %s;' % (t, m.name)
    if m.mk == 'fixed':
        return '%s %s[%s];' % (t, m.name, m.size)
    if m.mk == 'dyn':
        return '%s %s<>;' % (t, m.name)
    if m.mk == 'dynext':
        return '%s %s<@%s>;' % (t, m.name, m.sizer)
    if m.mk == 'limited':
        return '%s %s<%s>;' % (t, m.name, m.size)
    if m.mk == 'limext':      # limited by an earlier member: only through the patch rule `<struct> limited <x> <sizer>`
        return '%s %s[%s];' % (t, m.name, m.size)
    if m.mk == 'greedy':
        return '%s %s<...>;' % (t, m.name)
    raise ValueError(m.mk)


def decl_to_prophy(d):
    if isinstance(d, Const):
        return 'const %s = %s;' % (d.name, d.value)
    if isinstance(d, Enum):
        return 'enum %s\n{\n%s\n};' % (d.name, ',\n'.join('    %s = %s' % mv for mv in d.members))
    if isinstance(d, Typedef):
        return 'typedef %s %s;' % (_tn(d.target), d.name)
    if isinstance(d, Struct):
        return 'struct %s\n{\n%s\n};' % (d.name, '\n'.join('    ' + member_to_prophy(m) for m in d.members))
    if isinstance(d, Union):
        return 'union %s\n{\n%s\n};' % (d.name, '\n'.join('    %s: %s %s;' % (disc, _tn(t), n) for n, disc, t in d.arms))
    raise ValueError(d)


def to_prophy(schema):
    return '\n\n'.join(decl_to_prophy(d) for d in schema.decls) + '\n'


def patch_lines(schema):
    """the patch file that turns the `limext` members (rendered as fixed arrays) into arrays limited by their sizer"""
    return ''.join('%s limited %s %s\n' % (d.name, m.name, m.sizer)
                   for d in schema.decls if isinstance(d, Struct) for m in d.members if m.mk == 'limext')


def has_shifts(schema):
    return any(getattr(m, 'shift', 0) for d in schema.decls if isinstance(d, Struct) for m in d.members)


def apply_shifts(schema, source):
    """prophyc cannot express `shift=`: add it to the generated Python descriptors of the members that carry one"""
    import re
    for d in schema.decls:
        if not isinstance(d, Struct):
            continue
        for m in d.members:
            k = getattr(m, 'shift', 0)
            if not k:
                continue
            cm = re.search(r'^class %s\(.*?(?=^class |\Z)' % re.escape(d.name), source, re.S | re.M)
            body = cm.group(0)
            new, n = re.subn(r"(\('%s', prophy\.(?:array|bytes)\(.*?bound='[^']*')\)" % re.escape(m.name), r"\1, shift=%d)" % k, body)
            if n != 1:
                raise ValueError('cannot patch shift of %s.%s' % (d.name, m.name))
            source = source[:cm.start()] + new + source[cm.end():]
    return source


def eval_size(schema, size):
    """array sizes may be given as a constant / enumerator name"""
    if isinstance(size, int):
        return size
    idx = schema.by_name()
    if size in idx and isinstance(idx[size], Const):
        return eval_size(schema, idx[size].value)
    for d in schema.decls:
        if isinstance(d, Enum):
            for n, v in d.members:
                if n == size:
                    return eval_size(schema, v)
    return int(size, 0)


def tree(schema, type_name, sizer=lambda n: 'num_of_' + n):
    """resolved type tree (driver JSON form); `sizer` names the implicit counter of `T x<>` / `T x<n>`
    (`num_of_x` for the prophy language, `x_len` for isar)"""
    d = schema.resolve(type_name)
    if isinstance(d, str):
        if d == 'byte':
            return {'k': 'byte'}
        return {'k': 'prim', 'p': d}
    if isinstance(d, Enum):
        return {'k': 'enum', 'name': d.name, 'es': [[n, eval_size(schema, v)] for n, v in d.members]}
    if isinstance(d, Union):
        return {'k': 'union', 'name': d.name,
                'arms': [{'n': n, 'd': eval_size(schema, disc), 't': tree(schema, t, sizer)} for n, disc, t in d.arms]}
    if isinstance(d, Struct):
        ms = []
        for m in d.members:
            t = tree(schema, m.type, sizer)
            if m.mk in ('plain', 'optional', 'greedy'):
                ms.append({'n': m.name, 't': t, 'mk': m.mk})
            elif m.mk == 'fixed':
                ms.append({'n': m.name, 't': t, 'mk': 'fixed', 'size': eval_size(schema, m.size)})
            elif m.mk == 'dynext':
                ms.append({'n': m.name, 't': t, 'mk': 'dyn', 'sizer': m.sizer, 'shift': getattr(m, 'shift', 0)})
            elif m.mk == 'dyn':
                ms.append({'n': sizer(m.name), 't': {'k': 'prim', 'p': 'u32'}, 'mk': 'plain'})
                ms.append({'n': m.name, 't': t, 'mk': 'dyn', 'sizer': sizer(m.name), 'shift': getattr(m, 'shift', 0)})
            elif m.mk == 'limext':
                ms.append({'n': m.name, 't': t, 'mk': 'limited', 'sizer': m.sizer, 'size': eval_size(schema, m.size)})
            elif m.mk == 'limited':
                ms.append({'n': sizer(m.name), 't': {'k': 'prim', 'p': 'u32'}, 'mk': 'plain'})
                ms.append({'n': m.name, 't': t, 'mk': 'limited', 'sizer': sizer(m.name),
                           'size': eval_size(schema, m.size)})
        return {'k': 'struct', 'name': d.name, 'ms': ms}
    raise ValueError(d)


# ----------------------------------------------------------------------------- generation

class Gen(object):
    """
    knobs:
      n_decls     number of composite declarations
      max_members members per struct
      ext_sizers  allow externally sized arrays (not supported by the C++ full codec when shared)
      floats      allow r32/r64 fields
      greedy      allow greedy arrays / unlimited structs
      shared_sizers  allow several arrays on one sizer
    """

    def __init__(self, rng, n_decls=8, max_members=6, ext_sizers=True, floats=True, greedy=True,
                 shared_sizers=True, consts=True, typedefs=True, prefix='', small_discs=False, shifts=False):
        self.shifts = shifts
        self.rng = rng
        self.n_decls = n_decls
        self.max_members = max_members
        self.ext_sizers = ext_sizers
        self.floats = floats
        self.greedy = greedy
        self.shared_sizers = shared_sizers
        self.consts = consts
        self.typedefs = typedefs
        self.prefix = prefix
        self.small_discs = small_discs
        self.counter = itertools.count()

    def fresh(self, stem):
        return '%s%s%d' % (self.prefix, stem, next(self.counter))

    def schema(self):
        rng = self.rng
        s = Schema()
        self.const_names = []
        if self.consts:
            for _ in range(rng.randint(0, 2)):
                c = Const(self.fresh('K'), rng.choice([1, 2, 3, 4, 5]))
                s.decls.append(c)
                self.const_names.append(c.name)
        for _ in range(rng.randint(1, 2)):
            s.decls.append(self.enum())
        for i in range(self.n_decls):
            r = rng.random()
            if r < 0.18 and s.composites():
                s.decls.append(self.union(s))
            elif r < 0.26 and self.typedefs:
                s.decls.append(Typedef(self.fresh('T'), self.pick_type(s, want=None)))
            else:
                s.decls.append(self.struct(s))
        return s

    def enum(self):
        rng = self.rng
        n = rng.randint(1, 4)
        name = self.fresh('En')
        vals = rng.sample([0, 1, 2, 3, 5, 7, 10, 255, 256, 65536, 0x7fffffff, 0xffffffff], n)
        if rng.random() < 0.5 and 1 in vals:
            vals.remove(1)
            vals.append(9)
        return Enum(name, [('%s_%d' % (name, i), v) for i, v in enumerate(vals)])

    def types_of_kind(self, s, pred):
        out = []
        for d in s.decls:
            if isinstance(d, (Enum, Union)):
                if pred(FIXED):
                    out.append(d.name)
            elif isinstance(d, Struct):
                if pred(struct_kind(s, d)):
                    out.append(d.name)
            elif isinstance(d, Typedef):
                if pred(s.kind_of(d.name)):
                    out.append(d.name)
        return out

    def prims(self):
        return PRIMS if self.floats else INTS

    def pick_type(self, s, want):
        """want: predicate over kinds (None: fixed only)"""
        rng = self.rng
        pred = want or (lambda k: k == FIXED)
        declared = self.types_of_kind(s, pred)
        if declared and rng.random() < 0.45:
            return rng.choice(declared)
        return rng.choice(self.prims())

    def size_expr(self, lo=1, hi=4):
        rng = self.rng
        if self.const_names and rng.random() < 0.2:
            return rng.choice(self.const_names)
        return rng.randint(lo, hi)

    def struct(self, s):
        rng = self.rng
        name = self.fresh('S')
        n = rng.randint(1, self.max_members)
        members = []
        int_fields = []   # candidates for external sizers
        used_sizers = set()
        sizer_shift = {}
        want_dynamic = rng.random() < 0.55
        for i in range(n):
            last = (i == n - 1)
            mname = 'f%d' % i
            r = rng.random()
            fixed_only = None
            if r < 0.26:
                if not want_dynamic:
                    t = self.pick_type(s, fixed_only)
                elif last and self.greedy:
                    unl = self.types_of_kind(s, lambda k: k == UNLIMITED)
                    t = rng.choice(unl) if unl and rng.random() < 0.6 else self.pick_type(s, lambda k: True)
                else:
                    t = self.pick_type(s, lambda k: k != UNLIMITED)
                members.append(Member(mname, t))
                if t in INTS:
                    int_fields.append(mname)
            elif r < 0.36:
                members.append(Member(mname, rng.choice(self.prims())))
                if members[-1].type in INTS:
                    int_fields.append(mname)
            elif r < 0.52:
                # optionals: biased towards small and 8-byte values
                t = rng.choice(['u8', 'u16', 'u64', 'i8']) if rng.random() < 0.5 else self.pick_type(s, fixed_only)
                members.append(Member(mname, t, 'optional'))
            elif r < 0.60:
                t = 'byte' if rng.random() < 0.25 else self.pick_type(s, fixed_only)
                members.append(Member(mname, t, 'fixed', size=self.size_expr()))
            elif r < 0.68:
                t = 'byte' if rng.random() < 0.25 else self.pick_type(s, fixed_only)
                members.append(Member(mname, t, 'limited', size=self.size_expr()))
            elif want_dynamic and r < 0.88:
                t = 'byte' if rng.random() < 0.2 else self.pick_type(s, lambda k: k != UNLIMITED)
                if self.ext_sizers and int_fields and rng.random() < 0.35:
                    cands = int_fields if self.shared_sizers else [f for f in int_fields if f not in used_sizers]
                    if cands:
                        sz = rng.choice(cands)
                        used_sizers.add(sz)
                        if sz not in sizer_shift:
                            sizer_shift[sz] = rng.choice([1, 2, 5]) if self.shifts and rng.random() < 0.4 else 0
                        members.append(Member(mname, t, 'dynext', sizer=sz, shift=sizer_shift[sz]))
                        continue
                members.append(Member(mname, t, 'dyn', shift=rng.choice([1, 3]) if self.shifts and rng.random() < 0.25 else 0))
            elif want_dynamic and self.greedy and last and r < 0.96:
                t = 'byte' if rng.random() < 0.25 else self.pick_type(s, lambda k: k != UNLIMITED)
                members.append(Member(mname, t, 'greedy'))
            else:
                members.append(Member(mname, rng.choice(self.prims())))
                if members[-1].type in INTS:
                    int_fields.append(mname)
        return Struct(name, members)

    def union(self, s):
        rng = self.rng
        name = self.fresh('U')
        n = rng.randint(1, 4)
        discs = rng.sample([0, 1, 2, 3, 4, 7, 100, 0x7fffffff if self.small_discs else 0xffffffff], n)
        arms = []
        for i, d in enumerate(discs):
            arms.append(('a%d' % i, d, self.pick_type(s, None)))
        return Union(name, arms)


def type_names(schema):
    """names of all message types (structs and unions) of the schema"""
    return [d.name for d in schema.decls if isinstance(d, (Struct, Union))]


def features(t, acc=None):
    """schema features of a resolved tree, for distribution reporting and signatures"""
    acc = acc if acc is not None else {}

    def bump(k):
        acc[k] = acc.get(k, 0) + 1

    if t['k'] == 'struct':
        prev_dyn = False
        for m in t['ms']:
            bump('member:' + m['mk'])
            if m['t']['k'] == 'byte':
                bump('bytes:' + m['mk'])
            if m['mk'] == 'plain' and m['t']['k'] == 'struct':
                bump('nested-struct')
            features(m['t'], acc)
    elif t['k'] == 'union':
        bump('union')
        for a in t['arms']:
            features(a['t'], acc)
    elif t['k'] == 'enum':
        bump('enum')
    elif t['k'] == 'prim':
        bump('prim:' + t['p'])
    return acc

"""
Random constant expressions (C14) as trees, their rendering under the prophy language's
precedence (level 1 `+ -`, 2 `* /`, 3 `<< >>`, unary minus above, all left-associative) with
random redundant parentheses / spacing / literal bases, and a reference evaluation by plain
integer arithmetic on the tree.

Tree (JSON for the Lean driver): ["num", n] | ["name", s] | ["neg", e] | ["bin", op, a, b]
"""
import re
LEVEL = {'|': 0, '+': 1, '-': 1, '*': 2, '/': 2, '<<': 3, '>>': 3}


def ref_eval(t, env):
    k = t[0]
    if k == 'num':
        return t[1]
    if k == 'name':
        return env[t[1]]
    if k == 'neg':
        return -ref_eval(t[1], env)
    op, a, b = t[1], ref_eval(t[2], env), ref_eval(t[3], env)
    if op == '+':
        return a + b
    if op == '-':
        return a - b
    if op == '*':
        return a * b
    if op == '/':
        return a // b
    if op == '<<':
        return a << b
    if op == '>>':
        return a >> b
    if op == '|':
        return a | b
    raise ValueError(op)


# sub-expressions may be as large as the evaluators' 64-bit domain allows; only the final value is bounded by the use
INNER = 1 << 63
BIG = [2 ** 53 + 1, 2 ** 60 - 3, 2 ** 62 + 7, 2 ** 63 - 1, 10 ** 18 + 1, 2 ** 40 + 1, 2 ** 32, 2 ** 31 - 1, 0x123456789ABCDEF]


def gen_tree(rng, env, depth=3, want_nonneg=False, ops=('+', '-', '*', '/', '<<', '>>'), bound=1 << 40):
    """random tree whose sub-evaluations satisfy the property's side conditions
    (division: non-negative operands, non-zero divisor; shift counts 0..8; |values| < bound)"""
    for _ in range(50):
        t = _gen(rng, env, depth, ops)
        try:
            v = _checked(t, env, INNER)
        except ValueError:
            continue
        if abs(v) >= bound:
            continue
        if want_nonneg and v < 0:
            continue
        return t, v
    n = rng.randint(1, 9)
    return ['num', n], n


def _gen(rng, env, depth, ops):
    r = rng.random()
    if depth == 0 or r < 0.25:
        if env and rng.random() < 0.4:
            return ['name', rng.choice(sorted(env))]
        if rng.random() < 0.12:
            return ['num', rng.choice(BIG)]
        return ['num', rng.choice([0, 1, 2, 3, 4, 5, 7, 8, 10, 16, 64, 255, 256, 1000, 65536])]
    if r < 0.33:
        return ['neg', _gen(rng, env, depth - 1, ops)]
    op = rng.choice(ops)
    if op == '>>' and rng.random() < 0.4:
        # unary minus under a right shift: `-7 >> 1` is (-7) >> 1 = -4, not -(7 >> 1) = -3
        return ['bin', op, ['neg', ['num', rng.choice([1, 3, 7, 13, 27, 255, 1001])]], ['num', rng.randint(1, 4)]]
    return ['bin', op, _gen(rng, env, depth - 1, ops), _gen(rng, env, depth - 1, ops)]


def _checked(t, env, bound):
    k = t[0]
    if k == 'num':
        return t[1]
    if k == 'name':
        return env[t[1]]
    if k == 'neg':
        return -_checked(t[1], env, bound)
    op, a, b = t[1], _checked(t[2], env, bound), _checked(t[3], env, bound)
    if op == '/' and (a < 0 or b <= 0):
        raise ValueError
    if op in ('<<', '>>') and not (0 <= b <= 8):
        raise ValueError
    v = ref_eval(['bin', op, ['num', a] if a >= 0 else ['neg', ['num', -a]], ['num', b] if b >= 0 else ['neg', ['num', -b]]], {})
    if abs(v) >= bound:
        raise ValueError
    return v


def render(rng, t, octal=True, redundancy=0.15, c_safe=False):
    """text of the tree under the prophy precedence.  With `c_safe` every shift and every
    compound shift operand is parenthesised, so that the text means the same under the
    C / Python precedence (where `<<` binds looser than `+`)."""
    return _render(rng, t, 0, False, octal, redundancy, c_safe)


def _lit(rng, n, octal):
    r = rng.random()
    if r < 0.2:
        return '0x%x' % n if rng.random() < 0.5 else '0x%X' % n
    if octal and r < 0.3 and n > 7:
        return '0%o' % n
    return str(n)


def _sp(rng):
    return rng.choice(['', '', ' ', ' ', '  '])


def _render(rng, t, min_level, right_side, octal, redundancy, c_safe=False):
    k = t[0]
    if k == 'num':
        s = _lit(rng, t[1], octal)
    elif k == 'name':
        s = t[1]
    elif k == 'neg':
        # operand of unary minus: an atom, another unary minus, or parenthesised
        inner = t[1]
        if inner[0] == 'bin':
            s = '-' + _sp(rng) + '(' + _render(rng, inner, 0, False, octal, redundancy, c_safe) + ')'
        elif inner[0] == 'neg':
            s = '- ' + _render(rng, inner, 9, False, octal, redundancy, c_safe)   # "- -x": keep the tokens apart
        else:
            s = '-' + _render(rng, inner, 9, False, octal, redundancy, c_safe)
        if min_level > 4:
            s = '(' + s + ')'
    else:
        op, a, b = t[1], t[2], t[3]
        lvl = LEVEL[op]
        shift = c_safe and op in ('<<', '>>')
        left = _render(rng, a, 9 if shift else lvl, False, octal, redundancy, c_safe)
        right = _render(rng, b, 9 if shift else lvl + 1, True, octal, redundancy, c_safe)
        gap = _sp(rng)
        if not octal and op == '-' and right.startswith('-'):
            gap = ' '      # isar text is pasted into C++ and Python: `a--b` would be a decrement there (prophyc refuses it since b9757ab)
        before = _sp(rng)
        if not octal and op in ('+', '-') and re.search(r'0[xX][0-9a-fA-F]*[eE]\Z', left):
            before = ' '   # `0xe-1` is one (ill-formed) number for a C++ compiler: prophyc refuses such isar text since bed09d7
        s = left + before + op + gap + right
        if lvl < min_level or shift:
            s = '(' + s + ')'
    if rng.random() < redundancy:
        s = '(' + _sp(rng) + s + _sp(rng) + ')'
    return s

"""
Typed value generation over resolved type trees (driver JSON form) and the
mapping between abstract values and real prophy message objects through the
public API only.

Value JSON: int | {"b": hex} | [..] | {"s": [..]} | {"u": idx, "v": ..} | null | {"p": ..} | "sizer"
Floats travel as raw bit patterns (ints).
"""
import struct as _struct

INT_RANGE = {
    'u8': (0, 2**8 - 1), 'u16': (0, 2**16 - 1), 'u32': (0, 2**32 - 1), 'u64': (0, 2**64 - 1),
    'i8': (-2**7, 2**7 - 1), 'i16': (-2**15, 2**15 - 1), 'i32': (-2**31, 2**31 - 1), 'i64': (-2**63, 2**63 - 1),
}
FLOATS32 = [0.0, 1.0, -1.0, 0.5, -2.5, 1024.0, 3.0e38, -1.5e-38, 65537.0]
FLOATS64 = FLOATS32 + [1e300, -1e-300, 0.1, 123456789.123]


def f2bits(p, x):
    return _struct.unpack('<I' if p == 'r32' else '<Q', _struct.pack('<f' if p == 'r32' else '<d', x))[0]


def bits2f(p, b):
    return _struct.unpack('<f' if p == 'r32' else '<d', _struct.pack('<I' if p == 'r32' else '<Q', b))[0]


def sizer_names(t):
    return set(m['sizer'] for m in t['ms'] if 'sizer' in m)


def gen_int(rng, p):
    lo, hi = INT_RANGE[p]
    r = rng.random()
    if r < 0.15:
        return lo
    if r < 0.30:
        return hi
    if r < 0.45:
        return rng.choice([0, 1, 2, 42, 127, 128, 255]) if hi >= 255 else rng.choice([0, 1, 42, 127])
    if r < 0.55 and lo < 0:
        return -1
    return rng.randint(lo, hi)


def gen_value(rng, t, max_len=4, greedy_len=None):
    k = t['k']
    if k == 'prim':
        p = t['p']
        if p == 'r32':
            return f2bits(p, rng.choice(FLOATS32))
        if p == 'r64':
            return f2bits(p, rng.choice(FLOATS64))
        return gen_int(rng, p)
    if k == 'byte':
        return rng.randint(0, 255)
    if k == 'enum':
        return rng.choice(t['es'])[1]
    if k == 'union':
        idx = rng.randrange(len(t['arms']))
        return {'u': idx, 'v': gen_value(rng, t['arms'][idx]['t'], max_len)}
    if k == 'struct':
        sizers = sizer_names(t)
        lens = {}
        for m in t['ms']:
            if 'sizer' in m:
                s = m['sizer']
                cap = max_len
                if m['mk'] == 'limited':
                    cap = min(cap, m['size'])
                sizer_t = next((x['t'] for x in t['ms'] if x['n'] == s), None)
                if sizer_t and sizer_t['k'] == 'prim' and sizer_t['p'] in INT_RANGE:
                    cap = max(0, min(cap, INT_RANGE[sizer_t['p']][1] - m.get('shift', 0)))
                lens[s] = min(lens.get(s, cap), cap)
        for s in lens:
            r = rng.random()
            lens[s] = 0 if r < 0.2 else lens[s] if r < 0.4 else rng.randint(0, lens[s])
        out = []
        for m in t['ms']:
            mt, mk = m['t'], m['mk']
            if mk == 'plain':
                if m['n'] in sizers:
                    out.append('sizer')
                else:
                    out.append(gen_value(rng, mt, max_len))
            elif mk == 'optional':
                out.append(None if rng.random() < 0.4 else {'p': gen_value(rng, mt, max_len)})
            else:
                if mk == 'fixed':
                    n = m['size']
                elif mk == 'greedy':
                    n = rng.randint(0, max_len) if greedy_len is None else greedy_len
                else:
                    n = lens[m['sizer']]
                if mt['k'] == 'byte':
                    if mk == 'fixed' and rng.random() < 0.3:
                        out.append({'b': '00' * n})
                    else:
                        out.append({'b': ''.join('%02x' % rng.choice([0, 1, 0x27, 0x22, 0x41, 0x5c, 0x7f, 0x80, 0xff, rng.randint(0, 255)])
                                                 for _ in range(n))})
                else:
                    out.append([gen_value(rng, mt, max_len) for _ in range(n)])
        return {'s': out}
    raise ValueError(k)


def default_value(t):
    """the value of a freshly constructed message"""
    k = t['k']
    if k == 'prim':
        return 0
    if k == 'byte':
        return 0
    if k == 'enum':
        return t['es'][0][1]
    if k == 'union':
        return {'u': 0, 'v': default_value(t['arms'][0]['t'])}
    sizers = sizer_names(t)
    out = []
    for m in t['ms']:
        mt, mk = m['t'], m['mk']
        if mk == 'plain':
            out.append('sizer' if m['n'] in sizers else default_value(mt))
        elif mk == 'optional':
            out.append(None)
        elif mk == 'fixed':
            out.append({'b': '00' * m['size']} if mt['k'] == 'byte' else [default_value(mt) for _ in range(m['size'])])
        else:
            out.append({'b': ''} if mt['k'] == 'byte' else [])
    return {'s': out}


# ----------------------------------------------------------------------------- real objects

def _to_py_scalar(t, v):
    if t['k'] == 'prim' and t['p'] in ('r32', 'r64'):
        return bits2f(t['p'], v)
    return v


def _from_py_scalar(t, x):
    if t['k'] == 'prim' and t['p'] in ('r32', 'r64'):
        return f2bits(t['p'], float(x))
    return int(x)


def is_composite(t):
    return t['k'] in ('struct', 'union')


def apply(msg, t, v):
    """set `msg` (a fresh message of type tree `t`) to `v` through the public API"""
    if t['k'] == 'union':
        arm = t['arms'][v['u']]
        msg.discriminator = arm['d']
        if is_composite(arm['t']):
            apply(getattr(msg, arm['n']), arm['t'], v['v'])
        else:
            setattr(msg, arm['n'], _to_py_scalar(arm['t'], v['v']))
        return
    sizers = sizer_names(t)
    for m, x in zip(t['ms'], v['s']):
        mt, mk, n = m['t'], m['mk'], m['n']
        if mk == 'plain':
            if n in sizers:
                continue
            if is_composite(mt):
                apply(getattr(msg, n), mt, x)
            else:
                setattr(msg, n, _to_py_scalar(mt, x))
        elif mk == 'optional':
            if x is None:
                setattr(msg, n, None)
            elif is_composite(mt):
                setattr(msg, n, True)
                apply(getattr(msg, n), mt, x['p'])
            else:
                setattr(msg, n, _to_py_scalar(mt, x['p']))
        elif mt['k'] == 'byte':
            setattr(msg, n, bytes.fromhex(x['b']))
        elif is_composite(mt):
            arr = getattr(msg, n)
            if mk == 'fixed':
                for elem, ev in zip(arr, x):
                    apply(elem, mt, ev)
            else:
                for ev in x:
                    apply(arr.add(), mt, ev)
        else:
            getattr(msg, n)[:] = [_to_py_scalar(mt, e) for e in x]


def readback(msg, t):
    """observe the state of `msg` through attribute reads only"""
    if t['k'] == 'union':
        disc = msg.discriminator
        for idx, arm in enumerate(t['arms']):
            if arm['d'] == disc:
                x = getattr(msg, arm['n'])
                return {'u': idx, 'v': readback(x, arm['t']) if is_composite(arm['t']) else _from_py_scalar(arm['t'], x)}
        raise AssertionError('discriminator %r not among arms' % (disc,))
    sizers = sizer_names(t)
    out = []
    for m in t['ms']:
        mt, mk, n = m['t'], m['mk'], m['n']
        if mk == 'plain':
            if n in sizers:
                out.append('sizer')
            elif is_composite(mt):
                out.append(readback(getattr(msg, n), mt))
            else:
                out.append(_from_py_scalar(mt, getattr(msg, n)))
        elif mk == 'optional':
            x = getattr(msg, n)
            if x is None:
                out.append(None)
            else:
                out.append({'p': readback(x, mt) if is_composite(mt) else _from_py_scalar(mt, x)})
        elif mt['k'] == 'byte':
            raw = getattr(msg, n)
            out.append({'b': (raw if isinstance(raw, bytes) else raw.encode('latin-1')).hex()})   # a never assigned field is the str ''
        elif is_composite(mt):
            out.append([readback(e, mt) for e in getattr(msg, n)])
        else:
            out.append([_from_py_scalar(mt, e) for e in getattr(msg, n)])
    return {'s': out}


# ----------------------------------------------------------------------------- canonical form

def _canon_float(p, bits):
    """NaN payloads are outside the model (CPython quiets signalling NaNs on float32<->double conversion)"""
    if p == 'r32' and (bits & 0x7f800000) == 0x7f800000 and (bits & 0x007fffff):
        return 'nan'
    if p == 'r64' and (bits & 0x7ff0000000000000) == 0x7ff0000000000000 and (bits & 0x000fffffffffffff):
        return 'nan'
    return bits


def canon(t, v):
    """canonical form of a value for comparisons between implementation and model"""
    k = t['k']
    if k == 'prim':
        if t['p'] in ('r32', 'r64') and isinstance(v, int):
            return _canon_float(t['p'], v)
        return v
    if k in ('byte', 'enum'):
        return v
    if k == 'union':
        if not isinstance(v, dict) or 'u' not in v or v['u'] >= len(t['arms']):
            return v
        return {'u': v['u'], 'v': canon(t['arms'][v['u']]['t'], v['v'])}
    if not isinstance(v, dict) or 's' not in v:
        return v
    out = []
    for m, x in zip(t['ms'], v['s']):
        mt, mk = m['t'], m['mk']
        if x == 'sizer' or x is None:
            out.append(x)
        elif mk == 'plain':
            out.append(canon(mt, x))
        elif mk == 'optional':
            out.append({'p': canon(mt, x['p'])} if isinstance(x, dict) and 'p' in x else x)
        elif isinstance(x, list):
            out.append([canon(mt, e) for e in x])
        else:
            out.append(x)
    return {'s': out}


def has_nan(t, v):
    return 'nan' in __import__('json').dumps(canon(t, v))


def denan(v):
    """replace the canonical NaN token by 0 (for requests where only the layout matters)"""
    if v == 'nan':
        return 0
    if isinstance(v, list):
        return [denan(x) for x in v]
    if isinstance(v, dict):
        return {k: denan(x) for k, x in v.items()}
    return v

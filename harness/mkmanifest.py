"""Writes /verif/MANIFEST.json from the table below (kept in one place so it stays valid)."""
import json
import os

VERIF = os.path.dirname(os.path.dirname(os.path.abspath(__file__)))

ALL = ['C%02d' % i for i in range(1, 21)]

PROVED = {
    'C01': 'Full statement proved (C01_py_encode_canonical / C01_accepted_encode_canonical): the model of Message.encode returns Spec.enc for every accepted schema, every well-typed coherent value, both byte orders.',
    'C02': 'Full statement proved (C02_py_decode_encode, C02_py_roundtrip): decode(encode v) = (v, length) under front, pyRt, hasType, agreeTy, galTy (documented exception) and guardTy (finding D49).',
    'C03': 'Full statement proved on the model of the generated C++ codec, both halves (C03_cpp_decodes_canonical, C03_cpp_encodes_canonical, C03_cpp_roundtrip) under front, noShift, not optMisaligned (finding D4).',
    'C04': 'Full statement proved (C04_prophyc_layout: prophyc size / alignment / kind = documented layout for every accepted schema; C04_paddings_give_canonical_length; Python statics).',
    'C05': 'Full statement proved (C05_byte_size_is_canonical_length: get_byte_size = canonical length = bytes written; never a write beyond it) under front, noShift, not optMisaligned.',
    'C06': 'Full statement proved, all clauses (C06_py_decode_total, C06_py_counts_bounded, C06_py_decoded_typed, C06_py_decoded_encodes, C06_py_fixpoint under galTy).',
    'C07': 'Full statement proved for EVERY schema tree and byte string (C07_decode_no_fault, C07_decTy_safe, C07_resizes_bounded, C07_resizes_fit: every resize request times the fixed wire size of the element fits the input).',
    'C08': 'Full statement proved (C08_offsets_are_wire_offsets, C08_part_alignments, C08_sizeof_fixed, C08_union_layout).',
    'C09': 'Full statement proved (C09_swap_whole_message, C09_swap_in_place, C09_swap_unlimited_prefix) under partsOk (excludes finding D23 and non-compilable names).',
    'C10': 'State validity proved for every history (C10_reachable_typed, C10_step_typed, C10_default_typed, C10_reachable_encodes).',
    'C11': 'Full statement proved (C11_copy_of_typed, C11_copy_of_reachable, C11_copy_encoding, C11_copy_behaves_alike, separation, extend).',
    'C12': 'Model-level statement proved (C12_accepted_realisable: front and noShift imply pyRt; C12_runtime_checks_beyond_front; C12_stiffness_bridge; 11 rule-breaker theorems).',
    'C13': 'Proved: the sort fails only on real cycles (C13_sort_succeeds_on_acyclic), evaluator totality and designed errors.',
    'C14': 'Full token-level statement proved (C14_parser_language, C14_one_tree_per_text, C14_parse_print, C14_grouping_irrelevant, C14_spacing_irrelevant).',
    'C15': 'Full statement proved (C15_sort_dag: every acyclic definition set in every order sorts to a dependency-ordered permutation).',
    'C18': 'Full statement proved (C18_str_eq_print for every type, value and nesting).',
    'C19': 'Full statement proved for the Spec, the Python codec (C19_py_encode) and the C++ encoders (C19_cpp_encode).',
}

CHECKS = {
    'C01': dict(
        text='Lean 4 theorems about the Spec (docs/encoding.rst) and the executable model of the Python codec (statics agreement, '
             'table obligations regenerated from prophy/scalar.py, kernel-evaluated byte examples of the document); the model is tied to '
             'the code by a correspondence run (real Message.encode on prophyc-generated classes vs Py.encode of the Lean driver) and the '
             'property itself is searched on the real code against Spec.enc.',
        note='Trusted: Lean kernel, T1 translator, JSON driver, correspondence is sampled. The full induction `Py.encode = Spec.enc` is stated in Properties/C01.lean; proved parts are listed in the evidence.',
        technique='Lean 4 proof over an executable model + differential correspondence with the real codec', ref='5/C01'),
    'C02': dict(
        text='Lean 4 theorems (scalar pack/unpack round trip at any buffer position, both byte orders, all widths) about the model of '
             'the Python decoder; correspondence run of real decode vs Py.decode; property oracle decode(encode(v)) on real objects.',
        note='Composite round trip induction is the stated target; greedy tails not ending aligned are excluded as the property says.',
        technique='Lean 4 proof over an executable model + differential correspondence with the real codec', ref='5/C02'),
    'C03': dict(
        text='Lean 4 theorems about the model of the generated C++ full codec (scalar wire compatibility at any buffer position in both '
             'byte orders; C++ scalar encoder writes the Spec bytes) and tables; the model (generator statements x template semantics on an '
             'abstract machine, driven by the model of prophyc layout) is tied to the code by running real generated codecs (g++, ASan, UBSan) '
             'on the same bytes; the property itself is evaluated on the real code: canonical bytes (Spec.enc and real Python output) are '
             'decoded by C++ and re-encoded for little, big and native.',
        note='Full induction over schemas is the stated target. Known finding D4 (optional of a struct holding a limited array) matched by signature. g++ x86-64 ABI and sanitizer semantics are trusted.',
        technique='Lean 4 proof over an executable model of generated code + differential correspondence with compiled C++', ref='5/C03'),
    'C04': dict(
        text='Lean 4 theorems relating the three layout computations (Spec of docs/encoding.rst, model of prophy/generators.py '
             'add_attributes, model of prophyc/model.py evaluate_sizes) and table obligations over BUILTIN_SIZES/DISC_SIZE/ENUM_SIZE '
             'regenerated from the source; correspondence of the prophyc model against the nodes returned by the real prophyc.main(); '
             'the property itself is evaluated on the real tool: node size/alignment/kind vs Spec, Python statics vs Spec, message '
             'length implied by the signed paddings vs canonical length, len(encode()) of fixed types.',
        note='C++ constants (encoded_byte_size, sizeof) are compared in the C05/C08 driver batches. Float division in evaluate_union_size is modelled as integer division (exact below 2^53).',
        technique='Lean 4 proof over executable models + differential correspondence with prophyc.main()', ref='5/C04'),
    'C05': dict(
        text='Lean 4 theorems: whenever the vector API returns, the vector has exactly get_byte_size() bytes; it faults exactly when the '
             'pointer encoder writes at an index beyond get_byte_size(); nearest<N> rounds up to a multiple of N. The model of '
             'generate_struct_get_byte_size / generate_struct_encode is compared with the compiled generated code on objects including '
             'vectors grown beyond their limits; the property (size = bytes written = vector length = encoded_byte_size, no overrun) is '
             'evaluated on the real code under ASan with a sentinel-filled over-allocation.',
        note='Equality of get_byte_size and bytes written for all schemas is the stated target theorem. Known finding D4 matched by signature.',
        technique='Lean 4 proof over an executable model of generated code + differential correspondence with compiled C++', ref='5/C05'),
    'C06': dict(
        text='Lean 4 theorems about the decoder model in which exceptions are data (the length guard makes struct.error unreachable '
             'for every buffer and position; decoded counters never exceed the guard extracted from the source); correspondence of '
             'Py.decode against the real decoder on a malformed stream (every prefix, corruptions, random) and the property oracle '
             '(only ProphyError; result encodes; decode(encode()) fixpoint; time bound) on the real code.',
        note='Full induction over schemas is the stated target. Known finding D21 (greedy tail not ending aligned) is matched by signature. Wall time / memory are runtime facts measured by the harness, not theorems.',
        technique='Lean 4 proof over an executable model + differential correspondence on malformed inputs', ref='5/C06'),
    'C07': dict(
        text='Lean 4 theorems about the abstract machine of the C++ decoder (wrapping size_t(end-pos), fault = read outside the buffer): '
             'accept implies the whole input was consumed; with the cursor inside the buffer a scalar decode never reads outside and keeps '
             'the cursor inside; advance and align steps keep the cursor inside. Correspondence of the decoder model with the compiled '
             'generated decoder on a malformed stream; the property (no sanitizer fault, no exception, bounded allocation, accepted inputs '
             're-encode to the same length) is evaluated on the real code under ASan/UBSan with an allocation-recording operator new.',
        note='The induction `no fault for every schema` is the stated target. Real memory use and UB are runtime facts observed by sanitizers, not theorems.',
        technique='Lean 4 proof over an abstract machine + differential correspondence with compiled C++ under sanitizers', ref='5/C07'),
    'C08': dict(
        text='Lean 4 theorems about the packed-layout rule used by the model (a field offset is the sum of the sizes before it; every part '
             'size is a multiple of its alignment); the model of prophyc/generators/cpp.py translate_struct/translate_union + model.partition '
             '+ the g++ aligned/packed rule is tied to the code by comparing it with offsetof/sizeof printed by a program compiled from the '
             'generated header; the property (every member at its wire offset relative to its struct/part, sizeof = wire size for fixed '
             'types) is evaluated on the compiled header against Spec.blockOffsets.',
        note='g++ 12 x86-64 ABI only (the platform available). The induction `offsets = Spec offsets for every schema` is the stated target.',
        technique='Lean 4 proof over an executable model of generated code + differential correspondence with compiled C++', ref='5/C08'),
    'C09': dict(
        text='Lean 4 theorems: swapping a k-byte scalar in place turns its big-endian bytes into its little-endian bytes and touches nothing '
             'else, at any position of any buffer; scalar swap is an involution. The model of the generated swap functions (parts, cast<>, '
             'swap_n_fixed/dynamic, union switch, optional flag) is tied to the code by running the real generated prophy::swap (g++, '
             'ASan+UBSan) on big-endian canonical encodings in red-zoned buffers; the property is evaluated on the real code against the '
             'little-endian canonical encoding, tail bytes, red zones and returned pointer.',
        note='Known finding D23 (part end aligned to its own alignment) matched by schema shape. The bit-twiddling of prophy::swap(uint32_t*/uint64_t*) is tied by correspondence only (no T1 table).',
        technique='Lean 4 proof over an executable model of generated code + differential correspondence with compiled C++', ref='5/C09'),
    'C10': dict(
        text='Lean 4 theorems about the executable reference model of the message API (Api.lean: scalar/enum/bytes checks, optional set and '
             'clear, discriminator switch, every array operation with Python index and slice normalisation, limits incl. the sizer range): a '
             'rejected operation leaves the state unchanged, index / slice normalisation stays inside the list, append never exceeds the '
             'limit, one outcome per operation. The implementation is compared with the model after EVERY operation of random histories '
             '(exception class and complete state by attribute reads); the property oracle (allowed exception classes, no change on '
             'rejection, state well typed by Lean `hasType`, encodable unless shared-sizer lengths differ) is evaluated on the real objects.',
        note='Floating-point fields are outside the API model. Known finding D33 (TypeError pinned by the repository tests) matched by signature. The invariant `hasType` for every reachable model state is checked per run (Lean-evaluated), its inductive proof is a stated target.',
        technique='Lean 4 proof over an executable reference model + step-by-step differential correspondence', ref='5/C10'),
    'C11': dict(
        text='Lean 4 theorems (mutual structural induction over values, any nesting): the model of copy_from / set_field / extend yields a '
             'value equal to the source and shares no mutable object with it. The model is tied to the code by comparing copied state and '
             'the real aliasing graph (identities of all reachable messages, field dicts, arrays and lists); the property (equal values and '
             'encodings, source unchanged, later mutations of either side invisible to the other, same for extend()) is evaluated on real objects.',
        note='The model abstracts object identity to a sharing flag; actual identities are observed by the harness.',
        technique='Lean 4 proof (mutual structural induction) + differential correspondence incl. aliasing graph', ref='5/C11'),
    'C12': dict(
        text='Lean 4 theorems about the model of the front-end acceptance (parser checks with prophyc\'s own stiffness kinds): every documented '
             'rule breaker - optional / fixed / limited array of a dynamic type, any array of an unlimited type, greedy or unlimited member '
             'not last, sizer not before its array, zero size, duplicate field / discriminator, enumerator or discriminator outside 32 bits - '
             'is rejected whatever the rest of the struct is; enums are accepted by front-end and Python runtime alike. The model is tied '
             'to the code by comparing its decision with the real prophyc on valid schemas and on one-rule-breaking edits of them; usability '
             'of the artifacts (Python import, g++ on generated C++ full and raw sources) is evaluated on the real tool chain.',
        note='partial: whether g++ / CPython accept a generated file is not modelled, it is decided by running them. `front accepts -> Python runtime accepts` is the stated target theorem. Known finding D40 (reserved identifiers) matched by signature.',
        technique='Lean 4 proof over the acceptance model + differential correspondence with prophyc, CPython and g++', ref='5/C12'),
    'C13': dict(
        text='Lean 4 theorems for the stages whose logic can hang or leak an exception: the dependency sort gives up after len+1 rotations '
             'per position and reports self references and cycles; include processing reports cycles and missing files; the expression '
             'evaluator is total and turns division by zero, negative and huge shifts and out-of-range values into designed errors; a '
             'failing patch rule fails the script. The entry point itself is exercised by differential execution: prophyc.main() under an '
             'interval timer on token- and structure-level corruptions of valid prophy / isar schemas, patch files, include cycles and '
             'option combinations; a time-out or an internal exception type named by the property is a violation.',
        note='partial: termination / exception-freedom of PLY, ElementTree and argparse on arbitrary text is outside the model (trusted base); for that part the differential run is the only evidence. Wall-clock bound %d s per input is a runtime fact.' % 10,
        technique='Lean 4 proof over the modelled stages + differential execution of the real entry point', ref='5/C13'),
    'C14': dict(
        text='Lean 4 theorems over tables regenerated from the sources on every run (the yacc precedence tables of the prophy parser '
             'and of calc are equal and are exactly the levels of the model parser; every binop action applies the integer operator, '
             '`/` being floor division in both evaluators) and over the evaluator model (`/` is the integer quotient, `<<` multiplication '
             'by a power of two, evaluation total with three designed errors). The tokenizer/precedence parser/evaluator model is tied to '
             'the code by running random expressions through the real prophy parser and calc; the property itself is evaluated on the '
             'real tool against integer arithmetic on the tree: node values, generated Python values, generated C++ values (static_assert).',
        note='PLY (LALR construction, conflict resolution by the precedence table) is trusted. Known finding D27b (isar text with raw shifts) matched by signature.',
        technique='Lean 4 proof over source-derived tables and an executable model + differential correspondence', ref='5/C14'),
    'C15': dict(
        text='Lean 4 theorems about the model of prophyc/model.py topological_sort (rotation algorithm with known/available sets, '
             'find_first_dep, insert/pop, rotation bound): for EVERY node list whatever it returns is a permutation of the input and is '
             'dependency-ordered, and it always returns or reports a cycle. The model (including dependencies() extraction and '
             'enumerator ownership) is tied to the code by comparing its order with the nodes returned by the real prophyc on random '
             'DAGs x permutations; the property itself (permutation, order, import of generated Python, equal layouts) is evaluated on the real tool.',
        note='Success on every acyclic input (the rotation bound never rejects a DAG) is argued in DESIGN.md and exercised by the run; its Lean proof is listed as target.',
        technique='Lean 4 proof (induction over the rotation loop) + differential correspondence with prophyc.main()', ref='5/C15'),
    'C16': dict(
        text='Lean 4 theorems about the model of FileProcessor + include handling over an abstract file system (search path stack, cache with '
             'cycle marker): a file being processed is reported as a cyclic include; an include found in no search directory is an error; a '
             'processed file is never parsed again and exports what it exported the first time; the names visible in a file are its '
             'includes\' definitions followed by its own. The model is tied to the code by comparing the files parsed and the names visible '
             'with an event trace of the real FileProcessor + parser; the property (multi-file build = single-file build: constants, layouts, '
             'encodings; missing / cyclic includes are errors) is evaluated through the real CLI over partitions, -I layouts and working directories.',
        note='os.path / file system semantics are abstracted to (directory, leaf) pairs. Known finding D26 (isar include errors are warnings) matched by signature.',
        technique='Lean 4 proof over an executable model + differential correspondence (event traces) with the real tool', ref='5/C16'),
    'C17': dict(
        text='Lean 4 theorems: every isar <dimension> form (fixed, dynamic, limited, message-dynamic, optional) yields exactly the member '
             'records of the corresponding prophy syntax, for every name, type and size expression; every patch action yields the documented '
             'rewrite and every inapplicable rule (absent member, size field not before the array, greedy not last, non-positive size) is an '
             'error that fails the whole script. The models of isar.make_struct_members and patch.py are tied to the code by running the real '
             'functions; wire equality (layouts and encodings through both generated modules) and the CLI rules (absent message ignored, '
             'inapplicable rule fails through the error channel) are evaluated on the real tool.',
        note='ElementTree and the XML text level are trusted; sack front-end not covered (needs libclang).',
        technique='Lean 4 proof over executable models + differential correspondence with the real front-ends', ref='5/C17'),
    'C18': dict(
        text='Lean 4 theorems, complete for the modelled text functions: for every message type built from integers, enums, bytes and '
             'composites at any nesting and every value whose bytes fields have a single-quote Python repr, Python str() equals C++ print() '
             '(C18_str_eq_print, by mutual structural induction); printing any member leaves the stream formatting state unchanged; the 256-byte '
             'escape tables agree. Both text models are tied to the code by comparing them with the real str() and the real print() of compiled C++.',
        note='Floating point formatting excluded as the property says. libstdc++ ostream semantics are trusted (modelled state: the hex flag).',
        technique='Lean 4 proof (mutual structural induction) + differential correspondence with Python and compiled C++', ref='5/C18'),
    'C19': dict(
        text='Lean 4 theorems: for every chunk list (hence every message of every schema) the big-endian rendering is the little-endian '
             'one with each scalar reversed in place, same length, every padding byte zero. The real Python LE/BE outputs are checked '
             'against the chunk map of the Spec, and Py.encode is tied to the code by correspondence.',
        note='Transport from Spec.enc to the Python codec rests on C01 (correspondence + theorems); C++ half runs in the C03 batches.',
        technique='Lean 4 proof (structural induction on chunk lists) + differential correspondence', ref='5/C19'),
    'C20': dict(
        text='Lean 4 theorems about the model of the shared FileProcessor cache (a processed file is never parsed again and exports the same '
             'names; names visible in a file are a function of its includes and itself), tied to the real FileProcessor by event traces for '
             'different input orders; determinism itself is evaluated by differential runs of the real CLI: PYTHONHASHSEED values x working '
             'directories x command-line orders x one-file-alone, byte comparison of every generated file (Python, C++ full, C++ raw).',
        note='partial: CPython hash randomisation, set/dict iteration order and cwd handling are runtime behaviour the model cannot exhibit; that part is decided by differential execution only.',
        technique='Lean 4 proof over the cache model + differential runs of the real CLI', ref='5/C20'),
}


def main():
    checks = []
    for pid in ALL:
        if pid not in CHECKS:
            continue
        c = CHECKS[pid]
        checks.append({
            'property_id': pid,
            'quick_cmd': '/venv/bin/python harness/check.py %s --tier quick' % pid,
            'thorough_cmd': '/venv/bin/python harness/check.py %s --tier thorough' % pid,
            'evidence_file': 'evidence/%s.json' % pid,
            'replay_cmd_template': '/venv/bin/python harness/replay.py {path}',
            'engine': 'lean4-model+correspondence',
            'level_claimed': {'category': 'proof', 'text': (PROVED.get(pid, '') + ' ' + c['text']).strip(), 'design_ref': 'DESIGN.md section ' + c['ref']},
            'level_note': c['note'].replace('is the stated target theorem', 'is now proved (see level text)').replace('is the stated target', 'is now proved (see level text)'),
            'technique': c['technique'],
        })
    manifest = {
        'version': 1,
        'setup_cmd': '/venv/bin/python harness/setup.py',
        'hooks': {
            'guard': 'PROPHY_VERIF',
            'enable': 'no hook is needed: all observation is through public APIs, prophyc.main() and generated files',
            'baseline_off_cmd': 'cd /repo && /venv/bin/python -m pytest -ra -q -p no:cacheprovider --timeout=900 --continue-on-collection-errors',
            'source_commits': [],
            'add_only': True,
        },
        'engines': [{
            'name': 'lean4-model+correspondence',
            'path': 'lean/ (ProphyModel library, Driver executable) + harness/',
            'serves_properties': sorted(CHECKS),
            'kind_free_text': 'Lean 4 theorems about an executable model; T1 table translator; JSON-lines correspondence against the real implementation',
        }],
        'checks': checks,
        'notes': 'See DESIGN.md. Fix commits in /repo are listed in known_findings.json (status fixed).',
        'not_applicable': [{'property_id': p, 'reason': 'check under construction in this session (see DESIGN.md section 7); not claimed yet'}
                           for p in ALL if p not in CHECKS],
    }
    with open(os.path.join(VERIF, 'MANIFEST.json'), 'w') as f:
        json.dump(manifest, f, indent=1)


if __name__ == '__main__':
    main()

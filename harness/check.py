#!/venv/bin/python
"""Entry point: check.py <property id> [--tier quick|thorough] | check.py replay <file>"""
import argparse
import os
import sys

HERE = os.path.dirname(os.path.abspath(__file__))
sys.path.insert(0, os.path.dirname(HERE))

from harness import core  # noqa: E402


def dispatch(prop, tier):
    if prop in ('C01', 'C02', 'C06', 'C19'):
        from harness.checks import pycodec
        return getattr(pycodec, 'run_' + prop.lower())(tier)
    if prop == 'C04':
        from harness.checks import layout
        return layout.run_c04(tier)
    if prop == 'C15':
        from harness.checks import order
        return order.run_c15(tier)
    if prop == 'C14':
        from harness.checks import expr
        return expr.run_c14(tier)
    if prop in ('C03', 'C05', 'C07', 'C18'):
        from harness.checks import cppfull
        return getattr(cppfull, 'run_' + prop.lower())(tier)
    if prop in ('C08', 'C09'):
        from harness.checks import cppraw
        return getattr(cppraw, 'run_' + prop.lower())(tier)
    if prop == 'C10':
        from harness.checks import api
        return api.run_c10(tier)
    if prop == 'C11':
        from harness.checks import copy
        return copy.run_c11(tier)
    if prop in ('C16', 'C20'):
        from harness.checks import files
        return getattr(files, 'run_' + prop.lower())(tier)
    if prop == 'C17':
        from harness.checks import frontends
        return frontends.run_c17(tier)
    if prop == 'C13':
        from harness.checks import robust
        return robust.run_c13(tier)
    if prop == 'C12':
        from harness.checks import accept
        return accept.run_c12(tier)
    raise core.Infra('no check registered for %s' % prop)


def main():
    ap = argparse.ArgumentParser()
    ap.add_argument('prop')
    ap.add_argument('--tier', default=os.environ.get('VERIF_TIER', 'quick'), choices=['quick', 'thorough'])
    ap.add_argument('file', nargs='?')
    a = ap.parse_args()
    core.main_wrapper(lambda: dispatch(a.prop, a.tier))


if __name__ == '__main__':
    main()

"""Client of the Lean model driver (lean/.lake/build/bin/prophy_driver): JSON lines."""
import json
import os
import subprocess

VERIF = os.path.dirname(os.path.dirname(os.path.dirname(os.path.abspath(__file__))))
DRIVER = os.path.join(VERIF, 'lean', '.lake', 'build', 'bin', 'prophy_driver')


class DriverError(Exception):
    pass


def batch(requests, timeout=600):
    """run the requests through a fresh driver process, return the list of answers"""
    if not requests:
        return []
    payload = '\n'.join(json.dumps(r, separators=(',', ':')) for r in requests) + '\n'
    p = subprocess.run([DRIVER], input=payload.encode(), stdout=subprocess.PIPE, stderr=subprocess.PIPE,
                       timeout=timeout)
    if p.returncode != 0:
        raise DriverError('driver exit %s: %s' % (p.returncode, p.stderr.decode()[-2000:]))
    lines = p.stdout.decode().splitlines()
    if len(lines) != len(requests):
        raise DriverError('driver answered %d lines for %d requests: %s' % (len(lines), len(requests), p.stderr.decode()[-2000:]))
    out = [json.loads(x) for x in lines]
    for req, ans in zip(requests, out):
        if 'driver_error' in ans:
            raise DriverError('driver rejected %s: %s' % (json.dumps(req)[:300], ans['driver_error']))
    return out

#!/usr/bin/env python3
"""list / stage single hunks of the working-tree diff of a repository (non-interactive `git add -p`)
   hunks.py <repo> list            -> numbered hunks (file, header, first changed lines)
   hunks.py <repo> stage 3 5 7     -> git apply --cached the chosen hunks"""
import re
import subprocess
import sys


def hunks(repo):
    diff = subprocess.run(['git', '-C', repo, 'diff', '-U3'], stdout=subprocess.PIPE).stdout.decode()
    out = []
    for filediff in re.split(r'(?m)^(?=diff --git )', diff):
        if not filediff.strip():
            continue
        parts = re.split(r'(?m)^(?=@@ )', filediff)
        head = parts[0]
        for h in parts[1:]:
            out.append((head, h))
    return out


def main():
    repo, cmd = sys.argv[1], sys.argv[2]
    hs = hunks(repo)
    if cmd == 'list':
        for i, (head, h) in enumerate(hs):
            name = re.search(r'^\+\+\+ b/(.*)$', head, re.M).group(1)
            changed = [l for l in h.splitlines()[1:] if l[:1] in '+-'][:3]
            print(i, name, h.splitlines()[0][:40], ' | '.join(c[:70] for c in changed))
    else:
        if cmd == 'match':     # hunks.py <repo> match <regex> ...: stage every hunk whose text (or file name) matches one of the patterns
            chosen = [i for i, (head, h) in enumerate(hs) if any(re.search(rx, head.split('\n')[0] + '\n' + h) for rx in sys.argv[3:])]
            print('staging hunks', chosen)
        else:
            chosen = [int(x) for x in sys.argv[3:]]
        byfile = {}
        for i in chosen:
            head, h = hs[i]
            byfile.setdefault(head, []).append(h)
        patch = ''.join(head + ''.join(hl) for head, hl in byfile.items())
        p = subprocess.run(['git', '-C', repo, 'apply', '--cached', '--recount', '-'], input=patch.encode())
        sys.exit(p.returncode)


main()

#!/venv/bin/python
"""resolve duplicate declaration names between independently written lemma files: build, and while the build
reports "import M failed, environment already contains 'N' from M2", rename N's last component inside M's file"""
import re
import subprocess
import sys

for _ in range(60):
    out = subprocess.run('lake build 2>&1', shell=True, cwd='/verif/lean', stdout=subprocess.PIPE).stdout.decode()
    m = re.search(r"import (\S+) failed, environment already contains '([^']+)' from (\S+)", out)
    if not m:
        print(out.strip().splitlines()[-1])
        break
    mod, name, other = m.groups()
    path = '/verif/lean/' + mod.replace('.', '/') + '.lean'
    base = name.split('.')[-1]
    if base.startswith('match_') or base.startswith('_') or base.startswith('eq_') or base in ('rec', 'casesOn', 'mk'):
        base = name.split('.')[-2]
    s = open(path).read()
    new = base + '_' + mod.split('.')[-1][:6].lower()
    s2 = re.sub(r"(?<![\w'])%s(?![\w'])" % re.escape(base), new, s)
    if s2 == s:
        print('cannot rename', name, 'in', path)
        sys.exit(1)
    open(path, 'w').write(s2)
    print('renamed', base, '->', new, 'in', mod)

#!/venv/bin/python
"""
Evaluate a seeded change: tools/try_seed.py <name> <scratch-dir> <prop> [<prop> ...] [--thorough]
 1. confirms in the agent's scratch worktree that the unedited suite passes with the change and that
    the demonstration fails with it and passes without it,
 2. stores patch.diff / demo / meta.json under /verif/seeded/<name>/,
 3. applies the patch to /repo, runs the listed checks, and ALWAYS reverts /repo.
Prints one line per check: property, exit code, last VIOLATION / summary line.
"""
import json
import os
import shutil
import subprocess
import sys

VERIF = '/verif'


def sh(cmd, cwd=None, timeout=3600, env=None):
    p = subprocess.run(cmd, shell=True, cwd=cwd, stdout=subprocess.PIPE, stderr=subprocess.STDOUT, timeout=timeout, env=env)
    return p.returncode, p.stdout.decode(errors='replace')


def main():
    args = [a for a in sys.argv[1:] if not a.startswith('--')]
    tier = 'thorough' if '--thorough' in sys.argv else 'quick'
    name, scratch, props = args[0], args[1], args[2:]
    wt = scratch[:-len('-scratch')] if scratch.endswith('-scratch') else None
    dest = os.path.join(VERIF, 'seeded', name)
    os.makedirs(dest, exist_ok=True)
    for fn in os.listdir(scratch):
        if fn in ('patch.diff', 'meta.json') or fn.startswith('demo'):
            shutil.copy(os.path.join(scratch, fn), os.path.join(dest, fn))
    demo = next((f for f in os.listdir(dest) if f.startswith('demo')), None)
    confirm = {}
    if wt and os.path.isdir(wt):
        env = dict(os.environ, PYTHONPATH=wt)
        rc, out = sh('/venv/bin/python -m pytest -q -p no:cacheprovider 2>&1 | tail -1', cwd=wt, env=env)
        confirm['suite_with_change'] = out.strip()
        run_demo = ('/venv/bin/python %s %s' if demo.endswith('.py') else 'bash %s %s') % (os.path.join(dest, demo), wt)
        rc1, out1 = sh(run_demo, cwd=wt, env=env, timeout=900)
        confirm['demo_with_change_rc'] = rc1
        sh('git stash -q', cwd=wt)
        try:
            rc0, out0 = sh(run_demo, cwd=wt, env=env, timeout=900)
        finally:
            sh('git stash pop -q', cwd=wt)
        confirm['demo_without_change_rc'] = rc0
        confirm['demo_with_change_tail'] = out1.strip().splitlines()[-3:]
    print('confirm:', json.dumps(confirm))
    results = {}
    rc, out = sh('git -C /repo apply %s' % os.path.join(dest, 'patch.diff'))
    if rc != 0:
        print('PATCH DOES NOT APPLY:', out)
        return 2
    try:
        for p in props:
            rc, out = sh('/venv/bin/python harness/check.py %s --tier %s' % (p, tier), cwd=VERIF, timeout=7200)
            lines = [l for l in out.strip().splitlines() if l.startswith('VIOLATION') or l.startswith(p + ' ')]
            results[p] = {'rc': rc, 'lines': [l[:200] for l in lines[-3:]]}
            print(p, 'rc=%d' % rc, ' | '.join(l[:160] for l in lines[-2:]))
    finally:
        sh('git -C /repo checkout -- .')
        sh('/venv/bin/python harness/t1_extract.py', cwd=VERIF)      # the generated tables follow the tree again
        rc, out = sh('git -C /repo status --short')
        if out.strip():
            print('WARNING: /repo not clean:', out)
    meta_path = os.path.join(dest, 'meta.json')
    meta = json.load(open(meta_path)) if os.path.exists(meta_path) else {}
    meta['confirmed'] = confirm
    meta.setdefault('checks_run', {})[tier] = results
    json.dump(meta, open(meta_path, 'w'), indent=1)
    return 0


if __name__ == '__main__':
    sys.exit(main())

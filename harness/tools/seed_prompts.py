#!/usr/bin/env python3
"""Write the prompts of a seeded-change round: one fresh agent per property gets the property text, a target area, the
mechanisms tried before (summaries of /verif/seeded/*/meta.json) and its own worktree; nothing else of /verif.

  seed_prompts.py <round dir, e.g. /tmp/mut5> C01 C03 ...     (target areas: TARGETS below)
"""
import glob
import json
import os
import sys

VERIF = os.path.dirname(os.path.dirname(os.path.dirname(os.path.abspath(__file__))))

TARGETS_EXTRA = {
    'C02': "prophy/descriptor.py decode_* functions, prophy/container.py `_decode_impl` of every array kind, prophy/composite.py struct / union `_decode_impl` (the arm switch), prophy/generators.py `container_len` (shift, guard), `decode(terminal=...)` return values",
    'C05': "prophy_cpp/include/prophy/detail/encoder.hpp (optional, limited arrays, dynamic structs in arrays), byte_size.hpp / the generated get_byte_size and encode text of prophyc/generators/cpp_full.py for limited and externally sized arrays, padding after dynamic members",
    'C07': "prophy_cpp/include/prophy/detail/decoder.hpp (`do_decode_resize`, `heap_value`, greedy decoders, `do_decode_align`, optional decoder, union decoder bounds), the generated decode text of prophyc/generators/cpp_full.py",
    'C09': "prophyc/generators/cpp.py `_CppSwapTranslator` (parts, `get_missing`, delimiters, limited arrays, optional, union swap text), prophy_cpp/include/prophy/prophy.hpp swap overloads and `swap_n_fixed` / `swap_n_dynamic`",
    'C11': "prophy/composite_base.py `copy_from` / `validate_copy_from`, prophy/composite.py `struct.set_field` / `union._copy_implementation`, prophy/container.py `extend` / `add` (field names only) / slice assignment of composite arrays",
    'C15': "prophyc/model.py `topological_sort`, `dependencies()` of every node kind (constants, enumerators, array sizes, discriminators, typedef chains), Include nodes in the sorted list, prophyc/parsers/isar.py order of parsed nodes",
    'C17': "prophyc/parsers/isar.py `make_struct_members` (dimension forms, `factor`, `expand_operators`, isVariableSize by value), prophyc/patch.py actions (`static` clears bound and greedy, `limited`, `insert` index clamp, duplicate check after patching)",
    'C18': "prophy/composite.py `field_to_string` / str() (bytes escaping, enumerators by name, optional, union), prophy_cpp/include/prophy/detail/printer.hpp and message.hpp (`print` in the classic locale), prophyc/generators/cpp_full.py enum printing (shared values: last name)",
    'C06+': "prophy/composite_base.py `as_bytes` (what decode reads), prophy/composite.py union `_decode_impl`, prophy/generators.py `container_len` decode guard",
    'C12+': "prophyc/generators/base.py `check_cpp_names` (CPP_RUNTIME_NAMES for namespace-scope names, CPP_MEMBER_NAMES for members, the `generated` pattern for types and members, `discriminator_`), prophyc/model.py `unwritable` (UNWRITABLE_TEXT, PASTED_TEXT_DEPTH / LENGTH) and `check_size_text`",
    'C16+': "prophyc/file_processor.py `_identity` (device and inode), `names` / `name_of` (SameNameError, TwoNamesError), `_same_includes`, `heights`",
    'C20+': "prophyc/generators/base.py `write_files` (encode everything, open every file, then write) and `render`, prophyc/__init__.py `generate_target_files`, prophyc/file_processor.py `_identity` / `inodes` cache",
}

TARGETS = {
    'C01': "prophy/generators.py (add_padding, partial alignment, limit_to_sizer_range, build_container_length_field), prophy/composite.py struct.encode / _bytes, prophy/container.py encoders",
    'C03': "prophy_cpp/include/prophy/detail/encoder.hpp / decoder.hpp (heap_value, do_decode_resize, greedy decoder, memcpy based scalar access), prophyc/generators/cpp_full.py (encode / decode / byte size text of limited and externally sized arrays)",
    'C04': "prophyc/model.py evaluate_sizes / evaluate_struct_size / evaluate_array_sizes / calc_wire_stiffness (included files walked once, cycle guards, integer union size), typedef chains",
    'C06': "prophy/composite_base.py as_bytes, prophy/composite.py struct.decode / union._decode_impl (the arm switch), prophy/descriptor.py decode_optional / decode_array_delimiter, prophy/generators.py container_len decode (guard after shift)",
    'C08': "prophyc/generators/cpp.py _HppTranslator (member declarations, paddings, _optional_flag_padding, part structs), check_nodes with the reserved nested names",
    'C10': "prophy/base_array.py sort, prophy/scalar.py float_decorator.check / int_decorator.check (number subclasses), prophy/generators.py union discriminator setter and validate (non-integer discriminators), prophy/container.py array() argument checks, slice assignment",
    'C12': "prophyc/model.py validate_values (check_size_text, UNWRITABLE_TEXT), validate_composability, validate_names; prophyc/generators/base.py check_cpp_names (runtime names, generated names, walked once), guard_name escaping",
    'C13': "prophyc/generators/base.py check_cpp_names (visited set), prophyc/file_processor.py (IncludeDepthError, heights), prophyc/__init__.py error_on_exception, prophyc/calc.py",
    'C14': "prophyc/generators/cpp.py and cpp_full.py _to_literal (negative literals with blanks / parentheses, -2^63), prophyc/parsers/isar.py make_enum (negative values, ASCII digits), prophyc/parsers/prophy.py number tokens, prophyc/generators/python.py _form_enum_members",
    'C16': "prophyc/file_processor.py (_same_includes, _context, includes_of, verified; _directories_of), prophyc/parsers/prophy.py declare_all / include handling",
    'C19': "prophy_cpp/include/prophy/detail/encoder.hpp encode_int specialisations / byte order dispatch, prophy.hpp swap overloads, prophy/scalar.py numeric_decorator encode, prophy/composite.py union.encode padding",
    'C20': "prophyc/__init__.py generate_target_files / write_files (render everything, check writability, then write), prophyc/file_processor.py heights / INCLUDE_DEPTH_LIMIT / verified cache",
}

TEXT = """You are helping evaluate a verification tool-set by producing a realistic *seeded defect* for an open-source repository. You have your own scratch git worktree of the repository at {wt} (project: aurzenligl/prophy - a tag-free binary serialization format with a Python runtime codec `prophy/` and `prophyc/`, an IDL compiler that computes layouts and generates Python/C++ codecs; C++ runtime headers under prophy_cpp/include). Work ONLY inside {wt} (and scratch files under {wt}-scratch). Do NOT read or write anything under /verif or /repo, and do not use git commit. No network is available. Python with all dependencies is /venv/bin/python (run it with `cd {wt} && PYTHONPATH={wt} /venv/bin/python ...` so that YOUR worktree is imported, verify with `python -c "import prophy, prophyc; print(prophy.__file__, prophyc.__file__)"`); g++ 12 is available for C++ (include path {wt}/prophy_cpp/include).

THE PROPERTY the repository is supposed to satisfy:

  {pid} - {title}
  {statement}
  Quantifier: {quant}

YOUR TASK: make ONE small, realistic change to the source code of the repository (a plausible bug a developer could introduce: an off-by-one, a wrong attribute, a dropped check, a changed order of two statements, a condition that is slightly too weak or too strong, two cooperating sites that each look fine alone...) such that
  1. the property above is VIOLATED by the changed code,
  2. the code still works in ordinary use and the repository's existing test-suite still passes completely: `cd {wt} && PYTHONPATH={wt} /venv/bin/python -m pytest -q -p no:cacheprovider -x 2>&1 | tail -3` must report no failures (about 820 tests; the machine is shared, it may take a minute),
  3. the violation needs something SPECIFIC to manifest - a particular combination of schema features, an unusual input, a particular field order / alignment mix, a multi-step sequence of API operations, a particular corrupted byte, ... - NOT something that any ordinary use would expose at once. Prefer subtle over blatant.
Do not edit tests. Do not add new files to the repository other than your change (keep the change inside existing source files: Python under prophy/ or prophyc/, or C++ headers under prophy_cpp/include, whichever the property is about).

TARGET AREA for this round (make your change here, or as close to it as the property allows; this code was added or rewritten recently): {target}

ALREADY TRIED in earlier rounds (do NOT repeat these mechanisms):
{tried}

DELIVERABLES (write them under {wt}-scratch/):
  - patch.diff : output of `git -C {wt} diff` (the change only).
  - demo.py (or demo.sh) : a self-contained demonstration program that exits with status 0 when the property holds and non-zero (printing what went wrong) when it is violated. It must FAIL with your change applied and PASS on the original code (check both; do NOT use `git stash` - the stash is shared with other worktrees - instead save `git diff > patch.diff`, `git apply -R patch.diff` to test the original, `git apply patch.diff` to restore). It takes the repository root as first argument (default {wt}) and must use only that tree (sys.path.insert(0, root)). For C++ properties the demo may generate code with `python -m prophyc`, compile with g++ (optionally -fsanitize=address,undefined) and run it.
  - meta.json : {{"property": "{pid}", "summary": "<one sentence: what was changed>", "needs": "<what specific input/sequence/schema is needed for the violation to show>", "files": ["<changed files>"]}}
Finally leave the change APPLIED in the worktree, and reply with a short report: the diff, what is needed to trigger it, and the output of the test-suite tail and of the demo with and without the change.
"""


def main():
    rd, ids = sys.argv[1], sys.argv[2:]
    props = {}
    for line in open(os.path.join(VERIF, 'properties.jsonl')):
        p = json.loads(line)
        props[p['id']] = p
    tried = {}
    for mp in sorted(glob.glob(os.path.join(VERIF, 'seeded', '*', 'meta.json'))):
        try:
            m = json.load(open(mp))
        except ValueError:
            continue
        pid = m.get('property') or os.path.basename(os.path.dirname(mp))[:3]
        if m.get('summary'):
            tried.setdefault(pid, []).append('  - %s (files: %s)' % (m['summary'][:420], ', '.join(m.get('files', []))))
    os.makedirs(os.path.join(rd, 'prompts'), exist_ok=True)
    for i in ids:
        p = props[i]
        wt = os.path.join(rd, i)
        text = TEXT.format(wt=wt, pid=i, title=p['title'], statement=p['statement'], quant=p['quantifier']['text'],
                           target=TARGETS_EXTRA.get(i + '+' if os.environ.get('SEED_PLUS') else i, TARGETS_EXTRA.get(i, TARGETS.get(i, 'anywhere the property reaches'))),
                           tried='\n'.join(tried.get(i, ['  (none)'])))
        open(os.path.join(rd, 'prompts', i + '.txt'), 'w').write(text)
        print(i, len(tried.get(i, [])), 'earlier mechanisms')


if __name__ == '__main__':
    main()

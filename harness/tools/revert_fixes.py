#!/venv/bin/python
"""for every repaired finding: undo its `fix:` commit in /repo's working tree (git apply -R), run the quick check of the
property (and of the properties named after "also"), restore the tree.  A revert that no check catches is a hole.
   revert_fixes.py [Dnn ...]      -> results in /verif/seeded/reverts.json"""
import json
import os
import re
import subprocess
import sys

REPO, VERIF = '/repo', '/verif'


def sh(*a, **kw):
    return subprocess.run(list(a), stdout=subprocess.PIPE, stderr=subprocess.STDOUT, **kw)


def main():
    only = set(sys.argv[1:])
    kf = json.load(open(os.path.join(VERIF, 'known_findings.json')))['findings']
    out_path = os.path.join(VERIF, 'seeded', 'reverts.json')
    results = json.load(open(out_path)) if os.path.exists(out_path) else {}
    assert sh('git', '-C', REPO, 'status', '--porcelain').stdout.strip() == b'', 'repo not clean'
    seen = set()
    for e in kf:
        if e['status'] != 'fixed' or e['id'] in seen or (only and e['id'] not in only):
            continue
        seen.add(e['id'])
        if e['id'] in results and not only:
            continue
        commit = e['commit']
        props = [e['property']] + re.findall(r'C\d\d', e['text'].split('also', 1)[1] if 'also' in e['text'] else '')
        props = list(dict.fromkeys(props))
        patch = sh('git', '-C', REPO, 'show', commit).stdout
        chk = subprocess.run(['git', '-C', REPO, 'apply', '-R', '--check', '-'], input=patch, stdout=subprocess.PIPE, stderr=subprocess.STDOUT)
        if chk.returncode != 0:
            results[e['id']] = {'commit': commit, 'status': 'revert does not apply to the current tree', 'props': props}
            print(e['id'], commit, 'revert does not apply')
            continue
        subprocess.run(['git', '-C', REPO, 'apply', '-R', '-'], input=patch)
        caught, runs = None, []
        try:
            suite = sh('/venv/bin/python', '-m', 'pytest', '-q', '-x', '-p', 'no:cacheprovider', '-n', '8', cwd=REPO, timeout=1800)
            suite_ok = suite.returncode == 0
            for p in props:
                r = sh('/venv/bin/python', 'harness/check.py', p, '--tier', 'quick', cwd=VERIF, timeout=3600, env=dict(os.environ, VERIF_SEED='1'))
                runs.append([p, r.returncode])
                if r.returncode == 1:
                    caught = p
                    break
        finally:
            sh('git', '-C', REPO, 'checkout', '--', '.')
        results[e['id']] = {'commit': commit, 'props': props, 'suite_passes_with_revert': suite_ok, 'runs': runs, 'caught_by': caught,
                            'status': 'caught' if caught else 'NOT CAUGHT'}
        print(e['id'], commit, 'suite', 'ok' if suite_ok else 'FAILS', runs, '->', results[e['id']]['status'], flush=True)
        json.dump(results, open(out_path, 'w'), indent=1)
    json.dump(results, open(out_path, 'w'), indent=1)
    bad = [k for k, v in results.items() if v['status'] == 'NOT CAUGHT']
    print('not caught:', bad)


if __name__ == '__main__':
    main()

#!/usr/bin/env python3
"""Write the prompts of an audit round: one fresh agent per property gets the property text, the
list of recorded (open / repaired) findings and its own worktree, and looks for violations on the
unmodified code.  Nothing of /verif but the property text and the finding texts goes into a prompt.

  audit_prompts.py <round dir, e.g. /tmp/aud5> <times audited so far> C01 C02 ...
"""
import json
import os
import sys

VERIF = os.path.dirname(os.path.dirname(os.path.dirname(os.path.abspath(__file__))))

FOCUS = {
    'C01': "the Python runtime's own layout (prophy/generators.py add_padding / partial alignment, composite sizes) against docs/encoding.rst for hand-written descriptors and for prophyc output: unions inside dynamic structs inside arrays, optional unions, typedef chains, enum / bytes members at block starts, 3+ blocks",
    'C02': "encode/decode round trip of the Python runtime: union arms of every kind inside arrays, bytes fields (fixed / limited / bound / greedy) next to optionals, both endiannesses, decode(terminal=False) return values and chained decoding, messages reused for a second decode (stale state), set_... / add() / default values",
    'C03': "Python runtime vs C++ full codec vs C++ raw structs on the same bytes: multi-block structs whose blocks start with optionals / unions / enums, limited arrays of unions, typedefs of arrays' elements, includes; print() vs str() texts",
    'C04': "sizes and alignments prophyc computes (prophyc/model.py evaluate_*; byte_size / alignment / padding of members) vs what the Python runtime and sizeof() in the generated C++ say: typedef chains to unions / enums, includes, isar input, patched input, constants in sizes",
    'C06': "Python decode of arbitrary / truncated / hostile bytes: only ProphyError may escape, time and memory proportional to the input: unions with unknown discriminators inside optionals, limited arrays with huge counters, several arrays on one counter, enum arrays, decode of bytes subclasses / bytearray / memoryview / str",
    'C07': "C++ full decode of arbitrary / truncated / hostile bytes under -fsanitize=address,undefined: no read outside the buffer, false on malformed input, bounded allocation: nested dynamic structs in limited arrays, unions of structs with optionals, greedy arrays of dynamic structs, both endiannesses, decode(void*, size) with size 0 / 1",
    'C08': "the raw C++ structs prophyc generates (--cpp_out): offsetof / sizeof / alignof of every member and part struct vs the wire layout of docs/encoding.rst and vs the Python encoding: multi-block structs, optionals of every alignment, unions, limited arrays, nested dynamic structs, typedef chains, enums, includes, isar and patched input, constants in sizes",
    'C09': "prophy::swap of the raw C++ structs on every layout (multi-block, counters shared by arrays, counters in earlier parts, optional, union, limited arrays of composites, greedy, nested dynamic structs in arrays): every scalar converted exactly once, nothing outside the message touched, the returned end pointer, both directions (foreign->native)",
    'C10': "the Python message API (prophy/composite.py, container.py, generators.py): field assignment rules, array containers (every method: insert, remove, pop, sort, reverse, slice assignment / deletion, +=, *=, comparison, iteration while mutating), union discriminator / arm access, optional set / clear, error atomicity (a rejected operation leaves the message unchanged)",
    'C11': "copy_from / extend / add() / slice assignment sharing state between messages: unions inside arrays, optional unions, bytes fields (mutable bytearray values?), arrays of enums, copying from a decoded message, copying a message into its own sub-message or from its own sub-message, self copy",
    'C14': "constant expressions: prophyc's evaluator (prophyc/calc.py, parsers) vs the text emitted into Python and C++ (what the host compilers compute): unary minus chains, parentheses, shifts by large counts, mixed enumerators / constants from includes, values near 2^31 / 2^32 / 2^63 / 2^64, use as array size / discriminator / enumerator",
    'C15': "order of definitions in every output (dependency before use) and the topological sort: typedef chains, includes with own ordering, constants used in sizes of sizes, unions using enums as discriminators (by name), isar input in arbitrary order, patch operations that add dependencies (type / insert / dynamic with new sizer)",
    'C19': "byte order and padding in BOTH codecs (Python encode('<') / encode('>'), C++ encode<little> / encode<big> / native): the two encodings differ only by reversal inside each scalar; padding, unset optionals, unused union space, unused limited-array space are zero; also for floats, enums, discriminators, counters (shifted ones too), bytes fields, and for messages that were decoded from non-canonical bytes (non-zero padding) and re-encoded",
    'C20': "multi-file behaviour: includes (-I search order, relative / absolute / nested / diamond / repeated), several inputs on one command line, output file naming and overwriting, what a failing input leaves on disk, determinism across runs and across input order",
}

HEAD = ("You are auditing an open-source repository for violations of ONE stated semantic property. You have your own scratch git "
        "worktree of the repository at {wt} (project: aurzenligl/prophy - a tag-free binary serialization format with a Python runtime "
        "codec `prophy/` and `prophyc/`, an IDL compiler that computes layouts and generates Python/C++ codecs; C++ runtime headers under "
        "prophy_cpp/include; documentation under docs/, in particular docs/encoding.rst for the wire format). Work ONLY inside {wt} and "
        "scratch files under {wt}-scratch. Do NOT read or write anything under /verif or /repo, do not modify the repository sources "
        "(this is an audit of the code AS IT IS), do not use git commit / stash. No network. Python with all dependencies is "
        "/venv/bin/python (run it as `cd {wt} && PYTHONPATH={wt} /venv/bin/python ...`; prophyc is `/venv/bin/python -m prophyc`); g++ 12 "
        "and clang++ 14 are available (include path {wt}/prophy_cpp/include; `-fsanitize=address,undefined` works). The machine is shared "
        "with other jobs: measure CPU time, not wall-clock time, when you argue about speed.")

TASK = ("YOUR TASK: find concrete inputs (schemas, values, byte strings, operation sequences, file layouts, command lines, ...) on which "
        "the UNMODIFIED code VIOLATES this property. Think like a fuzzer with a brain: read the code that implements the property, look "
        "for unusual-but-legal combinations of features, boundary values, error paths, rarely used options, interactions between two "
        "features, hand-written Python descriptors using documented runtime features (prophy.array/bytes arguments, struct_packed is "
        "documented as undefined when mixed - ignore it), isar / patch inputs, multi-file inputs... and TRY them. Each candidate must be "
        "confirmed by actually running the real code. Writing a small random generator of schemas / values / byte strings and running "
        "it for a few minutes against an independent oracle you write from docs/encoding.rst is encouraged.")

EXTRA = ("This repository has ALREADY been audited {n} times for this property and about 176 defects were found (143 repaired, listed "
         "below); what remains is likely to sit in less obvious places: interactions of three features, rarely used options, resource "
         "behaviour (time, memory, recursion), platform details (optimisation levels, locales, Python 2/3 leftovers), documentation "
         "claims (docs/*.rst) that the code does not honour, and incomplete repairs (another spelling of a repaired input). "
         "SUGGESTED AREA for this round: {focus}.")

NOINTEREST = ("The sack front-end cannot run here (no libclang): do not investigate it. `python -OO`, relative imports of generated "
              "modules outside a package, unhashable message classes (copy.deepcopy / pickle), Python _SIZE of dynamic structs, quadratic "
              "get_byte_size text for hundreds of dynamic fields, and Typedef.kind staying FIXED are known and not of interest.")

DELIV = ("DELIVERABLES (write them under {wt}-scratch/): for EACH distinct violation you can demonstrate, a self-contained `demo_<k>.py` "
         "that takes the repository root as first argument (default {wt}), uses only that tree (sys.path.insert(0, root)), prints what "
         "goes wrong and exits non-zero when the violation occurs (0 if the property holds); plus `findings.json`: a list of {{\"title\", "
         "\"minimal_input\", \"observed\", \"expected\", \"why_it_violates_the_property\", \"suspected_cause (file:function)\", \"demo\"}}. "
         "Distinct = different root cause. Quality over quantity: a finding that is really the documented behaviour, or outside the "
         "property's quantifier, is noise - say so instead of reporting it.\n"
         "Finally reply with a short report: the findings (or, if you found none, what you tried and why you believe the property holds "
         "there), with the output of each demo.")


def main():
    rd, times, ids = sys.argv[1], sys.argv[2], sys.argv[3:]
    if os.environ.get('AUDIT_FOCUS'):
        FOCUS.update(json.load(open(os.environ['AUDIT_FOCUS'])))
    props = {}
    for line in open(os.path.join(VERIF, 'properties.jsonl')):
        p = json.loads(line)
        props[p['id']] = p
    kf = json.load(open(os.path.join(VERIF, 'known_findings.json')))['findings']
    opened, fixed, seen = [], [], set()
    for f in kf:
        if f['status'] == 'open':
            if (f['id'], f['text']) in seen:
                continue
            seen.add((f['id'], f['text']))
            t = f['text']
            t = t.split(' ', 2)[2] if t.startswith('KNOWN-FINDING') else t
            opened.append('  - [%s] %s%s' % (f['id'], t[:420], (' (e.g. %s)' % f['minimal_input'][:260]) if f.get('minimal_input') else ''))
        else:
            t = f['text'].split(' ', 3)[3] if f['text'].startswith('fixed:') else f['text']
            fixed.append('  - ' + t[:300])
    os.makedirs(os.path.join(rd, 'prompts'), exist_ok=True)
    for i in ids:
        p = props[i]
        wt = os.path.join(rd, i)
        out = [HEAD.format(wt=wt), '', 'THE PROPERTY the repository is supposed to satisfy:', '',
               '  %s - %s' % (i, p['title']), '  ' + p['statement'], '  Quantifier: ' + p['quantifier']['text'], '',
               TASK, '', EXTRA.format(n=times, focus=FOCUS.get(i, 'anything not listed below')), '',
               'ALREADY KNOWN deviations (recorded as open; do NOT report these again, and do not report mere variants of them):']
        out += opened
        out += ['', 'ALREADY REPAIRED in this tree (they should not reproduce; if one does, or a repair is incomplete for another '
                'spelling of the same input, that IS worth reporting):']
        out += fixed
        out += [NOINTEREST, '', DELIV.format(wt=wt), '']
        open(os.path.join(rd, 'prompts', i + '.txt'), 'w').write('\n'.join(out))
        print(i, len(out), 'lines')


if __name__ == '__main__':
    main()

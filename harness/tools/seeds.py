#!/venv/bin/python
"""run every quick check under several VERIF_SEED values; print the runs that are not clean (tools/seeds.py 1 2 3 ...)"""
import os
import subprocess
import sys
from concurrent.futures import ThreadPoolExecutor

PROPS = ['C%02d' % i for i in range(1, 21)]


def run(job):
    p, seed = job
    env = dict(os.environ, VERIF_SEED=str(seed))
    r = subprocess.run(['/venv/bin/python', 'harness/check.py', p, '--tier', 'quick'], cwd='/verif', env=env,
                       stdout=subprocess.PIPE, stderr=subprocess.STDOUT, timeout=3600)
    out = r.stdout.decode(errors='replace').strip().splitlines()
    return p, seed, r.returncode, [l for l in out if l.startswith('VIOLATION')][:2], out[-1] if out else ''


def main():
    seeds = [int(x) for x in sys.argv[1:]] or [1, 2, 3]
    jobs = [(p, s) for s in seeds for p in PROPS]
    bad = 0
    with ThreadPoolExecutor(max_workers=int(os.environ.get('JOBS', '4'))) as ex:
        for p, seed, rc, viol, last in ex.map(run, jobs):
            if rc != 0:
                bad += 1
                print('seed=%d %s rc=%d %s | %s' % (seed, p, rc, ' '.join(viol)[:200], last[:160]))
    print('%d runs, %d not clean' % (len(jobs), bad))


if __name__ == '__main__':
    main()

"""
T1 - table translator.  Reads declarative facts out of /repo's *current* sources (Python
via `ast`, C++ via a tolerant tokenizer) and writes lean/ProphyModel/Generated/*.lean.
The theorems of lean/ProphyModel/Properties/Tables.lean are re-checked against the
regenerated tables on every run.  Files are rewritten only when their content changes
(so an unchanged repo means a no-op `lake build`).

Only syntax that is recognised is read; when a table can no longer be located the
translator raises (the obligation is then reported broken, never skipped).
"""
import ast
import os
import re

REPO = os.environ.get('PROPHY_REPO', '/repo')
VERIF = os.path.dirname(os.path.dirname(os.path.abspath(__file__)))
OUT = os.path.join(VERIF, 'lean', 'ProphyModel', 'Generated')


class T1Error(Exception):
    pass


def _num(node):
    """evaluate a constant integer expression (literals, + - * << >> unary minus, parentheses)"""
    for n in ast.walk(node):
        if not isinstance(n, (ast.Expression, ast.BinOp, ast.UnaryOp, ast.Constant, ast.operator, ast.unaryop)):
            raise T1Error('not a constant expression: ' + ast.dump(node))
    return eval(compile(ast.Expression(node), '<t1>', 'eval'), {'__builtins__': {}})


def _parse(rel):
    path = os.path.join(REPO, rel)
    with open(path) as f:
        return ast.parse(f.read(), path)


def lean_int(i):
    return '(%d)' % i if i < 0 else str(i)


def lean_str(s):
    return '"%s"' % s.replace('\\', '\\\\').replace('"', '\\"')


def extract_py_scalars():
    tree = _parse('prophy/scalar.py')
    ints, floats = [], []
    for node in tree.body:
        if isinstance(node, ast.ClassDef):
            for d in node.decorator_list:
                if isinstance(d, ast.Call) and isinstance(d.func, ast.Name):
                    kw = {k.arg: k.value for k in d.keywords}
                    if d.func.id == 'int_decorator':
                        ints.append((node.name, _num(kw['size']), kw['id_'].value, _num(kw['min_']), _num(kw['max_'])))
                    elif d.func.id == 'float_decorator':
                        floats.append((node.name, _num(kw['size']), kw['id_'].value))
    if len(ints) < 1 or len(floats) < 1:
        raise T1Error('scalar decorators not found in prophy/scalar.py')
    # numeric_decorator: _ALIGNMENT = size
    src = open(os.path.join(REPO, 'prophy/scalar.py')).read()
    m = re.search(r'cls\._ALIGNMENT\s*=\s*(\w+)', src)
    if not m:
        raise T1Error('numeric_decorator _ALIGNMENT assignment not found')
    align_is_size = (m.group(1) == 'size')
    return ints, floats, align_is_size


def extract_py_guards():
    src = open(os.path.join(REPO, 'prophy/generators.py')).read()
    m = re.search(r'array_guard\s*=\s*(\d+)', src)
    if not m:
        raise T1Error('array_guard not found in prophy/generators.py')
    guard = int(m.group(1))
    m = re.search(r'cls\._discriminator_type\s*=\s*(\w+)', src)
    if not m:
        raise T1Error('union discriminator type not found')
    disc = m.group(1)
    # container_len._decode: is `value -= bound_shift` executed before the comparison with array_guard?
    body = re.search(r'def _decode\(data, pos, endianness\):(.*?)return value, size', src, re.S)
    if not body or 'value -= bound_shift' not in body.group(1) or 'value > array_guard' not in body.group(1):
        raise T1Error('container_len._decode: shift subtraction / guard comparison not found')
    global GUARD_AFTER_SHIFT
    GUARD_AFTER_SHIFT = body.group(1).index('value -= bound_shift') < body.group(1).index('value > array_guard')
    src = open(os.path.join(REPO, 'prophy/optional.py')).read()
    m = re.search(r'_optional\._optional_type\s*=\s*scalar\.(\w+)', src)
    if not m:
        raise T1Error('optional flag type not found')
    return guard, disc, m.group(1)


GUARD_AFTER_SHIFT = None


def extract_validation_ranges():
    """the numeric ranges of prophyc's legality checks: enumerators / discriminators (model.validate_values, the prophy parser),
    constants (p_constant_def, validate_values strict)"""
    msrc = open(os.path.join(REPO, 'prophyc/model.py')).read()
    psrc = open(os.path.join(REPO, 'prophyc/parsers/prophy.py')).read()
    out = {}
    m = re.search(r'def check\(what, owner, value, low=(\w+), high=(\w+)', msrc)
    if not m:
        raise T1Error('model.validate_values.check: default range not found')
    out['modelValueLow'], out['modelValueHigh'] = int(m.group(1), 0), int(m.group(2), 0)
    m = re.search(r'check\("value", "constant " \+ node\.name, node\.value, -\(1 << (\d+)\), \(1 << (\d+)\) - 1', msrc)
    if not m:
        raise T1Error('model.validate_values: constant range not found')
    out['modelConstLowBits'], out['modelConstHighBits'] = int(m.group(1)), int(m.group(2))
    m = re.search(r'-\(1 << (\d+)\) <= t\[4\] < \(1 << (\d+)\)', psrc)
    if not m:
        raise T1Error('p_constant_def: constant range not found')
    out['parserConstLowBits'], out['parserConstHighBits'] = int(m.group(1)), int(m.group(2))
    ms = re.findall(r'0 <= t\[\d\] <= (0x[0-9A-Fa-f]+)', psrc)
    if len(ms) < 2:
        raise T1Error('parser enumerator / discriminator ranges not found')
    out['parserValueHighs'] = sorted(set(int(x, 16) for x in ms))
    m = re.search(r'byte_size >= \(1 << (\d+)\)', msrc)
    if not m:
        raise T1Error('model.validate_sizes bound not found')
    out['modelSizeBits'] = int(m.group(1))
    return out


def extract_prophyc_sizes():
    tree = _parse('prophyc/model.py')
    sizes, disc, enum, kinds = None, None, None, {}
    for node in tree.body:
        if isinstance(node, ast.Assign) and len(node.targets) == 1 and isinstance(node.targets[0], ast.Name):
            name = node.targets[0].id
            if name == 'BUILTIN_SIZES':
                sizes = [(k.value, _num(v)) for k, v in zip(node.value.keys, node.value.values)]
            elif name in ('DISC_SIZE', 'ENUM_SIZE'):
                v = node.value
                if isinstance(v, ast.Subscript) and isinstance(v.value, ast.Name) and v.value.id == 'BUILTIN_SIZES':
                    key = v.slice.value if isinstance(v.slice, ast.Constant) else v.slice.value.value
                    val = dict(sizes)[key]
                else:
                    val = _num(v)
                if name == 'DISC_SIZE':
                    disc = val
                else:
                    enum = val
        if isinstance(node, ast.ClassDef) and node.name == 'Kind':
            for st in node.body:
                if isinstance(st, ast.Assign):
                    kinds[st.targets[0].id] = _num(st.value)
    if sizes is None or disc is None or enum is None or len(kinds) != 3:
        raise T1Error('BUILTIN_SIZES / DISC_SIZE / ENUM_SIZE / Kind not found in prophyc/model.py')
    return sizes, disc, enum, kinds


def extract_precedence(rel, cls_name):
    tree = _parse(rel)
    for node in tree.body:
        if isinstance(node, ast.ClassDef) and node.name == cls_name:
            prec, literals = None, None
            for st in node.body:
                if isinstance(st, ast.Assign) and isinstance(st.targets[0], ast.Name):
                    if st.targets[0].id == 'precedence':
                        prec = [(row.elts[0].value, [e.value for e in row.elts[1:]]) for row in st.value.elts]
                    if st.targets[0].id == 'literals':
                        literals = [e.value for e in st.value.elts]
            if prec is None or literals is None:
                raise T1Error('precedence / literals not found in %s class %s' % (rel, cls_name))
            return prec, literals
    raise T1Error('class %s not found in %s' % (cls_name, rel))


def extract_operator_semantics(rel, func_names):
    """which Python operator each branch `op == '<sym>'` of the binop action applies"""
    tree = _parse(rel)
    out = []
    ops = {ast.Add: 'add', ast.Sub: 'sub', ast.Mult: 'mul', ast.Div: 'truediv', ast.FloorDiv: 'floordiv',
           ast.LShift: 'lshift', ast.RShift: 'rshift', ast.BitOr: 'or'}
    for fn in ast.walk(tree):
        if isinstance(fn, ast.FunctionDef) and fn.name in func_names:
            for node in ast.walk(fn):
                if isinstance(node, ast.If) and isinstance(node.test, ast.Compare) and len(node.test.comparators) == 1 \
                        and isinstance(node.test.comparators[0], ast.Constant) and isinstance(node.test.comparators[0].value, str):
                    sym = node.test.comparators[0].value
                    for sub in ast.walk(ast.Module(body=node.body, type_ignores=[])):
                        if isinstance(sub, ast.BinOp) and type(sub.op) in ops:
                            out.append((sym, ops[type(sub.op)]))
                            break
    if not out:
        raise T1Error('binop branches not found in %s' % rel)
    return sorted(set(out))


def extract_cpp_print_byte():
    """printer.hpp print_byte: the `case N: out << "..."` escapes of the switch and the `(x >= lo) && (x <= hi)` range of
    bytes printed as themselves; everything else is printed as \\xNN"""
    path = os.path.join(REPO, 'prophy_cpp', 'include', 'prophy', 'detail', 'printer.hpp')
    src = open(path).read()
    m = re.search(r'inline\s+void\s+print_byte\s*\([^)]*\)\s*\{(.*?)\n\}', src, re.S)
    if not m:
        raise T1Error('print_byte not found in printer.hpp')
    body = m.group(1)
    cases = re.findall(r'case\s+(\d+)\s*:\s*out\s*<<\s*"((?:[^"\\]|\\.)*)"\s*;\s*return\s*;', body)
    if not cases:
        raise T1Error('no escape cases found in print_byte')
    if len(re.findall(r'\bcase\b', body)) != len(cases):
        raise T1Error('unrecognised case label in print_byte')
    rng = re.search(r'if\s*\(\s*\(\s*x\s*>=\s*(\d+)\s*\)\s*&&\s*\(\s*x\s*<=\s*(\d+)\s*\)\s*\)', body)
    if not rng:
        raise T1Error('printable range not found in print_byte')
    if '"\\\\x"' not in body or 'std::hex' not in body or 'width(2)' not in body:
        raise T1Error('hex escape of print_byte not recognised')

    def unescape(cstr):
        return cstr.encode('latin-1').decode('unicode_escape')
    return [(int(n), unescape(t)) for n, t in cases], int(rng.group(1)), int(rng.group(2))


def extract_texts():
    """regular expressions and name lists the model mirrors: the text prophyc refuses to paste, the include depth limit,
    the names reserved for the generated C++"""
    import ast as _ast
    out = {}
    msrc = open(os.path.join(REPO, 'prophyc/model.py')).read()
    m = re.search(r'^UNWRITABLE_TEXT = (r?"[^"\n]*")', msrc, re.M)
    if not m:
        raise T1Error('model.UNWRITABLE_TEXT not found')
    out['unwritable'] = _ast.literal_eval(m.group(1))
    fsrc = open(os.path.join(REPO, 'prophyc/file_processor.py')).read()
    m = re.search(r'^INCLUDE_DEPTH_LIMIT = (\d+)', fsrc, re.M)
    if not m:
        raise T1Error('file_processor.INCLUDE_DEPTH_LIMIT not found')
    out['depth'] = int(m.group(1))
    bsrc = open(os.path.join(REPO, 'prophyc/generators/base.py')).read()
    m = re.search(r'^CPP_RUNTIME_NAMES = frozenset\(\n(.*?)\n\)', bsrc, re.M | re.S)
    if not m:
        raise T1Error('generators.base.CPP_RUNTIME_NAMES not found')
    out['runtime_names'] = sorted(eval('frozenset(' + m.group(1) + ')', {'frozenset': frozenset}))   # noqa: S307 (a literal expression of the source)
    csrc = open(os.path.join(REPO, 'prophyc/generators/cpp.py')).read()
    for key, name in (('full_runtime_names', 'CPP_FULL_RUNTIME_NAMES'), ('full_member_names', 'CPP_FULL_MEMBER_NAMES'), ('raw_runtime_names', 'CPP_RAW_RUNTIME_NAMES')):
        m = re.search(r'^%s = frozenset\((\[.*?\])\)' % name, bsrc, re.M | re.S)
        if not m:
            raise T1Error('generators.base.%s not found' % name)
        out[key] = sorted(_ast.literal_eval(m.group(1)))
    m = re.search(r'check_cpp_names\(nodes, generated=(r"[^"]*")[,)]', csrc)
    if not m:
        raise T1Error('CppGenerator.check_nodes: pattern of generated names not found')
    out['generated'] = _ast.literal_eval(m.group(1))
    return out


def write_if_changed(name, text):
    os.makedirs(OUT, exist_ok=True)
    path = os.path.join(OUT, name)
    old = open(path).read() if os.path.exists(path) else None
    if old != text:
        with open(path, 'w') as f:
            f.write(text)
        return True
    return False


def regenerate():
    changed = []
    ints, floats, align_is_size = extract_py_scalars()
    guard, disc, flag = extract_py_guards()
    text = '''/- GENERATED by harness/t1_extract.py from prophy/scalar.py, prophy/generators.py, prophy/optional.py.  Do not edit. -/
namespace Prophy.Generated

/-- (class name, size, struct format char, min, max) of every `@int_decorator` class -/
def pyInts : List (String × Nat × String × Int × Int) := [
%s]

/-- (class name, size, struct format char) of every `@float_decorator` class -/
def pyFloats : List (String × Nat × String) := [
%s]

/-- numeric_decorator sets `_ALIGNMENT = size` -/
def pyAlignIsSize : Bool := %s

/-- `array_guard` of container_len._decode -/
def pyArrayGuard : Nat := %d

/-- container_len._decode subtracts the bound shift before it compares with the guard -/
def pyGuardAfterShift : Bool := %s

/-- union `_discriminator_type` and optional `_optional_type` -/
def pyDiscType : String := %s
def pyFlagType : String := %s

end Prophy.Generated
''' % (',\n'.join('  (%s, %d, %s, %s, %s)' % (lean_str(n), s, lean_str(c), lean_int(lo), lean_int(hi)) for n, s, c, lo, hi in ints),
       ',\n'.join('  (%s, %d, %s)' % (lean_str(n), s, lean_str(c)) for n, s, c in floats),
       'true' if align_is_size else 'false', guard, 'true' if GUARD_AFTER_SHIFT else 'false', lean_str(disc), lean_str(flag))
    if write_if_changed('PyScalars.lean', text):
        changed.append('PyScalars.lean')

    rng = extract_validation_ranges()
    text = '''/- GENERATED by harness/t1_extract.py from prophyc/model.py and prophyc/parsers/prophy.py.  Do not edit. -/
namespace Prophy.Generated

/-- model.validate_values: range of enumerators and discriminators -/
def modelValueLow : Int := %s
def modelValueHigh : Int := %s
/-- model.validate_values (strict): constants lie in [-2^low, 2^high - 1] -/
def modelConstLowBits : Nat := %d
def modelConstHighBits : Nat := %d
/-- p_constant_def: -(1 << low) <= value < (1 << high) -/
def parserConstLowBits : Nat := %d
def parserConstHighBits : Nat := %d
/-- the upper bounds `0 <= value <= ...` of p_enum_member and p_union_member -/
def parserValueHighs : List Nat := [%s]
/-- model.validate_sizes: a type of 2^bits bytes or more is refused -/
def modelSizeBits : Nat := %d

end Prophy.Generated
''' % (lean_int(rng['modelValueLow']), lean_int(rng['modelValueHigh']), rng['modelConstLowBits'], rng['modelConstHighBits'],
       rng['parserConstLowBits'], rng['parserConstHighBits'], ', '.join(str(x) for x in rng['parserValueHighs']), rng['modelSizeBits'])
    if write_if_changed('Ranges.lean', text):
        changed.append('Ranges.lean')

    sizes, dsize, esize, kinds = extract_prophyc_sizes()
    text = '''/- GENERATED by harness/t1_extract.py from prophyc/model.py.  Do not edit. -/
namespace Prophy.Generated

/-- `BUILTIN_SIZES` -/
def builtinSizes : List (String × Nat) := [
%s]

def discSize : Nat := %d
def enumSize : Nat := %d
def kindFixed : Nat := %d
def kindDynamic : Nat := %d
def kindUnlimited : Nat := %d

end Prophy.Generated
''' % (',\n'.join('  (%s, %d)' % (lean_str(k), v) for k, v in sizes), dsize, esize,
       kinds['FIXED'], kinds['DYNAMIC'], kinds['UNLIMITED'])
    if write_if_changed('ProphycSizes.lean', text):
        changed.append('ProphycSizes.lean')
    pp, pl = extract_precedence('prophyc/parsers/prophy.py', 'Parser')
    cp, cl = extract_precedence('prophyc/calc.py', 'Calc')
    psem = extract_operator_semantics('prophyc/parsers/prophy.py', ['p_expression_binop'])
    csem = extract_operator_semantics('prophyc/calc.py', ['p_expression_binop', '_binop'])

    def prec_lean(rows):
        return '[' + ', '.join('(%s, [%s])' % (lean_str(a), ', '.join(lean_str(t) for t in toks)) for a, toks in rows) + ']'

    def pairs_lean(rows):
        return '[' + ', '.join('(%s, %s)' % (lean_str(a), lean_str(b)) for a, b in rows) + ']'

    text = '''/- GENERATED by harness/t1_extract.py from prophyc/parsers/prophy.py and prophyc/calc.py.  Do not edit. -/
namespace Prophy.Generated

/-- yacc `precedence` tables, lowest level first: (associativity, tokens) -/
def prophyPrecedence : List (String × List String) := %s
def calcPrecedence : List (String × List String) := %s

/-- lexer `literals` -/
def prophyLiterals : List String := [%s]
def calcLiterals : List String := [%s]

/-- (operator symbol, Python operator applied by the binop action) -/
def prophyBinops : List (String × String) := %s
def calcBinops : List (String × String) := %s

end Prophy.Generated
''' % (prec_lean(pp), prec_lean(cp), ', '.join(lean_str(x) for x in pl), ', '.join(lean_str(x) for x in cl),
       pairs_lean(psem), pairs_lean(csem))
    if write_if_changed('Precedence.lean', text):
        changed.append('Precedence.lean')
    escapes, lo, hi = extract_cpp_print_byte()
    text = '''/- GENERATED by harness/t1_extract.py from prophy_cpp/include/prophy/detail/printer.hpp (print_byte).  Do not edit. -/
namespace Prophy.Generated

/-- the `case N: out << "..."` escapes of print_byte -/
def cppByteEscapes : List (Nat × String) := [%s]

/-- bytes `lo ≤ x ≤ hi` are printed as themselves; all others as `\\\\xNN` -/
def cppPrintableLo : Nat := %d
def cppPrintableHi : Nat := %d

end Prophy.Generated
''' % (', '.join('(%d, %s)' % (n, lean_str(t)) for n, t in escapes), lo, hi)
    if write_if_changed('CppPrinter.lean', text):
        changed.append('CppPrinter.lean')
    texts = extract_texts()
    text = '''/- GENERATED by harness/t1_extract.py from prophyc/model.py, prophyc/file_processor.py, prophyc/generators/base.py and cpp.py.  Do not edit. -/
namespace Prophy.Generated

/-- model.UNWRITABLE_TEXT: expression text matching it is refused instead of being pasted into the generated code -/
def unwritableRegex : String := %s
/-- file_processor.INCLUDE_DEPTH_LIMIT -/
def includeDepthLimit : Nat := %d
/-- generators.base.CPP_RUNTIME_NAMES (sorted) -/
def cppRuntimeNames : List String := [%s]
/-- the names the raw C++ generator invents inside the classes it writes (CppGenerator.check_nodes) -/
def cppRawGeneratedNames : String := %s
/-- generators.base.CPP_FULL_RUNTIME_NAMES (sorted): more names the full codec's sources use unqualified -/
def cppFullRuntimeNames : List String := [%s]
/-- generators.base.CPP_FULL_MEMBER_NAMES (sorted) -/
def cppFullMemberNames : List String := [%s]
/-- generators.base.CPP_RAW_RUNTIME_NAMES (sorted) -/
def cppRawRuntimeNames : List String := [%s]

end Prophy.Generated
''' % (lean_str(texts['unwritable']), texts['depth'], ', '.join(lean_str(n) for n in texts['runtime_names']), lean_str(texts['generated']),
       ', '.join(lean_str(n) for n in texts['full_runtime_names']), ', '.join(lean_str(n) for n in texts['full_member_names']),
       ', '.join(lean_str(n) for n in texts['raw_runtime_names']))
    if write_if_changed('Texts.lean', text):
        changed.append('Texts.lean')
    return {'changed': changed, 'tables': ['PyScalars', 'ProphycSizes', 'Precedence', 'CppPrinter', 'Ranges', 'Texts']}


if __name__ == '__main__':
    print(regenerate())

#!/venv/bin/python
"""MANIFEST.setup_cmd: regenerate the T1 tables and build the Lean library + driver from files on disk."""
import os
import subprocess
import sys

HERE = os.path.dirname(os.path.abspath(__file__))
sys.path.insert(0, HERE)
import t1_extract  # noqa: E402

try:
    print(t1_extract.regenerate())
except Exception as e:  # the checks report this themselves
    print('T1 failed: %s' % e)
rc = subprocess.call(['lake', 'build'], cwd=os.path.join(os.path.dirname(HERE), 'lean'))
sys.exit(rc)

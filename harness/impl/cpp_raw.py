"""
Runs the real C++ *raw* codec of /repo: `prophyc --cpp_out` (real prophyc, in-process) produces
`<base>.pp.hpp` (packed/aligned structs overlaying the wire format) and `<base>.pp.cpp`
(`prophy::swap` endianness swappers).  Two small generated programs are compiled with g++
against the real headers in REPO/prophy_cpp/include:

  layout   prints sizeof/alignof/offsetof of everything *declared in the generated header*
           (member names are parsed from the .pp.hpp text, never derived from the schema)
  swapdrv  line-oriented request/answer driver around `prophy::swap<T>`, run under ASan/UBSan

API:
    b = RawBatch(schema_text, ['T', ...], base='s0', sanitize=True)
    b.build()                  # BuildError(log, stage) ; stage in {'prophyc','parse','compile'}
    b.generated                # {'s0.pp.hpp': text, 's0.pp.cpp': text}
    b.build_seconds, b.cache_hit, b.key, b.dir, b.compile_log (g++ warnings of the successful build)
    b.layout()                 # {T: {sizeof, alignof, kind, members:[...], parts:[...]}}
    b.swap([{type,data,tail}]) # [{data,tail,ret,sentinels_intact} | {fault,...} | {error}]
    b.close()
    build_many(batches, jobs=16) -> [(batch, error_or_None)]

Stage 'parse' (not produced by /repo code) means this module could not understand the generated
header or a requested type is not declared in it: treat it as an infrastructure problem.

Builds are cached under /verif/.cache/cppraw/<sha256>; the key covers the generated sources, the
driver sources, the compiler version and flags and every header under REPO/prophy_cpp/include/prophy.
"""
import contextlib
import hashlib
import io
import json
import os
import re
import select
import shutil
import signal
import subprocess
import sys
import tempfile
import threading
import time
import traceback
from concurrent.futures import ThreadPoolExecutor

REPO = os.environ.get('PROPHY_REPO', '/repo')
if REPO not in sys.path[:1]:
    sys.path.insert(0, REPO)

assert sys.byteorder == 'little', 'cpp_raw: the swap driver assumes a little-endian host'

VERIF = os.path.dirname(os.path.dirname(os.path.dirname(os.path.abspath(__file__))))
CACHE = os.path.join(VERIF, '.cache', 'cppraw')
INCLUDE = os.path.join(REPO, 'prophy_cpp', 'include')
CXX = os.environ.get('CXX', 'g++')

BASE_FLAGS = ['-std=c++11', '-O1', '-g']
SAN_FLAGS = ['-fsanitize=address,undefined', '-fno-sanitize=enum', '-fno-sanitize-recover=all']
WARN_FLAGS = ['-Wno-invalid-offsetof']
MAX_LOG_LINES = 60
SENTINEL = 32
REQUEST_TIMEOUT = 30.0


class BuildError(Exception):
    def __init__(self, log, stage):
        Exception.__init__(self, '%s stage failed:\n%s' % (stage, log))
        self.log = log
        self.stage = stage


# ---------------------------------------------------------------------------------------------
# real prophyc
# ---------------------------------------------------------------------------------------------

_prophyc_lock = threading.Lock()


def run_prophyc_cpp(schema_text, base, patch_text=None):
    """runs the real prophyc (in-process); returns {filename: text}; raises BuildError('prophyc')"""
    import prophyc
    assert os.path.realpath(prophyc.__file__).startswith(os.path.realpath(REPO)), prophyc.__file__
    tmp = tempfile.mkdtemp(prefix='cppraw-gen-')
    try:
        src = os.path.join(tmp, base + '.prophy')
        with open(src, 'w') as f:
            f.write(schema_text)
        err, out = io.StringIO(), io.StringIO()
        with _prophyc_lock:
            try:
                with contextlib.redirect_stderr(err), contextlib.redirect_stdout(out):
                    args = ['--cpp_out', tmp]
                    if patch_text:
                        with open(os.path.join(tmp, base + '.patch'), 'w') as f:
                            f.write(patch_text)
                        args += ['--patch', os.path.join(tmp, base + '.patch')]
                    prophyc.main(args + [src])
            except BaseException as e:  # ProphycError, GenerateError, SystemExit, crashes of prophyc itself
                if isinstance(e, KeyboardInterrupt):
                    raise
                log = err.getvalue() + '%s: %s\n' % (type(e).__name__, e)
                if not type(e).__name__ in ('ProphycError', 'GenerateError', 'ParseError'):
                    log += ''.join(traceback.format_exception(type(e), e, e.__traceback__)[-6:])
                raise BuildError(log.replace(tmp + os.sep, ''), 'prophyc')
        generated = {}
        for ext in ('.pp.hpp', '.pp.cpp'):
            path = os.path.join(tmp, base + ext)
            if not os.path.exists(path):
                raise BuildError('prophyc did not write %s%s\n%s' % (base, ext, err.getvalue()), 'prophyc')
            with open(path) as f:
                generated[base + ext] = f.read()
        return generated
    finally:
        shutil.rmtree(tmp, ignore_errors=True)


# ---------------------------------------------------------------------------------------------
# parser of the generated .pp.hpp (see STRUCT_DEF_TEMPLATE & co. in prophyc/generators/cpp.py)
# ---------------------------------------------------------------------------------------------

_RE_TOP_STRUCT = re.compile(r'^PROPHY_STRUCT\((\d+)\) (\w+)$')
_RE_TOP_ENUM = re.compile(r'^enum (\w+)$')
_RE_PART = re.compile(r'^    PROPHY_STRUCT\((\d+)\) part(\d+)$')
_RE_PART_END = re.compile(r'^    \} _(\d+);$')
_RE_MEMBER = re.compile(r'^\s+([A-Za-z_][\w:]*) (\w+)(\[[^\]]*\])?;(\s*///.*)?$')


def parse_header(text):
    """-> {name: {'name','kind','align_decl','members':[m],'parts':[{'index','align_decl','members':[m]}]}}
    m = {'name','decl','role'}; role in plain|array|has|padding|discriminator|arm.  Enums: kind 'enum'."""
    types = {}
    cur = None
    target = None
    state = 'top'
    for lineno, raw in enumerate(text.split('\n'), 1):
        line = raw.rstrip()

        def bad():
            raise BuildError('cannot parse generated header, line %d (state %s): %r' % (lineno, state, line), 'parse')

        if state == 'top':
            m = _RE_TOP_STRUCT.match(line)
            if m:
                cur = {'name': m.group(2), 'kind': 'struct', 'align_decl': int(m.group(1)), 'members': [], 'parts': []}
                target = cur['members']
                state = 'main'
                continue
            m = _RE_TOP_ENUM.match(line)
            if m:
                types[m.group(1)] = {'name': m.group(1), 'kind': 'enum', 'align_decl': None, 'members': [], 'parts': []}
                state = 'topenum'
            elif line.startswith('PROPHY_STRUCT'):
                bad()
            continue
        if state == 'topenum':
            if line == '};':
                state = 'top'
            continue
        if state == 'disc':
            if line == '    } discriminator;':
                cur['members'].append({'name': 'discriminator', 'decl': 'enum _discriminator discriminator',
                                       'role': 'discriminator'})
                state = 'main'
            continue
        if not line or line.strip() == '{':
            continue
        if state == 'main':
            if line == '};':
                types[cur['name']] = cur
                cur, state = None, 'top'
                continue
            m = _RE_PART.match(line)
            if m:
                part = {'index': int(m.group(2)), 'align_decl': int(m.group(1)), 'members': []}
                cur['parts'].append(part)
                target = part['members']
                state = 'part'
                continue
            if line == '    enum _discriminator':
                cur['kind'] = 'union'
                state = 'disc'
                continue
            if line == '    union':
                state = 'arms'
                continue
        elif state == 'part':
            m = _RE_PART_END.match(line)
            if m:
                if int(m.group(1)) != cur['parts'][-1]['index']:
                    bad()
                target = cur['members']
                state = 'main'
                continue
        elif state == 'arms':
            if line == '    };':
                state = 'main'
                continue
        m = _RE_MEMBER.match(line)
        if not m:
            bad()
        type_, name, arr = m.group(1), m.group(2), m.group(3) or ''
        if state == 'arms':
            role = 'arm'
        elif arr:
            role = 'array'
        elif name.startswith('_padding') and 'manual padding' in (m.group(4) or ''):
            role = 'padding'
        elif name.startswith('has_') and type_ == 'prophy::bool_t':
            role = 'has'
        else:
            role = 'plain'
        target.append({'name': name, 'decl': '%s %s%s' % (type_, name, arr), 'role': role})
    if state != 'top':
        raise BuildError('cannot parse generated header: unterminated definition (state %s)' % state, 'parse')
    return types


# ---------------------------------------------------------------------------------------------
# generated programs
# ---------------------------------------------------------------------------------------------

LAYOUT_PROLOGUE = r'''// generated by harness/impl/cpp_raw.py: layout probe
#include <stdio.h>
#include <stddef.h>
#include "%(base)s.pp.hpp"

#define MEMBER(T, m) member(#m, (unsigned long)offsetof(T, m), (unsigned long)sizeof(((T*)0)->m))

static int first_member;
static void member(const char* name, unsigned long off, unsigned long size)
{
    printf("%%s{\"name\":\"%%s\",\"offset\":%%lu,\"sizeof\":%%lu}", first_member ? "" : ",", name, off, size);
    first_member = 0;
}

int main()
{
    printf("{");
'''


def gen_layout_cpp(base, parsed, type_names):
    out = [LAYOUT_PROLOGUE % {'base': base}]
    w = out.append
    for i, tn in enumerate(type_names):
        t = parsed[tn]
        w('    printf("%s\\"%s\\":{\\"sizeof\\":%%lu,\\"alignof\\":%%lu,\\"members\\":[", '
          '(unsigned long)sizeof(%s), (unsigned long)__alignof__(%s));\n' % (',' if i else '', tn, tn, tn))
        w('    first_member = 1;\n')
        for m in t['members']:
            w('    MEMBER(%s, %s);\n' % (tn, m['name']))
        w('    printf("],\\"parts\\":[");\n')
        for j, p in enumerate(t['parts']):
            pt = '%s::part%d' % (tn, p['index'])
            w('    printf("%s{\\"index\\":%d,\\"offset_in_struct\\":%%lu,\\"sizeof\\":%%lu,\\"alignof\\":%%lu,'
              '\\"members\\":[", (unsigned long)offsetof(%s, _%d), (unsigned long)sizeof(%s), '
              '(unsigned long)__alignof__(%s));\n' % (',' if j else '', p['index'], tn, p['index'], pt, pt))
            w('    first_member = 1;\n')
            for m in p['members']:
                w('    MEMBER(%s, %s);\n' % (pt, m['name']))
            w('    printf("]}");\n')
        w('    printf("]}");\n')
    w('    printf("}\\n");\n    return 0;\n}\n')
    return ''.join(out)


SWAP_PROLOGUE = r'''// generated by harness/impl/cpp_raw.py: swap driver
// request line:  <type> <hex data | -> <hex tail | ->      answer: one JSON line
// (plain C stdio on purpose: <iostream>/<string> triple the compile time under the sanitizers)
#include <stdio.h>
#include <stdlib.h>
#include <string.h>
#include <stdint.h>
#include <sys/types.h>
#include <prophy/prophy.hpp>
#include "%(base)s.pp.hpp"

enum { SENTINEL = %(sentinel)d };

static int hexval(char c)
{
    if (c >= '0' && c <= '9') return c - '0';
    if (c >= 'a' && c <= 'f') return c - 'a' + 10;
    if (c >= 'A' && c <= 'F') return c - 'A' + 10;
    return -1;
}

// length in bytes of the hex word s ("-" = empty), -1 when malformed
static long hexlen(const char* s)
{
    size_t n = strlen(s);
    if (n == 1 && s[0] == '-') return 0;
    if (n %% 2) return -1;
    for (size_t i = 0; i < n; ++i)
    {
        if (hexval(s[i]) < 0) return -1;
    }
    return long(n / 2);
}

static void unhex(const char* s, uint8_t* out, size_t n)
{
    for (size_t i = 0; i < n; ++i)
    {
        out[i] = uint8_t(hexval(s[2 * i]) * 16 + hexval(s[2 * i + 1]));
    }
}

static void puthex(const uint8_t* p, size_t n)
{
    static const char digits[] = "0123456789abcdef";
    for (size_t i = 0; i < n; ++i)
    {
        putc_unlocked(digits[p[i] >> 4], stdout);
        putc_unlocked(digits[p[i] & 15], stdout);
    }
}

template <class T>
static long run(uint8_t* msg)
{
    T* end = prophy::swap(reinterpret_cast<T*>(msg));
    return static_cast<long>(reinterpret_cast<uint8_t*>(end) - msg);
}

static bool dispatch(const char* type, uint8_t* msg, long& ret)
{
'''

SWAP_EPILOGUE = r'''    return false;
}

static void answer(const char* text)
{
    fputs(text, stdout);
    fflush(stdout);
}

int main()
{
    const uint16_t probe = 1;
    if (*reinterpret_cast<const uint8_t*>(&probe) != 1)
    {
        fprintf(stderr, "cpp_raw swap driver: host is not little-endian\n");
        return 3;
    }
    answer("{\"ready\":true}\n");
    char* line = 0;
    size_t cap = 0;
    ssize_t len;
    while ((len = getline(&line, &cap, stdin)) > 0)
    {
        if (line[len - 1] == '\n') line[--len] = 0;
        char* type = line;
        char* data = strchr(line, ' ');
        char* tail = data ? strchr(data + 1, ' ') : 0;
        if (!tail)
        {
            answer("{\"error\":\"malformed request\"}\n");
            continue;
        }
        *data++ = 0;
        *tail++ = 0;
        long n = hexlen(data), t = hexlen(tail);
        if (n < 0 || t < 0)
        {
            answer("{\"error\":\"malformed request\"}\n");
            continue;
        }
        void* mem = 0;
        if (posix_memalign(&mem, 16, SENTINEL + n + t + SENTINEL) != 0)
        {
            answer("{\"error\":\"posix_memalign failed\"}\n");
            continue;
        }
        uint8_t* block = static_cast<uint8_t*>(mem);
        uint8_t* msg = block + SENTINEL;   // SENTINEL is a multiple of 16: msg is 16-byte aligned
        for (long i = 0; i < SENTINEL; ++i) block[i] = uint8_t(i * 37 + 11);
        unhex(data, msg, n);
        unhex(tail, msg + n, t);
        for (long i = 0; i < SENTINEL; ++i) msg[n + t + i] = uint8_t(i * 37 + 11);
        long ret = 0;
        if (!dispatch(type, msg, ret))
        {
            answer("{\"error\":\"unknown type\"}\n");
            free(mem);
            continue;
        }
        bool intact = true;
        for (long i = 0; i < SENTINEL; ++i)
        {
            if (block[i] != uint8_t(i * 37 + 11) || msg[n + t + i] != uint8_t(i * 37 + 11)) intact = false;
        }
        fputs("{\"data\":\"", stdout);
        puthex(msg, n);
        fputs("\",\"tail\":\"", stdout);
        puthex(msg + n, t);
        fputs("\",\"post\":\"", stdout);
        puthex(msg + n + t, SENTINEL);
        printf("\",\"ret\":%ld,\"sentinels_intact\":%s}\n", ret, intact ? "true" : "false");
        fflush(stdout);
        free(mem);
    }
    free(line);
    return 0;
}
'''


def gen_swap_cpp(base, type_names):
    assert SENTINEL % 16 == 0
    out = [SWAP_PROLOGUE % {'base': base, 'sentinel': SENTINEL}]
    for tn in type_names:
        out.append('    if (strcmp(type, "%s") == 0) { ret = run< ::%s >(msg); return true; }\n' % (tn, tn))
    out.append(SWAP_EPILOGUE)
    return ''.join(out)


# ---------------------------------------------------------------------------------------------
# cache key ingredients
# ---------------------------------------------------------------------------------------------

_memo = {}
_memo_lock = threading.Lock()


def _headers_digest():
    with _memo_lock:
        if 'headers' not in _memo:
            h = hashlib.sha256()
            root = os.path.join(INCLUDE, 'prophy')
            for dirpath, dirnames, filenames in sorted(os.walk(root)):
                dirnames.sort()
                for fn in sorted(filenames):
                    path = os.path.join(dirpath, fn)
                    with open(path, 'rb') as f:
                        body = f.read()
                    h.update(('%s\0%d\0' % (os.path.relpath(path, root), len(body))).encode())
                    h.update(body)
            _memo['headers'] = h.hexdigest()
        return _memo['headers']


def _compiler_id():
    with _memo_lock:
        if 'cxx' not in _memo:
            try:
                _memo['cxx'] = subprocess.run([CXX, '--version'], stdout=subprocess.PIPE, stderr=subprocess.STDOUT,
                                              universal_newlines=True).stdout.split('\n')[0]
            except OSError as e:
                raise BuildError('cannot run %s: %s' % (CXX, e), 'compile')
        return _memo['cxx']


_key_locks = {}


def _key_lock(key):
    with _memo_lock:
        return _key_locks.setdefault(key, threading.Lock())


def _clip(text):
    lines = text.split('\n')
    if len(lines) > MAX_LOG_LINES:
        lines = lines[:MAX_LOG_LINES] + ['... (%d more lines)' % (len(lines) - MAX_LOG_LINES)]
    return '\n'.join(lines)


# ---------------------------------------------------------------------------------------------
# RawBatch
# ---------------------------------------------------------------------------------------------

class RawBatch(object):
    def __init__(self, schema_text, type_names, base='s0', sanitize=True, patch_text=None):
        """schema_text: prophy-language schema; type_names: struct/union (or enum) names to expose; patch_text: a --patch file"""
        self.schema_text = schema_text
        self.patch_text = patch_text
        self.type_names = list(type_names)
        self.base = base
        self.sanitize = sanitize
        self.generated = None       # {filename: text} as written by prophyc
        self.parsed = None          # parse_header() of the .pp.hpp
        self.sources = None         # generated + drivers
        self.key = None
        self.dir = None
        self.cache_hit = None
        self.build_seconds = None
        self.faults = 0             # number of driver crashes seen by swap()
        self.compile_log = None     # g++ output of a successful build (e.g. -Waddress-of-packed-member warnings)
        self._layout = None
        self._proc = None
        self._errfile = None
        self._buf = b''

    def __enter__(self):
        return self

    def __exit__(self, *a):
        self.close()

    # ---- build ----------------------------------------------------------------------------

    def flags(self, program):
        flags = list(BASE_FLAGS)
        if self.sanitize:
            flags += SAN_FLAGS
        if program == 'layout':
            flags += WARN_FLAGS
        return flags + ['-I' + INCLUDE]

    def _generate(self):
        t0 = time.time()
        self.generated = run_prophyc_cpp(self.schema_text, self.base, self.patch_text)
        self.parsed = parse_header(self.generated[self.base + '.pp.hpp'])
        missing = [t for t in self.type_names if t not in self.parsed]
        if missing:
            raise BuildError('types not declared in generated %s.pp.hpp: %s' % (self.base, ' '.join(missing)), 'parse')
        self.sources = dict(self.generated)
        self.sources['layout.cpp'] = gen_layout_cpp(self.base, self.parsed, self.type_names)
        self.sources['swapdrv.cpp'] = gen_swap_cpp(self.base, self.type_names)
        h = hashlib.sha256()
        for name in sorted(self.sources):
            body = self.sources[name].encode()
            h.update(('%s\0%d\0' % (name, len(body))).encode())
            h.update(body)
        h.update(json.dumps([_compiler_id(), self.flags('layout')[:-1], self.flags('swapdrv')[:-1],
                             _headers_digest()]).encode())
        self.key = h.hexdigest()
        self.dir = os.path.join(CACHE, self.key)
        self.build_seconds = time.time() - t0

    def _commands(self):
        return [
            [CXX] + self.flags('layout') + ['layout.cpp', '-o', 'layout'],
            [CXX] + self.flags('swapdrv') + ['swapdrv.cpp', self.base + '.pp.cpp', '-o', 'swapdrv'],
        ]

    def _compile(self):
        t0 = time.time()
        try:
            with _key_lock(self.key):
                self._compile_locked()
        finally:
            self.build_seconds += time.time() - t0

    def _compile_locked(self):
        ok = os.path.join(self.dir, 'OK')
        failed = os.path.join(self.dir, 'FAILED.json')
        if os.path.exists(ok):
            self.cache_hit = True
            with open(os.path.join(self.dir, 'build.log')) as f:
                self.compile_log = f.read()
            return
        if os.path.exists(failed):
            self.cache_hit = True
            with open(failed) as f:
                raise BuildError(json.load(f)['log'], 'compile')
        self.cache_hit = False
        os.makedirs(CACHE, exist_ok=True)
        tmp = tempfile.mkdtemp(prefix=self.key[:16] + '.tmp.', dir=CACHE)
        try:
            for name, body in self.sources.items():
                with open(os.path.join(tmp, name), 'w') as f:
                    f.write(body)
            error = None
            logs = []
            for cmd in self._commands():
                # relative file names + cwd: diagnostics and UBSan reports then say `s0.pp.cpp:12:5`
                r = subprocess.run(cmd, cwd=tmp, stdout=subprocess.PIPE, stderr=subprocess.STDOUT,
                                   universal_newlines=True, errors='replace')
                logs.append(r.stdout)
                if r.returncode != 0:
                    log = _clip('$ %s\n%s' % (' '.join(cmd), r.stdout))
                    error = BuildError(log, 'compile')
                    if r.returncode == 1:   # ordinary diagnostics (not a killed/oom compiler): deterministic
                        with open(os.path.join(tmp, 'FAILED.json'), 'w') as f:
                            json.dump({'log': log}, f)
                    break
            if error is None:
                self.compile_log = ''.join(logs)
                with open(os.path.join(tmp, 'build.log'), 'w') as f:
                    f.write(self.compile_log)
                with open(os.path.join(tmp, 'OK'), 'w') as f:
                    f.write('%s\n' % time.time())
            if error is None or os.path.exists(os.path.join(tmp, 'FAILED.json')):
                if os.path.isdir(self.dir):     # leftover of an interrupted/raced build without marker
                    if not (os.path.exists(ok) or os.path.exists(failed)):
                        shutil.rmtree(self.dir, ignore_errors=True)
                try:
                    os.rename(tmp, self.dir)
                except OSError:
                    if not (os.path.exists(ok) or os.path.exists(failed)):
                        raise
            if error is not None:
                raise error
        finally:
            shutil.rmtree(tmp, ignore_errors=True)

    def build(self):
        self._generate()
        self._compile()
        return self

    # ---- layout ---------------------------------------------------------------------------

    def layout(self):
        if self._layout is None:
            r = subprocess.run([os.path.join(self.dir, 'layout')], stdout=subprocess.PIPE, stderr=subprocess.PIPE,
                               universal_newlines=True, env=self._env())
            if r.returncode != 0:
                raise RuntimeError('layout probe failed (%d): %s' % (r.returncode, r.stderr[:2000]))
            res = json.loads(r.stdout)
            for tn, t in res.items():
                p = self.parsed[tn]
                t['kind'] = p['kind']
                t['align_decl'] = p['align_decl']
                self._annotate(t['members'], p['members'])
                assert len(t['parts']) == len(p['parts'])
                for part, pp in zip(t['parts'], p['parts']):
                    assert part['index'] == pp['index']
                    part['align_decl'] = pp['align_decl']
                    self._annotate(part['members'], pp['members'])
            self._layout = res
        return self._layout

    @staticmethod
    def _annotate(measured, declared):
        assert [m['name'] for m in measured] == [m['name'] for m in declared]
        for m, d in zip(measured, declared):
            m['decl'] = d['decl']
            m['role'] = d['role']

    # ---- swap -----------------------------------------------------------------------------

    def _env(self):
        env = dict(os.environ)
        env['ASAN_OPTIONS'] = 'detect_leaks=0:abort_on_error=0:symbolize=1:allocator_may_return_null=1'
        env['UBSAN_OPTIONS'] = 'print_stacktrace=0'
        return env

    def _start(self):
        self._errfile = tempfile.TemporaryFile(prefix='cppraw-stderr-')
        self._buf = b''
        self._proc = subprocess.Popen([os.path.join(self.dir, 'swapdrv')], stdin=subprocess.PIPE,
                                      stdout=subprocess.PIPE, stderr=self._errfile, env=self._env(), bufsize=0)
        hello = self._readline(REQUEST_TIMEOUT)
        if hello is None or json.loads(hello) != {'ready': True}:
            info = self._reap()
            raise RuntimeError('swap driver did not start: %r' % (info,))

    def _readline(self, timeout):
        """one line from the driver's stdout; None on EOF; 'timeout' (str) when the deadline passes"""
        fd = self._proc.stdout.fileno()
        deadline = time.time() + timeout
        while b'\n' not in self._buf:
            left = deadline - time.time()
            if left <= 0:
                return 'timeout'
            r, _, _ = select.select([fd], [], [], left)
            if not r:
                return 'timeout'
            chunk = os.read(fd, 1 << 16)
            if not chunk:
                return None
            self._buf += chunk
        line, self._buf = self._buf.split(b'\n', 1)
        return line.decode()

    def _reap(self, kill=False):
        """waits for the dead (or kills the hung) driver; returns a fault answer built from its stderr"""
        proc, self._proc = self._proc, None
        if kill:
            proc.kill()
        try:
            proc.stdin.close()
        except OSError:
            pass
        try:
            rc = proc.wait(timeout=30)
        except subprocess.TimeoutExpired:
            proc.kill()
            rc = proc.wait()
        proc.stdout.close()
        self._errfile.seek(0)
        report = self._errfile.read().decode(errors='replace')
        self._errfile.close()
        self._errfile = None
        lines = [l for l in report.split('\n') if l.strip()]
        first = None
        for l in lines:     # the report proper (ASan prints `AddressSanitizer:DEADLYSIGNAL` before it on SEGV)
            if re.search(r'ERROR: \w+Sanitizer|runtime error:', l):
                first = l
                break
        if first is None and lines:
            first = lines[0]
        if first is None:
            if rc is not None and rc < 0:
                try:
                    first = 'signal ' + signal.Signals(-rc).name
                except ValueError:
                    first = 'signal %d' % -rc
            else:
                first = 'exit %s without answer' % rc
        first = re.sub(r'^==\d+==\s*', '', first.strip())
        first = re.sub(r'0x[0-9a-fA-F]+', '0x?', first)
        return {'fault': first, 'exit': rc, 'report': '\n'.join(lines[:25])}

    def swap(self, requests):
        """requests: [{'type','data' (hex, foreign = big-endian byte order),'tail' (hex)}]"""
        answers = []
        for rq in requests:
            data = rq.get('data') or ''
            tail = rq.get('tail') or ''
            tn = rq['type']
            if not re.match(r'^\w+$', tn) or re.search(r'[^0-9a-fA-F]', data + tail) or len(data) % 2 or len(tail) % 2:
                answers.append({'error': 'malformed request'})
                continue
            if self._proc is None:
                self._start()
            line = ('%s %s %s\n' % (tn, data or '-', tail or '-')).encode()
            try:
                self._proc.stdin.write(line)
                self._proc.stdin.flush()
                ans = self._readline(REQUEST_TIMEOUT)
            except (BrokenPipeError, OSError):
                ans = None
            if ans is None:
                self.faults += 1
                answers.append(self._reap())
            elif ans == 'timeout':
                self.faults += 1
                a = self._reap(kill=True)
                a['fault'] = 'timeout after %gs' % REQUEST_TIMEOUT
                answers.append(a)
            else:
                answers.append(json.loads(ans))
        return answers

    def close(self):
        if self._proc is not None:
            try:
                self._proc.stdin.close()
            except OSError:
                pass
            try:
                self._proc.wait(timeout=5)
            except subprocess.TimeoutExpired:
                self._proc.kill()
                self._proc.wait()
            self._proc.stdout.close()
            self._proc = None
        if self._errfile is not None:
            self._errfile.close()
            self._errfile = None

    def __del__(self):
        try:
            self.close()
        except Exception:
            pass


def build_many(batches, jobs=16):
    """parallel builds; returns [(batch, error_or_None)] in the order of `batches`.
    prophyc runs in-process and serially (it is quick); the g++ runs go through a thread pool."""
    errors = [None] * len(batches)
    for i, b in enumerate(batches):
        try:
            b._generate()
        except BuildError as e:
            errors[i] = e

    def work(i):
        try:
            batches[i]._compile()
        except BuildError as e:
            errors[i] = e

    todo = [i for i in range(len(batches)) if errors[i] is None]
    if todo:
        with ThreadPoolExecutor(max_workers=max(1, min(jobs, len(todo)))) as pool:
            list(pool.map(work, todo))
    return list(zip(batches, errors))

"""
Runs the real implementation: prophyc from /repo (in-process, `prophyc.main`) and the
generated Python modules importing the real `prophy` runtime from /repo.
"""
import importlib.util
import io
import itertools
import os
import sys
import contextlib

REPO = os.environ.get('PROPHY_REPO', '/repo')
if sys.path[0] != REPO:
    sys.path.insert(0, REPO)

import prophy  # noqa: E402
import prophyc  # noqa: E402

assert os.path.realpath(prophy.__file__).startswith(os.path.realpath(REPO)), prophy.__file__
assert os.path.realpath(prophyc.__file__).startswith(os.path.realpath(REPO)), prophyc.__file__

_counter = itertools.count()


def run_prophyc(args):
    """prophyc.main(args) with stderr/stdout captured; returns (nodes_by_basename, stderr_text)"""
    err, out = io.StringIO(), io.StringIO()
    with contextlib.redirect_stderr(err), contextlib.redirect_stdout(out):
        res = prophyc.main(args)
    return res, err.getvalue()


def import_file(path):
    name = 'verif_gen_%d_%s' % (next(_counter), os.path.splitext(os.path.basename(path))[0])
    spec = importlib.util.spec_from_file_location(name, path)
    mod = importlib.util.module_from_spec(spec)
    out = io.StringIO()
    with contextlib.redirect_stdout(out):
        spec.loader.exec_module(mod)
    return mod


def compile_prophy(text, workdir, base, extra_args=(), patch=None):
    """write `text` as <workdir>/<base>.prophy, compile to python, import; returns (nodes, module);
    `patch` rewrites the generated Python source before the import"""
    os.makedirs(workdir, exist_ok=True)
    src = os.path.join(workdir, base + '.prophy')
    with open(src, 'w') as f:
        f.write(text)
    res, _ = run_prophyc(['--python_out', workdir] + list(extra_args) + [src])
    if patch is not None:
        gen = os.path.join(workdir, base + '.py')
        with open(gen) as f:
            source = f.read()
        with open(gen, 'w') as f:
            f.write(patch(source))
    mod = import_file(os.path.join(workdir, base + '.py'))
    return res[base], mod


def exc_class(e):
    """canonical exception class name"""
    if isinstance(e, prophy.ProphyError):
        return 'ProphyError'
    import struct
    if isinstance(e, struct.error):
        return 'struct.error'
    return type(e).__name__

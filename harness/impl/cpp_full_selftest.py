"""
Self-test of harness.impl.cpp_full: builds a small schema, runs a few requests (including one that makes the
current C++ codec read out of bounds and one hostile allocation), prints the answers and timings.

    /venv/bin/python /verif/harness/impl/cpp_full_selftest.py [--big]
"""
import json
import os
import random
import sys
import time

sys.path.insert(0, os.path.dirname(os.path.dirname(os.path.dirname(os.path.abspath(__file__)))))

from harness.impl import cpp_full  # noqa: E402

SCHEMA = """\
struct Dy { u8 a<>; };
struct AfterDyn { Dy d; u8 x; u64 y; };
struct OptOdd { u8 a; u8* x; };
struct Lim { u16 x<3>; u8 t; };
union Un { 1: u64 x; 2: u8 y; };
struct Gr { u32 a; u8 g<...>; };
struct O { u16* o; u8 z; };
struct W { u64 big<>; };
"""
TYPES = ['Dy', 'AfterDyn', 'OptOdd', 'Lim', 'Un', 'Gr', 'O', 'W']

REQUESTS = [
    {'type': 'OptOdd', 'op': 'decode', 'e': 'little', 'data': '010000000100000002000000'},
    {'type': 'Lim', 'op': 'decode', 'e': 'little', 'data': '020000000100020000000500', 'grow': {'x': 5}},
    {'type': 'O', 'op': 'decode', 'e': 'little', 'data': '00000000'},
    {'type': 'W', 'op': 'decode', 'e': 'little', 'data': 'ffffff0f'},
    {'type': 'W', 'op': 'decode', 'e': 'little', 'data': 'ffffffff'},
    {'type': 'Dy', 'op': 'decode', 'e': 'little', 'data': '03000000aabbcc00'},
    {'type': 'Dy', 'op': 'decode', 'e': 'big', 'data': '00000003aabbcc00', 'grow': {'a': 2, 'nope': 1}},
    {'type': 'AfterDyn', 'op': 'decode', 'e': 'little',
     'data': '01000000' 'ff000000' '07' '00000000000000' '0102030405060708'},
    {'type': 'Un', 'op': 'decode', 'e': 'native', 'data': '02000000' '00000000' '0900000000000000'},
    {'type': 'Un', 'op': 'decode', 'e': 'native', 'data': '03000000' '00000000' '0900000000000000'},
    {'type': 'Gr', 'op': 'decode', 'e': 'big', 'data': '00000001' '275c0a80'},
    {'type': 'Gr', 'op': 'decode', 'e': 'little', 'data': ''},
    {'type': 'Nope', 'op': 'decode', 'e': 'little', 'data': '00'},
]


def big_schema(n):
    rng = random.Random(7)
    prims = ['u8', 'u16', 'u32', 'u64', 'i8', 'i16', 'i32', 'i64', 'float', 'double']
    out = []
    names = []
    for i in range(n):
        name = 'T%d' % i
        ms = []
        for j in range(rng.randint(2, 6)):
            t = rng.choice(prims + names[-4:])
            k = rng.choice(['plain', 'plain', 'dyn', 'fixed', 'limited', 'optional'])
            if k == 'plain':
                ms.append('%s m%d;' % (t, j))
            elif k == 'dyn':
                ms.append('%s m%d<>;' % (t, j))
            elif k == 'fixed':
                # (a fixed array of a dynamic struct is accepted by prophyc but the generated C++ does not compile)
                ms.append('%s m%d[%d];' % (t if t in prims else 'u16', j, rng.randint(1, 4)))
            elif k == 'limited':
                ms.append('%s m%d<%d>;' % (t if t in prims else 'u8', j, rng.randint(1, 4)))
            else:
                ms.append('%s* m%d;' % (t if t in prims else 'u32', j))
        out.append('struct %s { %s };' % (name, ' '.join(ms)))
        names.append(name)
    return '\n'.join(out) + '\n', names


def show(rq, ans):
    print('>', json.dumps(rq, sort_keys=True))
    print('<', json.dumps(ans, sort_keys=True))


def main():
    b = cpp_full.FullBatch(SCHEMA, TYPES, jobs_hint=2)
    b.build()
    print('build: %.2fs (prophyc %.2fs, compile %.2fs, cache_hit=%s) key=%s' % (
        b.build_seconds, b.prophyc_seconds, b.compile_seconds, b.cache_hit, b.cache_key[:16]))
    print('generated:', {k: len(v) for k, v in b.generated.items()})
    answers = b.run(REQUESTS)
    assert len(answers) == len(REQUESTS)
    for rq, ans in zip(REQUESTS, answers):
        show(rq, ans)
    print('restarts:', b.restarts)

    assert answers[0]['ok'] is True and answers[0]['size'] == 12
    assert answers[1]['ok'] is True
    assert 'fault' in answers[2] or answers[2].get('ok') is not None
    assert answers[3]['ok'] is False
    assert answers[5]['ok'] is True, 'driver did not continue after fault'

    # second build: cache hit
    b2 = cpp_full.FullBatch(SCHEMA, TYPES)
    b2.build()
    print('rebuild: %.2fs cache_hit=%s' % (b2.build_seconds, b2.cache_hit))
    assert b2.cache_hit

    # throughput: many good requests, a fault every 500
    good = [REQUESTS[0], REQUESTS[5], REQUESTS[7], REQUESTS[8], REQUESTS[10]]
    many = []
    for i in range(20000):
        many.append(REQUESTS[2] if i % 5000 == 2500 else good[i % len(good)])
    t0 = time.time()
    res = b2.run(many)
    dt = time.time() - t0
    nf = sum(1 for a in res if 'fault' in a)
    print('throughput: %d requests in %.2fs = %.0f req/s, faults=%d restarts=%d' % (
        len(many), dt, len(many) / dt, nf, b2.restarts))
    assert all(('fault' in a) == (many[i] is REQUESTS[2]) for i, a in enumerate(res))

    # a big request (4 MiB of data) to exercise the pipe handling
    bigdata = (1 << 22).to_bytes(4, 'little').hex() + '5a' * (1 << 22)
    t0 = time.time()
    res = b2.run([{'type': 'Dy', 'op': 'decode', 'e': 'little', 'data': bigdata}] * 3)
    print('big requests: ok=%s size=%s in %.2fs' % ([a.get('ok') for a in res], res[0].get('size'),
                                                    time.time() - t0))

    # build errors
    for text, types, what in [('struct A { u8 a; }\n', ['A'], 'syntax error'),
                              ('struct E { u8 a; };\n', ['E'], 'type named E'),
                              ('struct A { u8 a; };\n', ['B'], 'unknown exposed type')]:
        bb = cpp_full.FullBatch(text, types)
        try:
            bb.build()
            print('build error case %r: built?!' % what)
        except cpp_full.BuildError as e:
            print('build error case %r: stage=%s, %d log lines, first: %s' % (
                what, e.stage, len(e.log.splitlines()), e.log.splitlines()[0][:150] if e.log else ''))
        bb.close()

    if '--big' in sys.argv:
        text, names = big_schema(25)
        batches = [cpp_full.FullBatch(text, names, base='big', jobs_hint=j) for j in (1,)]
        for bb in batches:
            bb.build()
            print('25 types: build %.2fs (compile %.2fs, cache_hit=%s, jobs_hint=%d)' % (
                bb.build_seconds, bb.compile_seconds, bb.cache_hit, bb.jobs_hint))
            bb.close()
        many = []
        for i in range(8):
            t, n = big_schema(25)
            many.append(cpp_full.FullBatch(t + 'struct Z%d { u8 z; };\n' % i, n + ['Z%d' % i], base='m%d' % i))
        t0 = time.time()
        res = cpp_full.build_many(many, jobs=8)
        print('build_many(8 x 26 types): %.2fs, errors=%s, hits=%s' % (
            time.time() - t0, [str(e)[:80] for _, e in res if e], [x.cache_hit for x, _ in res]))
        for x, _ in res:
            x.close()

    b.close()
    b2.close()
    print('selftest done')


if __name__ == '__main__':
    main()

"""
Self-test of harness/impl/cpp_raw.py:   /venv/bin/python -m harness.impl.cpp_raw_selftest   (from /verif)
Exit code 0 when the module behaves as specified (defects of /repo that show up are printed, not failed on).
"""
import json
import os
import sys
import time

sys.path.insert(0, os.path.dirname(os.path.dirname(os.path.dirname(os.path.abspath(__file__)))))

from harness.impl import cpp_raw  # noqa: E402
from harness.impl.cpp_raw import RawBatch, BuildError, build_many  # noqa: E402

SCHEMA = """\
enum En { En_A = 0, En_B = 5 };
struct Fx { u8 a; u16 b; u32 c; u64 d; };
struct O { u64* v; u8 t; };
struct Dy { u32 n; u8 a<>; u16 b; };
struct X { u8 a<>; u32 b; u8 c<>; u16 d; };
union Un { 1: u64 x; 2: u8 y; };
struct WithUn { u8 a; Un u; };
"""
TYPES = ['En', 'Fx', 'O', 'Dy', 'X', 'Un', 'WithUn']

failures = []


def h(s):
    return s.replace(' ', '').lower()


def expect(what, got, want):
    if got != want:
        failures.append(what)
        print('  MISMATCH %s:\n    got  %s\n    want %s' % (what, got, want))
    else:
        print('  ok %s' % what)


def main():
    sanitize = '--nosan' not in sys.argv
    b = RawBatch(SCHEMA, TYPES, sanitize=sanitize)
    b.build()
    print('build: %.2fs cache_hit=%s key=%s' % (b.build_seconds, b.cache_hit, b.key[:16]))
    print('generated files:', sorted(b.generated))
    lay = b.layout()
    for tn in TYPES:
        print('layout %s = %s' % (tn, json.dumps(lay[tn], sort_keys=True)))

    def offs(t):
        return [(m['name'], m['offset'], m['sizeof']) for m in lay[t]['members']]

    expect('Fx layout', (lay['Fx']['sizeof'], lay['Fx']['alignof'], offs('Fx')),
           (16, 8, [('a', 0, 1), ('_padding0', 1, 1), ('b', 2, 2), ('c', 4, 4), ('d', 8, 8)]))
    expect('Un layout', (lay['Un']['sizeof'], lay['Un']['kind'], offs('Un')),
           (16, 'union', [('discriminator', 0, 4), ('_padding0', 4, 4), ('x', 8, 8), ('y', 8, 1)]))
    expect('Dy parts', [(p['index'], p['offset_in_struct'], p['sizeof'], p['alignof'],
                         [(m['name'], m['offset']) for m in p['members']]) for p in lay['Dy']['parts']],
           [(2, 9, 2, 2, [('b', 0)])])   # sic: the outer struct is packed, so `_2` is NOT aligned to 2 (wire offset: 10)
    expect('X parts', [(p['index'], [m['name'] for m in p['members']]) for p in lay['X']['parts']],
           [(2, ['b', 'num_of_c', 'c']), (3, ['d'])])
    expect('En layout', (lay['En']['sizeof'], lay['En']['kind']), (4, 'enum'))
    # wire layout of O: has_v @0, (4 bytes padding), v @8, t @16, size 24
    o_v = [m['offset'] for m in lay['O']['members'] if m['name'] == 'v'][0]
    print('  NOTE O.v raw offset = %d (wire offset 8)%s' % (o_v, '' if o_v == 8 else '  <-- raw layout differs from wire'))

    t0 = time.time()
    reqs = [
        ('Fx', '01 00 0002 00000003 0000000000000004', '', '01 00 0200 03000000 0400000000000000', 16),
        ('Fx', '01 00 0002 00000003 0000000000000004', 'aabbcc', '01 00 0200 03000000 0400000000000000', 16),
        ('En', '00000005', '', '05000000', 4),
        ('Dy', '00000003 00000002 0102 0007', '', '03000000 02000000 0102 0700', 12),
        ('X', '00000003 010203 00 00000005 00000003 090807 00 0006 0000', '',
         '03000000 010203 00 05000000 03000000 090807 00 0600 0000', 24),
        ('Un', '00000001 00000000 0102030405060708', '', '01000000 00000000 0807060504030201', 16),
        ('Un', '00000002 00000000 05 00000000000000', '', '02000000 00000000 05 00000000000000', 16),
        ('Un', '00000009 00000000 0102030405060708', '', '09000000 00000000 0102030405060708', 16),
        ('WithUn', '01 00000000000000 00000001 00000000 0000000000000002', '',
         '01 00000000000000 01000000 00000000 0200000000000000', 24),
    ]
    answers = b.swap([{'type': t, 'data': h(d), 'tail': h(tl)} for t, d, tl, _, _ in reqs])
    for (t, d, tl, want, ret), a in zip(reqs, answers):
        expect('swap %s %s' % (t, d), a, {'data': h(want), 'tail': h(tl), 'ret': ret, 'sentinels_intact': True})

    # X{a=[1,2,3], b=5, c=[9], d=6}: wire puts d at 18 (alignment of d), the generated swap aligns to part2 (4) first
    x = b.swap([{'type': 'X', 'data': h('00000003 010203 00 00000005 00000001 09 00 0006'), 'tail': ''}])
    print('  NOTE swap X (c of 1 element): %s' % json.dumps(x[0]))
    print('       wire-correct answer would be data=%s ret=20' % h('03000000 010203 00 05000000 01000000 09 00 0600'))
    # O: wire = has_v(4) pad(4) v(8) t(1) pad(7)
    o = b.swap([{'type': 'O', 'data': h('00000001 00000000 0000000000000009 07 00000000000000'), 'tail': ''},
                {'type': 'O', 'data': h('00000000 00000000 0000000000000009 07 00000000000000'), 'tail': ''}])
    print('  NOTE swap O (has_v=1): %s' % json.dumps({k: v for k, v in o[0].items() if k != 'report'}))
    print('       wire-correct answer would be data=%s ret=24' % h('01000000 00000000 0900000000000000 07 00000000000000'))
    print('  NOTE swap O (has_v=0): %s' % json.dumps({k: v for k, v in o[1].items() if k != 'report'}))

    # fault attribution + restart: X with num_of_a = 0x7fffffff sends part2 far outside the buffer
    f = b.swap([{'type': 'Fx', 'data': h('01 00 0002 00000003 0000000000000004'), 'tail': ''},
                {'type': 'X', 'data': h('7fffffff 010203 00 00000005 00000001 09 00 0006'), 'tail': ''},
                {'type': 'Nope', 'data': '00', 'tail': ''},
                {'type': 'Fx', 'data': h('01 00 0002 00000003 0000000000000004'), 'tail': 'ff'}])
    print('  fault answer: %s' % json.dumps({k: v for k, v in f[1].items() if k != 'report'}))
    expect('fault attributed to request 1 only', ['fault' in a for a in f], [False, True, False, False])
    expect('unknown type', f[2], {'error': 'unknown type'})
    expect('driver restarted', f[3].get('ret'), 16)
    # small overrun: Dy claims 40 elements of u8 -> part2 lands in the rear sentinel / beyond
    g = b.swap([{'type': 'Dy', 'data': h('00000003 00000028 0102 0007'), 'tail': ''}])
    print('  overrun answer: %s' % json.dumps({k: v for k, v in g[0].items() if k != 'report'}))
    n = 2000
    t1 = time.time()
    many = b.swap([{'type': 'Fx', 'data': h('01 00 0002 00000003 0000000000000004'), 'tail': ''}] * n)
    dt = time.time() - t1
    expect('%d swaps all fine' % n, all(a.get('ret') == 16 for a in many), True)
    print('swap throughput: %d requests in %.3fs (%.0f/s); whole swap section %.2fs; driver faults seen: %d'
          % (n, dt, n / dt, time.time() - t0, b.faults))
    b.close()

    # cache: same inputs -> no recompilation
    b2 = RawBatch(SCHEMA, TYPES, sanitize=sanitize).build()
    expect('second build is a cache hit', (b2.cache_hit, b2.key == b.key), (True, True))
    print('cached build: %.3fs' % b2.build_seconds)
    b2.close()

    # build_many incl. failures of both stages
    batches = [RawBatch('struct A%d { u%d x; u8 y<>; u32 z[%d]; };' % (i, 8 << (i % 4), i + 1), ['A%d' % i], base='m%d' % i,
                        sanitize=sanitize) for i in range(6)]
    batches.append(RawBatch('struct Bad { u8 a<>; nosuch b; };', ['Bad'], sanitize=sanitize))
    batches.append(RawBatch('struct Kw { u8 class; };', ['Kw'], sanitize=sanitize))
    batches.append(RawBatch('struct Ok { u8 a; };', ['Missing'], sanitize=sanitize))
    t2 = time.time()
    res = build_many(batches, jobs=16)
    print('build_many: %d batches in %.2fs (hits: %s)' % (len(batches), time.time() - t2, [x.cache_hit for x in batches]))
    expect('build_many stages', [e and e.stage for _, e in res], [None] * 6 + ['prophyc', 'compile', 'parse'])
    for bb, e in res[6:]:
        print('  %s: %s' % (e.stage, e.log.strip().split('\n')[:3]))
        expect('log clipped', len(e.log.split('\n')) <= cpp_raw.MAX_LOG_LINES + 2, True)
    a3 = res[3][0]
    print('  layout A3 = %s' % json.dumps(a3.layout()['A3'], sort_keys=True))
    sw = a3.swap([{'type': 'A3', 'data': h('0000000000000007 00000002 0a0b 0000 00000001 00000002 00000003 00000004'),
                   'tail': ''}])
    expect('A3 swap', sw[0], {'data': h('0700000000000000 02000000 0a0b 0000 01000000 02000000 03000000 04000000'),
                              'tail': '', 'ret': 32, 'sentinels_intact': True})
    for bb, _ in res:
        bb.close()

    print('SELFTEST %s' % ('FAILED: %s' % failures if failures else 'PASSED'))
    return 1 if failures else 0


if __name__ == '__main__':
    sys.exit(main())

"""
Runs the real C++ "full" codec: prophyc from REPO (`--cpp_full_out`), the generated
`<base>.ppf.hpp` / `<base>.ppf.cpp`, the header-only runtime under REPO/prophy_cpp/include and a
generated driver program, compiled with g++ (ASan + UBSan by default).

    b = FullBatch(schema_text, ['A', 'B'], trees={...})
    b.build()                       # BuildError(.stage in {'prophyc', 'compile'}, .log)
    answers = b.run([{'type': 'A', 'op': 'decode', 'e': 'little', 'data': '0100'}, ...])
    b.close()

Request (python side):
    {'type': T, 'op': 'decode', 'e': 'little'|'big'|'native', 'data': hex,
     'grow': {field: n, ...} (optional), 'force_enc': bool (optional)}

Answer of the driver (one JSON line per request):
    ok, alloc_total, alloc_max                       always (decode stage)
    exception                                       decode threw ('bad_alloc' | 'length_error' | 'exception: what')
    when ok:
      size, encoded_byte_size, ptr_written, overrun, ptr_bytes, ptr_bytes_zero, print,
      enc_little, enc_big, enc_native               (vector encoders)
      enc_skipped: true                             instead of enc_*, when the pointer encoder already wrote
                                                    past get_byte_size() (the vector encoder would write past its
                                                    heap block: certain ASan abort); 'force_enc' runs them anyway
      grow_error: [names]                           unknown grow fields
      post_exception                                something after decode threw (grow / encode / print)
Answer synthesised by run() when the process died on the request:
    {'fault': 'AddressSanitizer: heap-buffer-overflow; READ of size 1; decoder.hpp:25 in ...; ...'}
    {'fault': 'timeout ...'} when a single request exceeded `request_timeout`.
`print` is transported byte-wise (bytes >= 0x80 and control characters as \\u00XX): latin-1 view of the output.

Wire format towards the driver (one line per request): `decode <T> <e> <hex|-> [force] [field=n ...]`.

Knobs: env PROPHY_REPO (default /repo), CPPFULL_CACHE (default /verif/.cache/cppfull), CPPFULL_CXX (default g++;
clang++-14 compiles the same sources about twice as fast); FullBatch(opt='-O0') for faster builds;
run(requests, timeout=600, request_timeout=60).
Attributes after build(): generated {filename: text}, driver_source, build_seconds, prophyc_seconds,
compile_seconds, cache_hit, cache_key, cache_dir, binary; after run(): run_seconds, restarts.
"""
import hashlib
import json
import os
import re
import select
import shutil
import signal
import subprocess
import sys
import tempfile
import threading
import time
from concurrent.futures import ThreadPoolExecutor

REPO = os.environ.get('PROPHY_REPO', '/repo')
CACHE_ROOT = os.environ.get('CPPFULL_CACHE', '/verif/.cache/cppfull')
CXX = os.environ.get('CPPFULL_CXX', 'g++')
MAX_LOG_LINES = 60
ALLOC_LIMIT = 256 << 20

BASE_FLAGS = ['-std=c++11', '-O1', '-g']
SAN_FLAGS = ['-fsanitize=address,undefined', '-fno-sanitize=enum', '-fno-sanitize-recover=all']

ASAN_OPTIONS = ('detect_leaks=0:abort_on_error=0:allocator_may_return_null=1:symbolize=1:print_legend=0:'
                'print_summary=0:handle_abort=1:detect_stack_use_after_return=0:malloc_context_size=2:'
                'fast_unwind_on_malloc=1')
UBSAN_OPTIONS = 'print_stacktrace=1:halt_on_error=1:print_summary=0'


class BuildError(Exception):
    def __init__(self, log, stage):
        lines = log.splitlines()
        if len(lines) > MAX_LOG_LINES:
            lines = lines[:MAX_LOG_LINES] + ['... (%d more lines)' % (len(lines) - MAX_LOG_LINES)]
        self.log = '\n'.join(lines)
        self.stage = stage
        Exception.__init__(self, '%s failed:\n%s' % (stage, self.log))


class RunError(Exception):
    pass


# ----------------------------------------------------------------------------- driver source

DRIVER_PRELUDE = r'''
#include "%(base)s.ppf.hpp"
#include <stdio.h>
#include <stdlib.h>
#include <string.h>
#include <stdint.h>
#include <new>
#include <string>
#include <locale>
#include <vector>
#include <utility>
#include <stdexcept>
#include <exception>

using namespace prophy::generated;

/* ---- counting / refusing allocator ---- */
static size_t g_alloc_total = 0;
static size_t g_alloc_max = 0;
static const size_t g_alloc_limit = %(limit)dUL;

static void* counted_alloc(size_t n)
{
    g_alloc_total += n;
    if (n > g_alloc_max) g_alloc_max = n;
    if (n > g_alloc_limit) throw std::bad_alloc();
    void* p = malloc(n ? n : 1);
    if (!p) throw std::bad_alloc();
    return p;
}
void* operator new(size_t n) { return counted_alloc(n); }
void* operator new[](size_t n) { return counted_alloc(n); }
void* operator new(size_t n, const std::nothrow_t&) noexcept
{ try { return counted_alloc(n); } catch (...) { return 0; } }
void* operator new[](size_t n, const std::nothrow_t&) noexcept
{ try { return counted_alloc(n); } catch (...) { return 0; } }
void operator delete(void* p) noexcept { free(p); }
void operator delete[](void* p) noexcept { free(p); }
void operator delete(void* p, const std::nothrow_t&) noexcept { free(p); }
void operator delete[](void* p, const std::nothrow_t&) noexcept { free(p); }

/* ---- output helpers (plain malloc'ed text buffer would do, std::string is simpler;
        its allocations happen outside of the counted window) ---- */
static void put_hex(std::string& out, const uint8_t* p, size_t n)
{
    static const char* d = "0123456789abcdef";
    out += '"';
    for (size_t i = 0; i < n; ++i) { out += d[p[i] >> 4]; out += d[p[i] & 15]; }
    out += '"';
}
static void put_str(std::string& out, const std::string& s)
{
    static const char* d = "0123456789abcdef";
    out += '"';
    for (size_t i = 0; i < s.size(); ++i)
    {
        unsigned char c = (unsigned char)s[i];
        if (c == '"') out += "\\\"";
        else if (c == '\\') out += "\\\\";
        else if (c == '\n') out += "\\n";
        else if (c < 32 || c >= 127) { out += "\\u00"; out += d[c >> 4]; out += d[c & 15]; }
        else out += char(c);
    }
    out += '"';
}
static void put_num(std::string& out, long long x)
{
    char buf[32];
    snprintf(buf, sizeof buf, "%%lld", x);
    out += buf;
}
static void put_unum(std::string& out, unsigned long long x)
{
    char buf[32];
    snprintf(buf, sizeof buf, "%%llu", x);
    out += buf;
}
static void emit(const std::string& line)
{
    fwrite(line.data(), 1, line.size(), stdout);
    fputc('\n', stdout);
    fflush(stdout);
}
static int hexval(char c)
{
    if (c >= '0' && c <= '9') return c - '0';
    if (c >= 'a' && c <= 'f') return c - 'a' + 10;
    if (c >= 'A' && c <= 'F') return c - 'A' + 10;
    return -1;
}

struct request
{
    std::string op, type, e, hex;
    bool force;
    bool fresh;     /* no decode: the default-constructed object is printed and encoded */
    size_t off;     /* the input of decode starts `off` bytes behind an aligned address */
    size_t eoff;    /* the destination of encode(void*) starts `eoff` bytes behind an aligned address */
    std::vector<std::pair<std::string, size_t> > grow;
};

/* type-erased view of a generated message type: keeps the per-type template code tiny
   (compile time is dominated by sanitizer instrumentation of whatever is instantiated per type) */
struct ops
{
    void* (*create)();
    void (*destroy)(void*);
    bool (*decode)(void*, int, const void*, size_t);
    bool (*grow)(void*, const std::string&, size_t);
    size_t (*byte_size)(const void*);
    long long encoded_byte_size;
    size_t (*encode_ptr)(const void*, void*);
    void (*encode_vec)(const void*, int, std::vector<uint8_t>&);
    void (*print)(const void*, std::string&);
};

template <class T>
bool apply_grow(T&, const std::string&, size_t) { return false; }

template <class T>
struct ops_of
{
    static void* create() { return new T(); }
    static void destroy(void* p) { delete static_cast<T*>(p); }
    static bool decode(void* p, int e, const void* data, size_t size)
    {
        T& obj = *static_cast<T*>(p);
        if (e == 1) return obj.template decode<prophy::little>(data, size);
        if (e == 2) return obj.template decode<prophy::big>(data, size);
        return obj.template decode<prophy::native>(data, size);
    }
    static bool grow(void* p, const std::string& f, size_t n) { return apply_grow<T>(*static_cast<T*>(p), f, n); }
    static size_t byte_size(const void* p) { return static_cast<const T*>(p)->get_byte_size(); }
    static size_t encode_ptr(const void* p, void* out)
    { return static_cast<const T*>(p)->template encode<prophy::native>(out); }
    static void encode_vec(const void* p, int e, std::vector<uint8_t>& out)
    {
        const T& obj = *static_cast<const T*>(p);
        if (e == 1) out = obj.template encode<prophy::little>();
        else if (e == 2) out = obj.template encode<prophy::big>();
        else out = obj.template encode<prophy::native>();
    }
    static void print(const void* p, std::string& out) { out = static_cast<const T*>(p)->print(); }
};

static void put_alloc(std::string& out, size_t total, size_t max)
{
    out += ", \"alloc_total\": "; put_unum(out, total);
    out += ", \"alloc_max\": "; put_unum(out, max);
}

static void process(const ops& o, const request& rq)
{
    std::string out = "{";
    /* exact-size heap copy of the input: ASan sees any out-of-bounds read */
    size_t size = rq.hex.size() / 2;
    uint8_t* data_block = static_cast<uint8_t*>(malloc(size + rq.off ? size + rq.off : 1));
    uint8_t* data = data_block + rq.off;
    for (size_t i = 0; i < size; ++i)
        data[i] = uint8_t(hexval(rq.hex[2 * i]) << 4 | hexval(rq.hex[2 * i + 1]));
    int e = rq.e == "little" ? 1 : rq.e == "big" ? 2 : 0;

    const char* stage_key = "exception";
    bool decoded = false;
    std::string what;
    void* obj = o.create();
    try
    {
        g_alloc_total = 0;
        g_alloc_max = 0;
        bool ok = rq.fresh ? true : o.decode(obj, e, data, size);
        size_t total = g_alloc_total, max = g_alloc_max;
        decoded = true;
        stage_key = "post_exception";
        out += ok ? "\"ok\": true" : "\"ok\": false";
        put_alloc(out, total, max);
        if (ok)
        {
            std::string bad;
            for (size_t i = 0; i < rq.grow.size(); ++i)
                if (!o.grow(obj, rq.grow[i].first, rq.grow[i].second))
                {
                    if (!bad.empty()) bad += ", ";
                    put_str(bad, rq.grow[i].first);
                }
            if (!bad.empty()) { out += ", \"grow_error\": ["; out += bad; out += "]"; }

            size_t bs = o.byte_size(obj);
            out += ", \"size\": "; put_unum(out, bs);
            out += ", \"encoded_byte_size\": "; put_num(out, o.encoded_byte_size);

            size_t cap = bs + 64;
            uint8_t* block = static_cast<uint8_t*>(malloc(cap + rq.eoff));
            uint8_t* buf = block + rq.eoff;
            memset(buf, 0xAA, cap);
            size_t written = o.encode_ptr(obj, buf);
            bool overrun = false;
            for (size_t i = bs; i < cap; ++i) if (buf[i] != 0xAA) overrun = true;
            out += ", \"ptr_written\": "; put_unum(out, written);
            out += overrun ? ", \"overrun\": true" : ", \"overrun\": false";
            out += ", \"ptr_bytes\": "; put_hex(out, buf, bs);
            free(block);

            buf = static_cast<uint8_t*>(calloc(cap, 1));
            size_t written0 = o.encode_ptr(obj, buf);
            size_t show = written0 > bs ? written0 : bs;
            if (show > cap) show = cap;
            out += ", \"ptr_bytes_zero\": "; put_hex(out, buf, show);
            free(buf);

            std::string printed;
            o.print(obj, printed);
            out += ", \"print\": "; put_str(out, printed);

            if ((overrun || written > bs) && !rq.force)
            {
                out += ", \"enc_skipped\": true";
            }
            else
            {
                static const char* keys[3] = { ", \"enc_native\": ", ", \"enc_little\": ", ", \"enc_big\": " };
                static const int order[3] = { 1, 2, 0 };
                for (int k = 0; k < 3; ++k)
                {
                    std::vector<uint8_t> v;
                    o.encode_vec(obj, order[k], v);
                    out += keys[order[k]];
                    put_hex(out, v.data(), v.size());
                }
            }
        }
    }
    catch (const std::bad_alloc&) { what = "bad_alloc"; }
    catch (const std::length_error&) { what = "length_error"; }
    catch (const std::exception& x) { what = std::string("exception: ") + x.what(); }
    if (!what.empty())
    {
        if (!decoded)
        {
            out += "\"ok\": false";
            put_alloc(out, g_alloc_total, g_alloc_max);
        }
        out += ", \""; out += stage_key; out += "\": ";
        put_str(out, what);
    }
    o.destroy(obj);
    free(data_block);
    out += "}";
    emit(out);
}

template <class T>
static void handle(const request& rq)
{
    static const ops o = {
        &ops_of<T>::create, &ops_of<T>::destroy, &ops_of<T>::decode, &ops_of<T>::grow, &ops_of<T>::byte_size,
        (long long)(int)T::encoded_byte_size, &ops_of<T>::encode_ptr, &ops_of<T>::encode_vec, &ops_of<T>::print
    };
    process(o, rq);
}

static bool parse(const std::string& line, request& rq)
{
    std::vector<std::string> tok;
    size_t i = 0;
    while (i < line.size())
    {
        while (i < line.size() && (line[i] == ' ' || line[i] == '\r')) ++i;
        size_t j = i;
        while (j < line.size() && line[j] != ' ' && line[j] != '\r') ++j;
        if (j > i) tok.push_back(line.substr(i, j - i));
        i = j;
    }
    if (tok.size() < 4) return false;
    rq.op = tok[0]; rq.type = tok[1]; rq.e = tok[2]; rq.hex = tok[3] == "-" ? std::string() : tok[3];
    rq.force = false;
    rq.fresh = false;
    rq.off = 0;
    rq.eoff = 0;
    rq.grow.clear();
    if (rq.hex.size() %% 2) return false;
    for (size_t k = 0; k < rq.hex.size(); ++k) if (hexval(rq.hex[k]) < 0) return false;
    for (size_t k = 4; k < tok.size(); ++k)
    {
        if (tok[k] == "force") { rq.force = true; continue; }
        if (tok[k] == "fresh") { rq.fresh = true; continue; }
        if (tok[k].compare(0, 4, "off=") == 0) { rq.off = size_t(atoi(tok[k].c_str() + 4)); continue; }
        if (tok[k].compare(0, 5, "eoff=") == 0) { rq.eoff = size_t(atoi(tok[k].c_str() + 5)); continue; }
        size_t eq = tok[k].find('=');
        if (eq == std::string::npos) return false;
        rq.grow.push_back(std::make_pair(tok[k].substr(0, eq),
                                         size_t(strtoull(tok[k].c_str() + eq + 1, 0, 10))));
    }
    return true;
}
'''

DRIVER_MAIN_HEAD = r'''
/* the program's global locale groups digits: the text print() gives must not depend on it (defect D132) */
struct grouping_punct : std::numpunct<char>
{
    char do_thousands_sep() const { return ','; }
    std::string do_grouping() const { return "\3"; }
};

int main()
{
    std::locale::global(std::locale(std::locale::classic(), new grouping_punct));
    std::string line;
    request rq;
    char chunk[65536];
    while (fgets(chunk, sizeof chunk, stdin))
    {
        line += chunk;
        if (line.empty() || line[line.size() - 1] != '\n')
            continue;
        line.erase(line.size() - 1);
        if (!parse(line, rq)) emit("{\"error\": \"bad request\"}");
        else if (rq.op != "decode") emit("{\"error\": \"unknown op\"}");
'''

DRIVER_MAIN_TAIL = r'''
        else emit("{\"error\": \"unknown type\"}");
        line.clear();
    }
    return 0;
}
'''

_IDENT = re.compile(r'^[A-Za-z_][A-Za-z0-9_]*$')


def vector_members_from_tree(tree):
    """names of the top-level std::vector members of a struct tree (gen.schema.tree form)"""
    if not tree or tree.get('k') != 'struct':
        return []
    return [m['n'] for m in tree['ms'] if m.get('mk') in ('dyn', 'limited', 'greedy')]


def vector_members_from_hpp(hpp_text):
    """fallback when no trees are given: {struct name: [std::vector member names]} from the generated header"""
    res = {}
    cur = None
    for line in hpp_text.splitlines():
        m = re.match(r'^struct (\w+) : public prophy::detail::message<\1>', line)
        if m:
            cur = m.group(1)
            res[cur] = []
            continue
        if line.startswith('};'):
            cur = None
            continue
        m = re.match(r'^    std::vector<[^;]*> (\w+);', line)
        if m and cur is not None:
            res[cur].append(m.group(1))
    return res


def make_driver(base, type_names, vectors):
    parts = [DRIVER_PRELUDE % {'base': base, 'limit': ALLOC_LIMIT}]
    for t in type_names:
        fields = vectors.get(t) or []
        if not fields:
            continue
        body = ''.join('    if (f == "%s") { x.%s.resize(x.%s.size() + n); return true; }\n' % (f, f, f)
                       for f in fields)
        parts.append('template <>\nbool apply_grow<%s>(%s& x, const std::string& f, size_t n)\n{\n%s'
                     '    return false;\n}\n' % (t, t, body))
    parts.append(DRIVER_MAIN_HEAD)
    for t in type_names:
        parts.append('        else if (rq.type == "%s") handle<%s>(rq);\n' % (t, t))
    parts.append(DRIVER_MAIN_TAIL)
    return ''.join(parts)


# ----------------------------------------------------------------------------- hashing of the runtime

_headers_lock = threading.Lock()
_headers_memo = {}


def runtime_headers_digest(repo=None):
    """sha256 over (relative path, content) of every file under REPO/prophy_cpp/include/prophy; memoised per
    process on the (path, mtime_ns, size) listing, so an edited header gives a new digest"""
    repo = repo or REPO
    root = os.path.join(repo, 'prophy_cpp', 'include', 'prophy')
    listing = []
    for dirpath, dirnames, filenames in os.walk(root):
        dirnames.sort()
        for fn in sorted(filenames):
            p = os.path.join(dirpath, fn)
            st = os.stat(p)
            listing.append((os.path.relpath(p, root), st.st_mtime_ns, st.st_size))
    stamp = (root, tuple(listing))
    with _headers_lock:
        if stamp in _headers_memo:
            return _headers_memo[stamp]
    h = hashlib.sha256()
    for rel, _, _ in listing:
        with open(os.path.join(root, rel), 'rb') as f:
            data = f.read()
        h.update(('%s\0%d\0' % (rel, len(data))).encode())
        h.update(data)
    digest = h.hexdigest()
    with _headers_lock:
        _headers_memo[stamp] = digest
    return digest


_cxx_version = {}


def cxx_version():
    if CXX not in _cxx_version:
        try:
            out = subprocess.run([CXX, '--version'], stdout=subprocess.PIPE, stderr=subprocess.STDOUT,
                                 universal_newlines=True).stdout.splitlines()[0]
        except Exception as e:  # pragma: no cover
            out = 'unknown: %r' % (e,)
        _cxx_version[CXX] = out
    return _cxx_version[CXX]


# ----------------------------------------------------------------------------- fault string

_HEX = re.compile(r'0x[0-9a-fA-F]+')
_FRAME = re.compile(r'^\s*#(\d+)\s+(?:0x[0-9a-fA-F]+)\s+(?:in\s+)?(.*)$')
_LOC = re.compile(r'(\S+?):(\d+)(?::\d+)?$')


def _clean(s):
    s = _HEX.sub('', s)
    s = re.sub(r'==\d+==\s*', '', s)
    s = re.sub(r'\b(pc|bp|sp)\b\s*', '', s)
    return re.sub(r'\s+', ' ', s).strip()


def fault_string(stderr_text, returncode, base='s0', repo=None, max_frames=3):
    """deterministic one-line description of a dead driver: sanitizer headline(s) + the top frames that are
    inside the prophy headers or the generated code, without addresses/pids"""
    repo = repo or REPO
    inc = os.path.join(repo, 'prophy_cpp', 'include')
    lines = stderr_text.splitlines()
    head = []
    frames = []
    other = []
    in_first_stack = False
    stack_done = False
    for i, line in enumerate(lines):
        if 'ERROR: AddressSanitizer' in line or 'ERROR: LeakSanitizer' in line:
            m = re.search(r'(AddressSanitizer: .*?)( on (unknown )?address| at pc|\(pc| \(|$)', line)
            head.append(_clean(m.group(1) if m else line))
            # next line: "READ of size N at ..." / "WRITE of size ..."
            if i + 1 < len(lines):
                m2 = re.match(r'^\s*((READ|WRITE) of size \d+)', lines[i + 1])
                if m2:
                    head.append(m2.group(1))
        elif 'runtime error:' in line:
            m = re.match(r'^(\S+?):(\d+):(\d+): runtime error: (.*)$', line)
            if m:
                head.append('UndefinedBehaviorSanitizer: %s @ %s:%s' % (
                    _clean(m.group(4)), os.path.basename(m.group(1)), m.group(2)))
            else:
                head.append(_clean(line))
        elif 'The signal is caused by' in line or line.startswith('terminate called') or \
                line.lstrip().startswith('what():'):
            head.append(_clean(line))
        m = _FRAME.match(line)
        if m and not stack_done:
            in_first_stack = True
            rest = m.group(2).strip()
            loc = _LOC.search(rest)
            if loc:
                path = loc.group(1)
                func = rest[:loc.start()].strip()
                fn = os.path.basename(path)
                mine = (os.path.realpath(path).startswith(os.path.realpath(inc)) or
                        fn in (base + '.ppf.hpp', base + '.ppf.cpp') or '/prophy/' in path)
                func = re.sub(r'\s+', ' ', func)
                if len(func) > 160:
                    func = func[:157] + '...'
                if mine and len(frames) < max_frames:
                    frames.append('%s:%s in %s' % (fn, loc.group(2), func))
                elif len(other) < max_frames:
                    other.append('%s:%s in %s' % (fn, loc.group(2), func))
        elif in_first_stack and not m:
            stack_done = True
    if returncode is not None and returncode < 0:
        try:
            signame = signal.Signals(-returncode).name
        except ValueError:
            signame = 'signal %d' % -returncode
        if not head:
            head.append(signame)
    if not head:
        first = [_clean(x) for x in lines if x.strip() and not x.startswith('====')][:2]
        head.append('exit code %s%s' % (returncode, (': ' + ' | '.join(first)) if first else ''))
    return '; '.join(head + (frames or other))


# ----------------------------------------------------------------------------- batch

class FullBatch(object):
    def __init__(self, schema_text, type_names, base='s0', trees=None, sanitize=True, jobs_hint=1, opt='-O1', san_flags=None):
        """jobs_hint >= 2: the two translation units are compiled in parallel;
        opt: optimisation flag ('-O1' is the reference; '-O0' builds about 2.5 times faster)"""
        self.opt = opt
        self.san_flags = list(SAN_FLAGS if san_flags is None else san_flags)
        self.schema_text = schema_text
        self.type_names = list(type_names)
        self.base = base
        self.trees = trees
        self.sanitize = sanitize
        self.jobs_hint = jobs_hint
        self.repo = os.environ.get('PROPHY_REPO', REPO)
        self.generated = {}
        self.driver_source = None
        self.build_seconds = None
        self.prophyc_seconds = None
        self.compile_seconds = None
        self.cache_hit = None
        self.cache_key = None
        self.cache_dir = None
        self.binary = None
        self.restarts = 0
        self.run_seconds = None
        self._tmp = []

    # ---- build

    def flags(self):
        fl = [self.opt if f == '-O1' else f for f in BASE_FLAGS]
        if self.sanitize:
            fl += self.san_flags
        fl.append('-I' + os.path.join(self.repo, 'prophy_cpp', 'include'))
        return fl

    def _run_prophyc(self):
        try:
            return self._run_prophyc_impl()
        finally:
            self.close()   # the generated text is kept in memory; the directory is not needed any more

    def _run_prophyc_impl(self):
        work = tempfile.mkdtemp(prefix='cppfull-gen-')
        self._tmp.append(work)
        src = os.path.join(work, self.base + '.prophy')
        with open(src, 'w') as f:
            f.write(self.schema_text)
        # prophyc.main directly (python -m prophyc would flatten every exception into an exit text);
        # the exception summary goes first, the traceback after it
        code = ('import sys, os, traceback\n'
                'sys.path.insert(0, %r)\n'
                'import prophyc\n'
                'assert os.path.realpath(prophyc.__file__).startswith(os.path.realpath(%r)), prophyc.__file__\n'
                'try:\n'
                '    prophyc.main(sys.argv[1:])\n'
                'except BaseException as e:\n'
                '    sys.stderr.flush()\n'
                '    print("%%s: %%s" %% (type(e).__name__, e))\n'
                '    traceback.print_exc(file=sys.stdout)\n'
                '    sys.exit(1)\n' % (self.repo, self.repo))
        p = subprocess.run([sys.executable, '-c', code, '--cpp_full_out', work, src],
                           stdout=subprocess.PIPE, stderr=subprocess.STDOUT, universal_newlines=True,
                           cwd=work)
        names = [self.base + '.ppf.hpp', self.base + '.ppf.cpp']
        if p.returncode != 0 or not all(os.path.exists(os.path.join(work, n)) for n in names):
            raise BuildError(p.stdout or ('prophyc exit code %d' % p.returncode), 'prophyc')
        gen = {}
        for n in sorted(os.listdir(work)):
            if n.endswith('.ppf.hpp') or n.endswith('.ppf.cpp'):
                with open(os.path.join(work, n)) as f:
                    gen[n] = f.read()
        return gen

    def _vectors(self):
        for t in self.type_names:
            if not _IDENT.match(t):
                raise BuildError('bad type name %r' % (t,), 'compile')
        from_hpp = vector_members_from_hpp(self.generated[self.base + '.ppf.hpp'])
        vectors = {}
        for t in self.type_names:
            if self.trees is not None and t in self.trees:
                vectors[t] = vector_members_from_tree(self.trees[t])
            else:
                vectors[t] = from_hpp.get(t, [])
        return vectors

    def build(self):
        t0 = time.time()
        try:
            self.generated = self._run_prophyc()
            self.prophyc_seconds = time.time() - t0
            self.driver_source = make_driver(self.base, self.type_names, self._vectors())
            flags = self.flags()
            h = hashlib.sha256()
            for n in sorted(self.generated):
                h.update(('%s\0%d\0' % (n, len(self.generated[n]))).encode())
                h.update(self.generated[n].encode())
            h.update(b'driver\0' + self.driver_source.encode())
            # the include path itself is part of the flags; headers enter by content
            h.update(('\0flags\0' + ' '.join(flags) + '\0' + CXX + '\0' + cxx_version()).encode())
            h.update(('\0headers\0' + runtime_headers_digest(self.repo)).encode())
            self.cache_key = h.hexdigest()
            self.cache_dir = os.path.join(CACHE_ROOT, self.cache_key)
            self.binary = os.path.join(self.cache_dir, 'driver')
            if os.path.exists(self.binary):
                self.cache_hit = True
                self.compile_seconds = 0.0
                return self
            self.cache_hit = False
            t1 = time.time()
            self._compile(flags)
            self.compile_seconds = time.time() - t1
            return self
        finally:
            self.build_seconds = time.time() - t0

    def _compile(self, flags):
        os.makedirs(CACHE_ROOT, exist_ok=True)
        work = tempfile.mkdtemp(prefix=self.cache_key[:16] + '.tmp-', dir=CACHE_ROOT)
        ok = False
        try:
            for n, text in self.generated.items():
                with open(os.path.join(work, n), 'w') as f:
                    f.write(text)
            with open(os.path.join(work, 'driver.cpp'), 'w') as f:
                f.write(self.driver_source)
            with open(os.path.join(work, 'flags.txt'), 'w') as f:
                f.write(' '.join([CXX] + flags) + '\n' + cxx_version() + '\n')
            sources = ['driver.cpp', self.base + '.ppf.cpp']
            env = dict(os.environ, LC_ALL='C')
            if self.jobs_hint and self.jobs_hint > 1:
                procs = [(s, subprocess.Popen([CXX] + flags + ['-c', s, '-o', s + '.o'], cwd=work, env=env,
                                              stdout=subprocess.PIPE, stderr=subprocess.STDOUT,
                                              universal_newlines=True)) for s in sources]
                logs = []
                failed = False
                for s, p in procs:
                    out = p.communicate()[0]
                    if p.returncode != 0:
                        failed = True
                        logs.append(out)
                if failed:
                    raise BuildError('\n'.join(logs), 'compile')
                cmd = [CXX] + flags + [s + '.o' for s in sources] + ['-o', 'driver']
            else:
                cmd = [CXX] + flags + sources + ['-o', 'driver']
            p = subprocess.run(cmd, cwd=work, env=env, stdout=subprocess.PIPE, stderr=subprocess.STDOUT,
                               universal_newlines=True)
            if p.returncode != 0 or not os.path.exists(os.path.join(work, 'driver')):
                raise BuildError(p.stdout or ('g++ exit code %d' % p.returncode), 'compile')
            for s in sources:
                if os.path.exists(os.path.join(work, s + '.o')):
                    os.unlink(os.path.join(work, s + '.o'))
            try:
                os.rename(work, self.cache_dir)
                ok = True
            except OSError:
                # somebody else built the same key meanwhile
                if not os.path.exists(self.binary):
                    raise
        finally:
            if not ok:
                shutil.rmtree(work, ignore_errors=True)

    # ---- run

    @staticmethod
    def _wire(rq):
        op = rq.get('op', 'decode')
        e = rq.get('e', 'native')
        if e not in ('little', 'big', 'native'):
            raise ValueError('bad endianness %r' % (e,))
        t = rq['type']
        if not _IDENT.match(t) or not _IDENT.match(op):
            raise ValueError('bad request %r' % (rq,))
        data = rq.get('data', '')
        if isinstance(data, (bytes, bytearray)):
            data = bytes(data).hex()
        if len(data) % 2 or re.search(r'[^0-9a-fA-F]', data):
            raise ValueError('bad hex in request for %s' % t)
        toks = [op, t, e, data or '-']
        if rq.get('force_enc'):
            toks.append('force')
        if rq.get('fresh'):
            toks.append('fresh')
        if rq.get('off'):
            toks.append('off=%d' % int(rq['off']))
        if rq.get('eoff'):
            toks.append('eoff=%d' % int(rq['eoff']))
        for k, v in sorted((rq.get('grow') or {}).items()):
            if not _IDENT.match(k):
                raise ValueError('bad grow field %r' % (k,))
            toks.append('%s=%d' % (k, int(v)))
        return (' '.join(toks) + '\n').encode('ascii')

    def _env(self):
        env = dict(os.environ)
        env['ASAN_OPTIONS'] = ASAN_OPTIONS
        env['UBSAN_OPTIONS'] = UBSAN_OPTIONS
        env['LC_ALL'] = 'C'
        return env

    def run(self, requests, timeout=600, request_timeout=60):
        """one answer per request, in order. A request on which the driver process dies is answered
        {'fault': ...}; the driver is restarted for the remaining ones."""
        if not self.binary or not os.path.exists(self.binary):
            raise RunError('not built')
        t0 = time.time()
        deadline = t0 + timeout
        wires = [self._wire(r) for r in requests]
        answers = []
        start = 0
        n = len(wires)
        while start < n:
            got, fault = self._run_process(wires, start, deadline, request_timeout)
            answers.extend(got)
            start += len(got)
            if fault is not None:
                if start >= n:
                    raise RunError('driver died without a pending request: %s' % fault)
                answers.append({'fault': fault})
                start += 1
                self.restarts += 1
            elif start < n:
                raise RunError('driver ended early after %d of %d answers' % (start, n))
        self.run_seconds = time.time() - t0
        return answers

    def _run_process(self, wires, start, deadline, request_timeout):
        """feeds wires[start:] to a fresh driver; returns (answers, fault_or_None)"""
        errf = tempfile.TemporaryFile()
        proc = subprocess.Popen([self.binary], stdin=subprocess.PIPE, stdout=subprocess.PIPE, stderr=errf,
                                env=self._env(), bufsize=0, cwd=self.cache_dir)
        stop = threading.Event()

        def feed():
            try:
                buf = []
                size = 0
                for i in range(start, len(wires)):
                    if stop.is_set():
                        break
                    buf.append(wires[i])
                    size += len(wires[i])
                    if size >= 1 << 16:
                        proc.stdin.write(b''.join(buf))
                        buf, size = [], 0
                if buf and not stop.is_set():
                    proc.stdin.write(b''.join(buf))
            except (BrokenPipeError, OSError, ValueError):
                pass
            finally:
                try:
                    proc.stdin.close()
                except (BrokenPipeError, OSError, ValueError):
                    pass

        feeder = threading.Thread(target=feed, daemon=True)
        feeder.start()
        fd = proc.stdout.fileno()
        answers = []
        want = len(wires) - start
        pending = []
        fault = None
        timed_out = None
        last_progress = time.time()
        try:
            while len(answers) < want:
                now = time.time()
                if now >= deadline:
                    timed_out = 'batch'
                    break
                if now - last_progress >= request_timeout:
                    timed_out = 'request'
                    break
                wait = min(deadline - now, request_timeout - (now - last_progress), 5.0)
                r, _, _ = select.select([fd], [], [], max(wait, 0.01))
                if not r:
                    continue
                chunk = os.read(fd, 1 << 20)
                if not chunk:
                    break
                pending.append(chunk)
                if b'\n' in chunk:
                    lines = b''.join(pending).split(b'\n')
                    pending = [lines.pop()]
                    for ln in lines:
                        try:
                            answers.append(json.loads(ln.decode('ascii')))
                        except ValueError:
                            raise RunError('driver wrote a malformed line: %r' % (ln[:200],))
                    last_progress = time.time()
        finally:
            stop.set()
            if timed_out or sys.exc_info()[0] is not None:
                proc.kill()
            try:
                proc.stdout.close()
            except OSError:
                pass
            try:
                rc = proc.wait(timeout=30)
            except subprocess.TimeoutExpired:
                proc.kill()
                rc = proc.wait()
            feeder.join(timeout=30)
            errf.seek(0)
            err = errf.read().decode('latin-1')
            errf.close()
        if timed_out == 'batch':
            raise RunError('batch timeout after %d of %d answers' % (start + len(answers), len(wires)))
        if timed_out == 'request':
            fault = 'timeout: no answer within %ss' % request_timeout
        elif len(answers) < want:
            fault = fault_string(err, rc, self.base, self.repo)
        elif rc != 0:
            raise RunError('driver exit code %s after all answers: %s' % (rc, err[:2000]))
        return answers, fault

    # ---- cleanup

    def close(self):
        for d in self._tmp:
            shutil.rmtree(d, ignore_errors=True)
        self._tmp = []

    def __enter__(self):
        return self

    def __exit__(self, *a):
        self.close()


def build_many(batches, jobs=16):
    """builds the batches in parallel (threads; the work is in prophyc/g++ subprocesses);
    returns [(batch, None | BuildError | Exception)] in the input order"""
    def one(b):
        try:
            b.build()
            return (b, None)
        except Exception as e:  # BuildError included
            return (b, e)
    batches = list(batches)
    if not batches:
        return []
    if jobs >= 2 * len(batches):
        for b in batches:
            b.jobs_hint = max(b.jobs_hint or 1, 2)
    with ThreadPoolExecutor(max_workers=max(1, min(jobs, len(batches)))) as ex:
        return list(ex.map(one, batches))

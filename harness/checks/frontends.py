"""
C17: front-ends agree - isar (+patch) and prophy text give the same wire layout.

(a) the same abstract schema rendered in both syntaxes (greedy arrays via a patch file) through the
    real prophyc: node layouts (size, alignment, kind, per-member size / alignment / padding) and
    encodings through both generated Python modules;
(b) correspondence of the Lean model of isar.make_struct_members for every <dimension> form;
(c) random patch scripts: real patch.patch() vs the Lean model of the actions; a rule naming an
    absent message is ignored, a rule that cannot be applied fails the compilation.
"""
import os
import shutil
import tempfile

from harness import core
from harness.gen import schema as S, values as V, isar
from harness.impl import py_impl
from harness.model import client


def node_layout(nodes, name):
    import prophyc.model as M
    for n in nodes:
        if getattr(n, 'name', None) == name and isinstance(n, (M.Struct, M.Union)):
            out = {'size': n.byte_size, 'align': n.alignment, 'kind': n.kind}
            if isinstance(n, M.Struct):
                out['members'] = [(m.byte_size, m.alignment, m.padding) for m in n.members]
            else:
                out['members'] = [(m.byte_size, m.alignment, str(m.discriminator)) for m in n.members]
            return out
    return None


def pm_of_member(m):
    return {'name': m.name, 'type': m.type_name, 'bound': m.bound, 'size': None if m.size is None else str(m.size),
            'greedy': bool(m.greedy), 'optional': bool(m.optional)}


def calc_eval(text, env):
    """the integer prophyc itself computes for a size text"""
    import prophyc.calc
    return prophyc.calc.eval(text, dict(env))


def dimension_forms(rng):
    """one isar <member> per documented form: (xml, request for the model)"""
    forms = []
    name, typ = 'x', rng.choice(['u8', 'u16', 'u32', 'u64', 'i8'])
    for optional in (False, True):
        forms.append(({}, None, optional))
    for dim in ({'size': '3'}, {'size': '2', 'size2': '4'}, {'isVariableSize': 'true'}, {'isVariableSize': 'true', 'size': '5'},
                {'isVariableSize': 'true', 'variableSizeFieldType': 'u8'}, {'isVariableSize': 'true', 'variableSizeFieldName': 'cnt2', 'size': '2'},
                {'variableSizeFieldName': '@cnt'}, {'size': '4', 'variableSizeFieldName': '@cnt'}, {'size': '4', 'isVariableSize': 'true', 'variableSizeFieldName': '@cnt'},
                {'size': 'THIS_IS_VARIABLE_SIZE_ARRAY'}, {'size': 'K'},
                {'size': 'K+1', 'size2': '2'}, {'size': '2', 'size2': 'K-1'}, {'size': 'K_2', 'size2': '(K)'},
                {'size': '(K+1)+(K_2+1)', 'size2': '2'}, {'size': '2', 'size2': '(K)-(1)'}, {'size': '(K)*(2)+(1)', 'size2': '(K_2)'},
                {'size': '-(K)+(7)', 'size2': '(2)+(1)'},
                {'isVariableSize': 'false', 'size': '3'}, {'isVariableSize': '0', 'size': '3'}, {'isVariableSize': 'False', 'size': '4'},
                {'isVariableSize': ' TRUE ', 'size': '4'}, {'isVariableSize': '1'}, {'isVariableSize': ' 0', 'size': '2'},
                # neither true nor false: refused (D201)
                {'isVariableSize': 'yes', 'size': '4'}, {'isVariableSize': '', 'size': '4'}, {'isVariableSize': 'no', 'size': '4'}, {'isVariableSize': '00'}):
        forms.append((dim, dim, False))
    forms.append(({'size': '2'}, {'size': '2'}, True))
    return name, typ, forms


def member_xml(name, typ, dim, optional):
    attrs = ' optional="true"' if optional else ''
    if dim is None:
        return '<member name="%s" type="%s"%s/>' % (name, typ, attrs)
    d = ' '.join('%s="%s"' % kv for kv in dim.items())
    return '<member name="%s" type="%s"%s><dimension %s/></member>' % (name, typ, attrs, d)


def run_c17(tier):
    chk = core.Check('C17', tier)
    chk.rule = ('generated schemas expressible in both syntaxes (plain, optional, fixed / dynamic / limited / externally sized arrays, greedy '
                'arrays through a patch rule, unions, typedefs, enums) rendered as prophy text and as isar XML (+patch), both compiled by the '
                'real prophyc: layouts of every struct/union and encodings of random values through both generated modules; every '
                '<dimension> form through the real make_struct_members; random patch scripts through the real patch.patch(); rules for '
                'absent messages and inapplicable rules through the CLI. A case = one type (layout + values), one member form, or one patch script.')
    chk.lean = core.lean_obligations('C17', thorough=(tier == 'thorough'))
    root = tempfile.mkdtemp(prefix='prophy-verif-')
    try:
        import prophyc.model as M
        import prophyc.patch as P
        from prophyc.parsers.isar import IsarParser
        # (a) same schema, two front-ends
        for si in range(chk.scale(40, 400)):
            sc = S.Gen(chk.rng, n_decls=8, consts=True).schema()
            d = os.path.join(root, 'a%d' % si)
            os.makedirs(d)
            casej = {'prophy': S.to_prophy(sc)}
            try:
                pn, pmod = py_impl.compile_prophy(S.to_prophy(sc), d, 'p')
                xml = isar.to_isar(sc)
                casej['isar'] = xml
                xpath = os.path.join(d, 'x.xml')
                open(xpath, 'w').write(xml)
                args = ['--isar', '--python_out', d]
                patch = isar.patch_lines(sc)
                if patch:
                    ppath = os.path.join(d, 'patch.txt')
                    open(ppath, 'w').write('\n'.join(patch) + '\n')
                    args += ['--patch', ppath]
                    casej['patch'] = patch
                res, _ = py_impl.run_prophyc(args + [xpath])
                xn = res['x']
                xmod = py_impl.import_file(os.path.join(d, 'x.py'))
            except Exception as ex:  # noqa
                chk.count((casej['prophy'],))
                chk.property_violation(casej, {'what': 'a schema valid in both syntaxes failed to compile / import: %s: %s' % (type(ex).__name__, str(ex)[:300])})
                continue
            for name in S.type_names(sc):
                lp, lx = node_layout(pn, name), node_layout(xn, name)
                tcase = dict(casej, type=name)
                chk.count((casej['prophy'], name), True)
                chk.sample({'type': name, 'prophy_layout': lp, 'isar_layout': lx}, limit=2)
                if lp != lx:
                    chk.property_violation(tcase, {'what': 'wire layout differs between the front-ends', 'prophy': lp, 'isar': lx})
                    continue
                tp, tx = S.tree(sc, name), S.tree(sc, name, sizer=isar.isar_sizer)
                for _ in range(chk.scale(2, 4)):
                    v = V.gen_value(chk.rng, tp)
                    a, b = getattr(pmod, name)(), getattr(xmod, name)()
                    try:
                        V.apply(a, tp, v)
                        V.apply(b, tx, v)
                        ea, eb = a.encode('<'), b.encode('<')
                    except Exception as ex:  # noqa
                        chk.property_violation(tcase, {'what': 'value could not be set / encoded through one of the front-ends: %s' % py_impl.exc_class(ex), 'value': v})
                        continue
                    if ea != eb:
                        chk.property_violation(tcase, {'what': 'encodings differ between the front-ends', 'value': v, 'prophy': ea.hex(), 'isar': eb.hex()})
        # (b) <dimension> forms vs the model of make_struct_members
        reqs, rows = [], []
        position_free = {}
        for _ in range(chk.scale(10, 60)):
            name, typ, forms = dimension_forms(chk.rng)
            for dim_xml, dim_req, optional in forms:
                for message, trailing in ((False, False), (True, False), (False, True), (True, True)):
                    tag = 'message' if message else 'struct'
                    tail = '<member name="tail" type="u16"/>' if trailing else ''
                    xml = '<x><%s name="T"><member name="cnt" type="u32"/>%s%s</%s></x>' % (tag, member_xml(name, typ, dim_xml or None, optional), tail, tag)
                    try:
                        nodes = IsarParser().parse(xml, '', None)
                    except M.ModelError as ex:         # a designed refusal (IsarError): the model refuses the same descriptions
                        rows.append(({'xml': xml}, 'refused:' + str(ex)[:80]))
                        req = {'op': 'isar_members', 'name': name, 'type': typ, 'optional': optional, 'message': message, 'dim': dim_req}
                        reqs.append(req)
                        chk.count(('form', xml), True)
                        chk.bump('isar-form refused')
                        continue
                    impl = [pm_of_member(m) for m in (nodes[0].members[1:-1] if trailing else nodes[0].members[1:])]
                    # a member description denotes one layout, wherever the member stands in its struct / message
                    seen = position_free.setdefault((xml.replace(tail, '') if tail else xml), (impl, xml))
                    if seen[0] != impl:
                        chk.property_violation({'xml': xml, 'other_xml': seen[1]},
                                               {'what': 'the same isar member description yields different members depending on its position',
                                                'here': impl, 'there': seen[0]})
                    if dim_xml and 'size2' in dim_xml and len(impl) == 1 and impl[0].get('size'):
                        # what a two-dimensional array means: size x size2 elements, whatever the two expressions look like
                        env = {'K': 3, 'K_2': 5}
                        want = eval(dim_xml['size'], {}, env) * eval(dim_xml['size2'], {}, env)   # noqa: S307 (literals of dimension_forms)
                        try:
                            got = calc_eval(impl[0]['size'], env)
                        except Exception as ex:  # noqa
                            got = type(ex).__name__
                        if got != want:
                            chk.property_violation({'xml': xml, 'constants': env},
                                                   {'what': 'a %s x %s array has %s elements (size text %r); the prophy text `u8 x[%d]` has %d'
                                                    % (dim_xml['size'], dim_xml['size2'], got, impl[0]['size'], want, want)})
                    rows.append(({'xml': xml}, impl))
                    req = {'op': 'isar_members', 'name': name, 'type': typ, 'optional': optional, 'message': message}
                    if dim_req is not None:
                        req['dim'] = dim_req
                    reqs.append(req)
                    chk.count(('form', xml), True)
                    chk.bump('isar-form')
        # (c) patch scripts
        prow = []
        for _ in range(chk.scale(150, 1500)):
            n = chk.rng.randint(1, 5)
            members = []
            for i in range(n):
                kind = chk.rng.choice(['plain', 'plain', 'fixed', 'optional'] + (['dyn', 'limited'] if i else []))
                members.append(M.StructMember('m%d' % i, chk.rng.choice(['u8', 'u16', 'u32', 'u64']),
                                              size=str(chk.rng.randint(1, 3)) if kind in ('fixed', 'limited') else None,
                                              bound='m%d' % chk.rng.randrange(i) if kind in ('dyn', 'limited') else None,
                                              optional=(kind == 'optional')))
            before = [pm_of_member(m) for m in members]
            acts = []
            for _ in range(chk.rng.randint(1, 4)):
                names = ['m%d' % i for i in range(n)] + ['zz', 'new0']
                a = chk.rng.choice(['type', 'insert', 'remove', 'dynamic', 'greedy', 'static', 'limited', 'rename'])
                m = chk.rng.choice(names)
                if acts and acts[-1][0] == 'greedy' and chk.rng.random() < 0.5:
                    # a once-greedy member made an ordinary array again
                    a, m = chk.rng.choice(['static', 'dynamic']), acts[-1][1]
                if a == 'type':
                    acts.append([a, m, chk.rng.choice(['u8', 'i64'])])
                elif a == 'insert':
                    acts.append([a, str(chk.rng.choice([0, 1, 2, 999, -1, 10 ** 30, -10 ** 30])),
                                 chk.rng.choice(['new%d' % len(acts)] * 3 + names[:n]), 'u32'])     # sometimes a name that exists
                elif a in ('remove', 'greedy'):
                    acts.append([a, m])
                elif a in ('dynamic', 'limited'):
                    acts.append([a, m, chk.rng.choice(names)])
                elif a == 'static':
                    acts.append([a, m, chk.rng.choice(['1', '3', '0', '-2', 'K'])])
                else:
                    acts.append([a, m, chk.rng.choice(['r%d' % len(acts)] * 3 + names[:n])])
            node = M.Struct('T', members)
            try:
                P.patch([node], {'T': [P.Action(a[0], a[1:]) for a in acts]})
                impl = [pm_of_member(m) for m in node.members]
            except Exception as ex:  # noqa
                impl = 'error:' + type(ex).__name__
            prow.append(({'members': before, 'script': acts}, impl))
            reqs.append({'op': 'patch_apply', 'members': before, 'actions': acts})
            chk.count(('patch', str(before), str(acts)), True)
            chk.bump('patch-script')
        ans = client.batch(reqs)
        for (casej, impl), m in zip(rows + prow, ans):
            chk.corr_compared += 1
            if isinstance(impl, str) and impl.startswith('refused:'):
                if 'error' not in m:
                    chk.correspondence_mismatch('Patch.readFlag refuses what isar.flag refuses', casej, impl, m)
            elif isinstance(impl, str):
                if 'error' not in m:
                    chk.correspondence_mismatch('Patch.applyAll = patch.patch()', casej, impl, m)
                elif impl not in ('error:PatchError',):
                    chk.property_violation(casej, {'what': 'an inapplicable patch rule raised %s instead of the designed patch error' % impl})
            elif m.get('members') != impl:
                chk.correspondence_mismatch('Patch.isarMembers / applyAll = isar.make_struct_members / patch.patch()', casej, impl, m)
        cli_patch_rules(chk, root)
        patch_equivalences(chk, root)
    finally:
        shutil.rmtree(root, ignore_errors=True)
    return chk.finish()


def patch_equivalences(chk, root):
    """each documented patch rule applied to an isar struct gives the model of the prophy text the documentation
    describes (docs/other_schemas.rst): same members, same layout, same bytes for the default message"""
    import prophyc.model as M
    head = '<x><struct name="T"><member name="n" type="u32"/>'
    cases = [
        ('static on a variable-size array', head + '<member name="x" type="u16"><dimension isVariableSize="true"/></member></struct></x>',
         ['T static x 3'], 'struct T { u32 n; u32 x_len; u16 x[3]; };'),
        ('static on a limited array', head + '<member name="x" type="u8"><dimension isVariableSize="true" size="4"/></member><member name="t" type="u16"/></struct></x>',
         ['T static x 4'], 'struct T { u32 n; u32 x_len; u8 x[4]; u16 t; };'),
        ('static on an externally sized array', head + '<member name="x" type="u8"><dimension variableSizeFieldName="@n"/></member></struct></x>',
         ['T static x 2'], 'struct T { u32 n; u8 x[2]; };'),
        ('static on a scalar', head + '<member name="x" type="u16"/></struct></x>', ['T static x 3'], 'struct T { u32 n; u16 x[3]; };'),
        ('dynamic on a fixed array', head + '<member name="x" type="u16"><dimension size="2"/></member><member name="t" type="u8"/></struct></x>',
         ['T dynamic x n'], 'struct T { u32 n; u16 x<@n>; u8 t; };'),
        ('greedy on the last array', head + '<member name="x" type="u16"><dimension size="2"/></member></struct></x>',
         ['T greedy x'], 'struct T { u32 n; u16 x<...>; };'),
        ('type, insert, remove, rename', head + '<member name="a" type="u8"/><member name="b" type="u16"/></struct></x>',
         ['T type a u64', 'T insert 1 k u16', 'T remove b', 'T rename a aa'], 'struct T { u32 n; u16 k; u64 aa; };'),
        ('type on an optional member', head + '<member name="x" type="u16" optional="true"/><member name="t" type="u8"/></struct></x>',
         ['T type x u64'], 'struct T { u32 n; u64* x; u8 t; };'),
        ('type on a fixed and on a variable-size array', head + '<member name="x" type="u16"><dimension size="2"/></member><member name="y" type="u8"><dimension isVariableSize="true"/></member></struct></x>',
         ['T type x u32', 'T type y u16'], 'struct T { u32 n; u32 x[2]; u32 y_len; u16 y<@y_len>; };'),
        ('rename of an optional and an array', head + '<member name="x" type="u16" optional="true"/><member name="y" type="u8"><dimension size="3"/></member></struct></x>',
         ['T rename x xx', 'T rename y yy'], 'struct T { u32 n; u16* xx; u8 yy[3]; };'),
        ('insert at the front, in the middle, beyond the end', head + '<member name="a" type="u8"/></struct></x>',
         ['T insert 0 f u16', 'T insert 2 m u32', 'T insert 99 e u64'], 'struct T { u16 f; u32 n; u32 m; u8 a; u64 e; };'),
        ('dynamic then static', head + '<member name="x" type="u16"><dimension size="2"/></member></struct></x>',
         ['T dynamic x n', 'T static x 5'], 'struct T { u32 n; u16 x[5]; };'),
        ('greedy then static (the greedy flag must go: fixed by 45cc3f0)', head + '<member name="x" type="u16"><dimension size="2"/></member></struct></x>',
         ['T greedy x', 'T static x 3'], 'struct T { u32 n; u16 x[3]; };'),
        ('greedy then dynamic', head + '<member name="x" type="u16"><dimension size="2"/></member></struct></x>',
         ['T greedy x', 'T dynamic x n'], 'struct T { u32 n; u16 x<@n>; };'),
        ('isVariableSize="false" is a fixed array (D90)', head + '<member name="x" type="u16"><dimension size="3" isVariableSize="false"/></member></struct></x>',
         [], 'struct T { u32 n; u16 x[3]; };'),
        ('optional="1" and isVariableSize="1" are read by value, alike (D198)',
         head + '<member name="a" type="u8" optional="1"/><member name="b" type="u16"><dimension isVariableSize="1"/></member><member name="c" type="u8" optional=" True "/>'
         '<member name="d" type="u8" optional="0"/><member name="e" type="u8" optional="false"/></struct></x>',
         [], 'struct T { u32 n; u8* a; u32 b_len; u16 b<@b_len>; u8* c; u8 d; u8 e; };'),
        ('an array counted by @n is dynamic, whatever size attribute stands beside it (seeded C17-r8)',
         head + '<member name="x" type="u16"><dimension size="4" isVariableSize="true" variableSizeFieldName="@n"/></member><member name="t" type="u8"/></struct></x>',
         [], 'struct T { u32 n; u16 x<@n>; u8 t; };'),
        ('shiftLeft / bitMaskOr in an array size (D98)', head + '<member name="x" type="u8"><dimension size="shiftLeft(1,2)"/></member><member name="y" type="u8"><dimension size="bitMaskOr(1,2)"/></member></struct></x>',
         [], 'struct T { u32 n; u8 x[4]; u8 y[3]; };'),
        ('patch file saved with a byte order mark (D93)', head + '<member name="x" type="u16"/></struct></x>', ['\ufeffT static x 3'], 'struct T { u32 n; u16 x[3]; };'),
        ('enumerators sharing one value', '<x><enum name="E"><enum-member name="E_A" value="1"/><enum-member name="E_B" value="1"/></enum>'
         '<struct name="T"><member name="e" type="E"/></struct></x>', [], 'enum E { E_A = 1, E_B = 1 };\nstruct T { E e; };'),
        ('size and size2 expressions (parenthesised product: fixed by 2757209)',
         '<x><constant name="K" value="3"/><struct name="T"><member name="n" type="u32"/><member name="x" type="u8"><dimension size="K+1" size2="2"/></member>'
         '<member name="y" type="u8"><dimension size="2" size2="K+1"/></member></struct></x>',
         [], 'const K = 3;\nstruct T { u32 n; u8 x[8]; u8 y[8]; };'),
    ]
    for i, (note, xml, lines, text) in enumerate(cases):
        d = os.path.join(root, 'pe%d' % i)
        os.makedirs(d)
        casej = {'rule': note, 'xml': xml, 'patch': lines, 'prophy': text}
        chk.count(('patch-equivalence', note), True)
        chk.bump('patch-equivalence')
        try:
            pn, pmod = py_impl.compile_prophy(text + '\n', d, 'p')
            open(os.path.join(d, 'x.xml'), 'w').write(xml)
            open(os.path.join(d, 'patch.txt'), 'w').write('\n'.join(lines) + '\n')
            res, _ = py_impl.run_prophyc(['--isar', '--patch', os.path.join(d, 'patch.txt'), '--python_out', d, os.path.join(d, 'x.xml')])
            xn = res['x']
            xmod = py_impl.import_file(os.path.join(d, 'x.py'))
        except Exception as ex:  # noqa
            chk.property_violation(casej, {'what': 'compilation / import failed: %s: %s' % (type(ex).__name__, str(ex)[:300])},
                                   lambda c, dt: 'D117' if c['rule'] == 'enumerators sharing one value' and 'Duplicate Enum value' in dt['what'] else None)
            continue

        def members(nodes):
            node = next(n for n in nodes if getattr(n, 'name', None) == 'T')
            return [(m.name, m.type_name, m.bound, None if m.size is None else str(m.numeric_size), bool(m.greedy), bool(m.optional)) for m in node.members]
        if members(pn) != members(xn) or node_layout(pn, 'T') != node_layout(xn, 'T'):
            chk.property_violation(casej, {'what': 'isar + patch and the equivalent prophy text give different models',
                                           'isar_patch': members(xn), 'prophy': members(pn), 'layouts': [node_layout(xn, 'T'), node_layout(pn, 'T')]})
            continue
        try:
            ea, eb = pmod.T().encode('<'), xmod.T().encode('<')
        except Exception as ex:  # noqa
            chk.property_violation(casej, {'what': 'default message does not encode: %s' % py_impl.exc_class(ex)})
            continue
        if ea != eb:
            chk.property_violation(casej, {'what': 'default messages encode differently', 'prophy': ea.hex(), 'isar_patch': eb.hex()})


def cli_patch_rules(chk, root):
    """documented: 'If message is not found, compilation is still successful. If message is found but rule
    does not apply, compilation fails.'"""
    from harness.checks.files import run_cli
    d = os.path.join(root, 'cli')
    os.makedirs(d)
    xml = ('<x><struct name="A"><member name="n" type="u32"/><member name="a" type="u8"><dimension size="2"/></member><member name="b" type="u8"/></struct>'
           '<union name="U"><member name="a" type="u32" discriminatorValue="1"/><member name="b" type="u16" discriminatorValue="2"/></union>'
           '<struct name="D"><member name="n" type="u32"/><member name="d" type="u8"><dimension isVariableSize="true"/></member></struct></x>')
    open(os.path.join(d, 'a.xml'), 'w').write(xml)
    scripts = [
        (['Absent dynamic a n'], True), (['A dynamic a n'], True), (['A greedy b'], True), (['A limited a n'], True),
        (['A dynamic a missing'], False), (['A dynamic a b'], False), (['A greedy a'], False), (['A static a 0'], False),
        (['A limited b n'], False), (['A remove zz'], False), (['A type zz u8'], False), (['A frobnicate a'], False), (['A'], False),
        (['A rename a'], True), (['A insert x y z'], False),
        # 'limited: field needs to be a fixed array to begin with' - not a dynamic one, not a greedy one
        (['D limited d n'], False), (['A dynamic a n', 'A limited a n'], False), (['D greedy d', 'D limited d n'], False), (['D static d 3', 'D limited d n'], True),
        # a union turned into a struct is a struct for the rules (and the checks) that follow
        (['U struct'], True), (['U struct', 'U rename b c'], True), (['U struct', 'U rename b a'], False), (['U struct', 'U insert 0 b u8'], False),
        (['U struct', 'U insert 999 a u64', 'U static a 3'], False), (['U rename b a'], False), (['A rename b a'], False), (['A insert 0 b u8'], False),
    ]
    for i, (lines, should_pass) in enumerate(scripts):
        p = os.path.join(d, 'p%d.txt' % i)
        open(p, 'w').write('\n'.join(lines) + '\n')
        out = os.path.join(d, 'o%d' % i)
        os.makedirs(out)
        rc, so, se = run_cli(['--isar', '--patch', p, '--python_out', out, os.path.join(d, 'a.xml')], d)
        casej = {'xml': xml, 'patch': lines}
        chk.count(('cli', tuple(lines)), True)
        chk.bump('patch-cli')
        if should_pass:
            ok = rc == 0
            if ok:
                try:
                    py_impl.import_file(os.path.join(out, 'a.py'))
                except Exception as ex:  # noqa
                    ok = False
                    se = '%s: %s' % (type(ex).__name__, ex)
            if not ok:
                chk.property_violation(casej, {'what': 'an applicable patch script failed', 'stderr': se[:300]})
        else:
            if rc == 0:
                chk.property_violation(casej, {'what': 'a patch rule that cannot be applied did not fail the compilation'})
            elif 'Traceback' in se or not se.startswith('prophyc: error'):
                chk.property_violation(casej, {'what': 'an inapplicable patch rule failed outside the designed error channel', 'stderr': se[:300]})

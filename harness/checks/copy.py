"""
C11: copy_from yields an equal, fully independent message.  Pairs of values on real message
objects: state and encoding after b.copy_from(a), the aliasing graph (identities of every
mutable object reachable from either message), then random API mutations of either message;
extend() of composite arrays likewise.  Correspondence with the Lean model `Copy.copyFrom`.
"""
import json

from harness import core
from harness.gen import values as V
from harness.impl import py_impl
from harness.model import client
from harness.checks.pycorpus import Corpus
from harness.checks import api


def mutable_ids(msg, tree, out):
    """identities of the mutable objects reachable from a message: messages, their field dicts,
    array objects and their backing lists"""
    out.add(id(msg))
    if hasattr(msg, '_fields'):
        out.add(id(msg._fields))
    if tree['k'] == 'union':
        disc = msg.discriminator
        for arm in tree['arms']:
            if arm['d'] == disc and arm['t']['k'] in ('struct', 'union'):
                mutable_ids(getattr(msg, arm['n']), arm['t'], out)
        return
    sizers = V.sizer_names(tree)
    for m in tree['ms']:
        if m['n'] in sizers:
            continue
        mt, mk = m['t'], m['mk']
        x = getattr(msg, m['n'])
        if mk in ('fixed', 'dyn', 'limited', 'greedy') and mt['k'] != 'byte':
            out.add(id(x))
            out.add(id(x._values))
            if mt['k'] in ('struct', 'union'):
                for e in x:
                    mutable_ids(e, mt, out)
        elif mt['k'] in ('struct', 'union') and x is not None:
            mutable_ids(x, mt, out)


def make(c, v):
    m = c.cls()
    V.apply(m, c.tree, v)
    return m


def mutate(chk, c, msg, mod, n=4):
    """a few random successful API operations"""
    done = 0
    state = V.readback(msg, c.tree)
    for _ in range(n * 4):
        op = api.gen_op(chk.rng, c.tree, state)
        if op is None:
            continue
        if api.run_op(msg, c.tree, op, mod) is None:
            new = V.readback(msg, c.tree)
            if new != state:
                done += 1
                state = new
                if done >= n:
                    break
    return done


def build_unread(chk, c, mod, n=5):
    """a message built through the API only (discriminator switches, optional sets, array growth ...) whose attributes
    are never read and which is never encoded before it is copied: the operations are mirrored on a twin, and only
    the twin is read (reading or encoding a message materialises default sub-objects and would hide lazy-copy bugs)"""
    a, twin = c.cls(), c.cls()
    state = V.readback(twin, c.tree)
    done = 0
    for _ in range(n * 4):
        op = api.gen_op(chk.rng, c.tree, state)
        if op is None:
            continue
        if api.run_op(twin, c.tree, op, mod) is None:
            api.run_op(a, c.tree, op, mod)
            new = V.readback(twin, c.tree)
            if new != state:
                done += 1
                state = new
                if done >= n:
                    break
    return a, state


def across_holders(chk, workdir):
    """messages of ONE type held in different places (optional fields of two structs, plain field, array element, free-standing):
    copy_from must work between any two of them (the value of an optional field is an instance of a per-field subclass: D82)"""
    import os
    text = ('struct Hdr { u32 id; u8 tag<>; };\nunion Un { 1: u8 a; 2: u32 b; };\nstruct Fix { u32 id; };\n'
            'struct Req { Fix* hdr; Fix plain; Un* un; };\nstruct Resp { Fix* hdr; Fix* hdr2; Fix items<>; Un* un; Un u; };\n')
    _, mod = py_impl.compile_prophy(text, os.path.join(workdir, 'holders'), 'holders')
    req, resp = mod.Req(), mod.Resp()
    req.hdr = True
    req.hdr.id = 9
    req.plain.id = 10
    resp.hdr = True
    resp.hdr2 = True
    resp.hdr2.id = 11
    resp.items.add().id = 12
    free = mod.Fix()
    free.id = 13
    sources = [('optional field of another struct', req.hdr), ('another optional field of the same struct', resp.hdr2), ('free-standing message', free),
               ('plain field', req.plain), ('array element', resp.items[0])]
    targets = [('optional field', lambda: resp.hdr), ('plain field', lambda: req.plain), ('array element', lambda: resp.items[0]), ('free-standing message', lambda: free)]
    for sname, src in sources:
        for tname, get in targets:
            dst = get()
            if dst is src:
                continue
            want = src.id
            casej = {'schema': text, 'operation': '%s .copy_from( %s )' % (tname, sname)}
            chk.count(('holders', sname, tname), True)
            chk.bump('directed:copy between holders')
            try:
                dst.copy_from(src)
            except Exception as ex:  # noqa
                chk.property_violation(casej, {'what': 'copy_from between two messages of one type raised %s: %s' % (py_impl.exc_class(ex), str(ex)[:120])})
                continue
            if get().id != want or src.id != want or get().encode('<') != src.encode('<'):
                chk.property_violation(casej, {'what': 'after copy_from the two messages differ', 'ids': [get().id, src.id]})
    # the library's own `==` on the copied composite array (compares elements by identity: known finding D141)
    other = mod.Resp()
    other.copy_from(resp)
    chk.count(('holders', 'array =='), True)
    if not (other.items == resp.items) or (other.items != resp.items):
        chk.property_violation({'schema': text, 'operation': 'other.copy_from(resp); other.items == resp.items'},
                               {'what': 'the copied composite array does not compare equal to its source (fields, str() and encodings do)',
                                'encodings_equal': other.encode('<') == resp.encode('<')},
                               lambda c, dt: 'D141' if dt.get('encodings_equal') else None)
    # unions held by optional fields
    req.un = True
    req.un.discriminator = 2
    req.un.b = 77
    resp.un = True
    for tname, get in (('optional union field', lambda: resp.un), ('plain union field', lambda: resp.u)):
        casej = {'schema': text, 'operation': '%s .copy_from( optional union field of another struct )' % tname}
        chk.count(('holders-union', tname), True)
        try:
            get().copy_from(req.un)
            if get().b != 77:
                chk.property_violation(casej, {'what': 'after copy_from the unions differ'})
        except Exception as ex:  # noqa
            chk.property_violation(casej, {'what': 'copy_from between two unions of one type raised %s: %s' % (py_impl.exc_class(ex), str(ex)[:120])})


def run_c11(tier):
    chk = core.Check('C11', tier)
    chk.rule = ('for every message type several pairs (a, b) of random values (absent / present optional composites, limited and dynamic '
                'composite arrays, every union arm, shared sizers); b.copy_from(a) on the real objects: field values (attribute reads) and '
                'encodings of both, identities of all reachable mutable objects; then successful random API mutations of a (b must not '
                'change) and of b (a must not change); composite arrays: extend() by messages then mutation of the originals; '
                'a case = (type, a, b); non-trivial = a holds a nested message or an array.')
    chk.lean = core.lean_obligations('C11', thorough=(tier == 'thorough'))
    corpus = Corpus(chk, chk.scale(40, 400), dict(n_decls=8, floats=False, shifts=True))
    try:
        reqs = corpus.deft_requests()
        nd = len(reqs)
        rows = []
        for c in corpus.types:
            if '"r32"' in json.dumps(c.tree) or '"r64"' in json.dumps(c.tree):
                continue
            mod = corpus.mods[c.sidx]
            for _ in range(chk.scale(4, 10)):
                av, bv = V.gen_value(chk.rng, c.tree), V.gen_value(chk.rng, c.tree)
                casej = {'schema': c.text, 'type': c.name, 'a': av, 'b_before': bv}
                js = json.dumps(av)
                chk.count((c.tree, av, bv), '[' in js[1:] or '"s"' in js[5:] or '"u"' in js)
                a, b = make(c, av), make(c, bv)
                a_state, a_enc = V.readback(a, c.tree), None
                try:
                    a_enc = a.encode('<')
                except Exception:  # noqa  (arrays sharing a sizer may differ in length)
                    pass
                try:
                    b.copy_from(a)
                except Exception as ex:  # noqa
                    chk.property_violation(casej, {'what': 'copy_from raised %s: %s' % (py_impl.exc_class(ex), str(ex)[:200])})
                    continue
                b_state = V.readback(b, c.tree)
                chk.sample({'type': c.name, 'a': av, 'b_before': bv, 'b_after': b_state})
                if b_state != a_state:
                    chk.property_violation(casej, {'what': 'after b.copy_from(a) the field values differ', 'a': a_state, 'b': b_state})
                    continue
                if V.readback(a, c.tree) != a_state:
                    chk.property_violation(casej, {'what': 'copy_from changed its source', 'before': a_state, 'after': V.readback(a, c.tree)})
                if a_enc is not None and b.encode('<') != a_enc:
                    chk.property_violation(casej, {'what': 'encodings differ after copy_from', 'a': a_enc.hex(), 'b': b.encode('<').hex()})
                ia, ib = set(), set()
                mutable_ids(a, c.tree, ia)
                mutable_ids(b, c.tree, ib)
                shared = bool(ia & ib)
                if shared:
                    chk.property_violation(casej, {'what': 'a and b share %d mutable object(s) after copy_from' % len(ia & ib)})
                # later mutations of either leave the other untouched
                if mutate(chk, c, a, mod):
                    if V.readback(b, c.tree) != b_state:
                        chk.property_violation(casej, {'what': 'mutating the source changed the copy', 'copy_before': b_state, 'copy_after': V.readback(b, c.tree)})
                a_state2 = V.readback(a, c.tree)
                if mutate(chk, c, b, mod):
                    if V.readback(a, c.tree) != a_state2:
                        chk.property_violation(casej, {'what': 'mutating the copy changed the source'})
                rows.append((casej, b_state, shared))
                reqs.append({'op': 'py_copy', 't': c.tid, 'v': av})
            # sources that were built by operations only and never read before the copy
            for _ in range(chk.scale(3, 8)):
                a, want = build_unread(chk, c, mod)
                b = make(c, V.gen_value(chk.rng, c.tree)) if chk.rng.random() < 0.5 else c.cls()
                casej = {'schema': c.text, 'type': c.name, 'a': want, 'built': 'by API operations, never read before the copy'}
                chk.count((c.tree, json.dumps(want, sort_keys=True, default=str), 'unread'), True)
                chk.bump('unread-source')
                try:
                    b.copy_from(a)
                except Exception as ex:  # noqa
                    chk.property_violation(casej, {'what': 'copy_from raised %s: %s' % (py_impl.exc_class(ex), str(ex)[:200])})
                    continue
                b_state, a_state = V.readback(b, c.tree), V.readback(a, c.tree)
                if b_state != want or a_state != want:
                    chk.property_violation(casej, {'what': 'after b.copy_from(a) the field values differ', 'a': a_state, 'b': b_state, 'expected': want})
            # extend() of composite arrays copies the elements
            if c.tree['k'] == 'struct':
                for i, m in enumerate(c.tree['ms']):
                    if m['mk'] in ('dyn', 'limited', 'greedy') and m['t']['k'] in ('struct', 'union'):
                        holder = c.cls()
                        arr = getattr(holder, m['n'])
                        elems = []
                        for _ in range(2):
                            e = getattr(mod, m['t']['name'])()
                            V.apply(e, m['t'], V.gen_value(chk.rng, m['t'], max_len=2))
                            elems.append(e)
                        given = elems[:1] if m['mk'] == 'limited' and m['size'] < 2 else elems
                        # the messages come as a list, a tuple, or a one-shot iterator / generator
                        how = chk.rng.choice(['list', 'tuple', 'iterator', 'generator'])
                        source = {'list': list, 'tuple': tuple, 'iterator': iter, 'generator': lambda xs: (x for x in xs)}[how](given)
                        want = [V.readback(e, m['t']) for e in given]
                        try:
                            arr.extend(source)
                        except Exception as ex:  # noqa
                            chk.property_violation({'schema': c.text, 'type': c.name, 'member': m['n']}, {'what': 'extend raised %s' % py_impl.exc_class(ex)})
                            continue
                        before = [V.readback(x, m['t']) for x in arr]
                        chk.bump('extend-from:' + how)
                        if before != want:
                            chk.property_violation({'schema': c.text, 'type': c.name, 'member': m['n'], 'given_as': how},
                                                   {'what': 'extend() did not store copies of the messages it was given', 'given': want, 'stored': before})
                        ids_arr, ids_src = set(), set()
                        for x in arr:
                            mutable_ids(x, m['t'], ids_arr)
                        ec = type('E', (), {'tree': m['t'], 'cls': getattr(mod, m['t']['name'])})
                        for e in elems:
                            mutable_ids(e, m['t'], ids_src)
                            mutate(chk, ec, e, mod, n=2)
                        chk.count(('extend', c.tree, m['n'], json.dumps(before)), True)
                        chk.bump('extend-checked')
                        if ids_arr & ids_src:
                            chk.property_violation({'schema': c.text, 'type': c.name, 'member': m['n']}, {'what': 'extend() stored the very objects it was given'})
                        elif [V.readback(x, m['t']) for x in arr] != before:
                            chk.property_violation({'schema': c.text, 'type': c.name, 'member': m['n']}, {'what': 'mutating the originals changed the elements copied by extend()'})
        across_holders(chk, corpus.workdir)
        ans = client.batch(reqs)[nd:]
        for (casej, b_state, shared), m in zip(rows, ans):
            chk.corr_compared += 1
            if (m['val'], m['shared']) != (b_state, shared):
                chk.correspondence_mismatch('Copy.copyFrom = copy_from (value and sharing)', casej, {'val': b_state, 'shared': shared}, m)
    finally:
        corpus.close()
    return chk.finish()

"""
C03 (wire compatibility Python <-> C++), C05 (get_byte_size = bytes written, in bounds),
C07 (C++ decode memory-safe and exact on arbitrary bytes), C18 (text rendering Python = C++)
on generated C++ full codecs compiled with g++ + ASan/UBSan, against the Spec (property
oracles) and against the Lean model of the generated code (correspondence).
"""
import json

from harness import core
from harness.gen import values as V
from harness.impl import cpp_full
from harness.model import client
from harness.checks.cppcorpus import CppCorpus
from harness.checks.pycodec import encode_impl, malformed_stream, mirror_ok

E_NAME = {'<': 'little', '>': 'big'}


def traits(corpus):
    ans = client.batch(corpus.deft_requests() + [{'op': 'cpp_traits', 't': c.tid} for c in corpus.types])
    return {c.tid: a for c, a in zip(corpus.types, ans[len(corpus.types):])}


def d4(trait_of):
    """known finding D4: optional<T> padded to the C++ alignment of T's class (a struct holding a limited array)"""
    def classify(case, detail):
        return 'D4' if trait_of.get(case.get('tid'), {}).get('opt_misaligned') else None
    return classify


# hand-made batches for directed cases (cppcorpus.CppCorpus(extra=...)): elements of a large fixed wire size, the enum
# sanitizer switched on (the generic streams run without it: see D61), buffers that do not start on an aligned address
DIRECTED_BIG = ('struct BigItem { u64 s[2048]; };\nstruct BigItems { BigItem items<>; };\nstruct BigWords { u16 n; u64 w<@n>; };\n', 'dbig', None)
DIRECTED_BIGDYN = ('struct DItem { u64 s[8192]; u8 t<>; };\nstruct DMsg { DItem items<>; };\n', 'dbigdyn', None)
DIRECTED_ENUM = ('enum DE { DE_A = 0, DE_B = 1 };\nunion DU { 0: u8 a; 1: u32 b; };\nstruct DM { DE e; u32 z; };\n', 'denum',
                 [f for f in cpp_full.SAN_FLAGS if f != '-fno-sanitize=enum'])
DIRECTED_ALIGN = ('struct DA { u8 n; u8 x<@n>; u32 y; };\nstruct DB { bytes a<>; u32 b; };\nstruct DC { u16 a; u64 b; };\n', 'dalign', None)


# (enumerators named native / little / big are refused by the C++ generators since 633258e: see checks/accept.py DIRECTED)
DIRECTED_NAMES = ('struct DCnt { u32 decode; u8 a<@decode>; u16 copy_from; bytes b<@copy_from>; u8 z; };\n', 'dnames', None)


def captured_enumerator(tree):
    """an enumerator named like a name the generated printer finds first (prophy::native / little / big of endianness.hpp): finding D114"""
    if tree['k'] == 'enum':
        return any(n in ('native', 'little', 'big') for n, _ in tree['es'])
    if tree['k'] == 'struct':
        return any(captured_enumerator(m['t']) for m in tree['ms'])
    if tree['k'] == 'union':
        return any(captured_enumerator(a['t']) for a in tree['arms'])
    return False


def zero_filled_enum_array(tree):
    """a fixed array of an enum whose first enumerator is not 0: the generated constructor value-initialises the elements to 0,
    the Python default (and a plain enum member in C++) is the first enumerator (finding D115)"""
    if tree['k'] == 'struct':
        return any((m['mk'] == 'fixed' and m['t']['k'] == 'enum' and m['t']['es'] and m['t']['es'][0][1] != 0) or zero_filled_enum_array(m['t']) for m in tree['ms'])
    if tree['k'] == 'union':
        return bool(tree['arms']) and zero_filled_enum_array(tree['arms'][0]['t'])
    return False


def classify_c18(case, detail):
    if detail.get('captured_enumerator'):
        return 'D114'
    if case.get('built') == 'default-constructed in both languages' and detail.get('zero_filled_enum_array'):
        return 'D115'
    return None


def classify_directed(case, detail):
    """D61: a corrupted enum / discriminator value is loaded into a C++ enum that cannot represent it (UBSan -fsanitize=enum);
    D62: the codec pads by rounding absolute addresses: buffers that do not start on an aligned address"""
    if case.get('directed') == 'denum' and 'not a valid value for type' in str(detail.get('fault')):
        return 'D61'
    if case.get('directed') == 'dalign' and (case.get('off') or case.get('eoff')):
        return 'D62'
    if case.get('directed') == 'dbigdyn' and 'bytes of memory' in detail.get('what', ''):
        return 'D122'     # the counter guard knows no minimal wire size of an element of dynamic size
    if case.get('directed') == 'small-stack' and case.get('std') == 'c++98' and detail.get('passed') and detail.get('rc') == -11:
        return 'D179'     # before C++11 vector::resize(n) is resize(n, T()): an element-sized temporary on the stack (optional and greedy are repaired)
    return None


def gen_cases(chk, corpus, per_type, max_len=4):
    cases = []
    for c in corpus.plain_types:
        vals = [V.default_value(c.tree)] + [V.gen_value(chk.rng, c.tree, max_len=max_len) for _ in range(per_type)]
        for v in vals:
            cases.append((c, v))
    return cases


def has_float(t):
    return '"r32"' in json.dumps(t) or '"r64"' in json.dumps(t)


def to_cpp_val(t, v):
    """the C++ model's value of `v` (same trees; floats as bits; bytes stay bytes)"""
    return v


def run_c03(tier):
    chk = core.Check('C03', tier)
    chk.rule = ('generated schemas (one array per sizer, discriminators < 2^31) compiled by the real prophyc to Python and to the C++ full '
                'codec (g++, ASan+UBSan); a case = (type, value with the greedy tail ending aligned, byte order); the canonical bytes '
                '(Spec.enc from the Lean driver, and the bytes the real Python codec produced) are decoded by the real C++ decode<E>, '
                're-encoded with encode<little|big|native>() and compared; non-trivial = encoding contains padding or a nested composite.')
    chk.lean = core.lean_obligations('C03', thorough=(tier == 'thorough'))
    corpus = CppCorpus(chk, chk.scale(5, 40))
    try:
        corpus.report_build_errors()
        tr = traits(corpus)
        cases = gen_cases(chk, corpus, chk.scale(4, 8))
        reqs = corpus.deft_requests()
        nd = len(reqs)
        rows = []
        for c, v in cases:
            for e in ('<', '>'):
                _, py = encode_impl(c, v, e)
                rows.append((c, v, e, py))
                reqs.append({'op': 'spec_enc', 't': c.tid, 'v': v, 'e': e})
                reqs.append({'op': 'spec_chunks', 't': c.tid, 'v': v})
                reqs.append({'op': 'cpp_encode', 't': c.tid, 'v': v, 'e': e})
        ans = client.batch(reqs)[nd:]
        creqs, meta = [], []
        for i, (c, v, e, py) in enumerate(rows):
            spec, gal, model_enc = ans[3 * i]['bytes'], ans[3 * i + 1]['gal'], ans[3 * i + 2]
            datas = [('spec', spec)]
            if py.get('bytes') not in (None, spec):
                datas.append(('python', py['bytes']))
            for src, data in datas:
                creqs.append((c, {'op': 'decode', 'e': E_NAME[e], 'data': data}))
                meta.append((c, v, e, src, data, gal, model_enc))
            if e == '<':
                creqs.append((c, {'op': 'decode', 'e': 'native', 'data': spec}))
                meta.append((c, v, 'native', 'spec', spec, gal, model_enc))
        out = corpus.run(creqs)
        mreqs = corpus.deft_requests()
        nd = len(mreqs)
        for (c, v, e, src, data, gal, model_enc), o in zip(meta, out):
            mreqs.append({'op': 'cpp_decode', 't': c.tid, 'data': data, 'e': '<' if e in ('<', 'native') else '>'})
        mans = client.batch(mreqs)[nd:]
        for (c, v, e, src, data, gal, model_enc), o, m in zip(meta, out, mans):
            casej = {'schema': c.text, 'type': c.name, 'value': v, 'endianness': e, 'bytes_from': src, 'data': data, 'tid': c.tid}
            nontrivial = '00' in data
            chk.count((c.tree, v, e, src), nontrivial and gal)
            chk.sample({'type': c.name, 'value': v, 'endianness': e, 'data': data, 'cpp': {k: o.get(k) for k in ('ok', 'enc_little', 'enc_big', 'fault')}})
            if not gal:
                chk.bump('greedy-tail-unaligned (excluded)')
            key = {'<': 'enc_little', '>': 'enc_big', 'native': 'enc_native'}[e]
            if gal:
                if o.get('fault'):
                    chk.property_violation(casej, {'what': 'C++ decode/encode faulted on canonical bytes', 'fault': o['fault']}, d4(tr))
                elif not o.get('ok'):
                    chk.property_violation(casej, {'what': 'C++ decode rejected the canonical bytes', 'cpp': o}, d4(tr))
                elif o.get(key) != data:
                    chk.property_violation(casej, {'what': 'C++ encode of the decoded object differs from the canonical bytes', 'cpp_bytes': o.get(key)}, d4(tr))
                elif e == 'native' and o.get('enc_native') != o.get('enc_little'):
                    chk.property_violation(casej, {'what': "'native' differs from the host order (little)", 'cpp': o})
                elif e in ('<', 'native') and o.get('ptr_bytes') is not None and o['ptr_bytes'] != data and not o.get('overrun'):
                    # encode(void*) into a buffer pre-filled with 0xAA: every byte of the canonical encoding has to be written
                    pb = o['ptr_bytes']
                    only_gaps = len(pb) == len(data) and all(pb[i:i + 2] == data[i:i + 2] or (pb[i:i + 2] == 'aa' and data[i:i + 2] == '00')
                                                             for i in range(0, len(data), 2))
                    chk.property_violation(casej, {'what': 'encode(void*) into a buffer that is not zero-filled does not give the canonical bytes',
                                                   'ptr_bytes (buffer pre-filled with aa)': pb, 'only_unwritten_padding': only_gaps},
                                           (lambda cc, dd: 'D121' if dd.get('only_unwritten_padding') else None) if not tr.get(c.tid, {}).get('opt_misaligned') else d4(tr))
            # correspondence with the model of the generated code
            chk.corr_compared += 1
            impl_outcome = 'fault' if o.get('fault') else 'exception' if o.get('exception') else 'accepted' if o.get('ok') else 'rejected'
            if impl_outcome == 'fault' and 'misaligned address' in str(o.get('fault')) and tr.get(c.tid, {}).get('opt_misaligned'):
                chk.bump('D4: misaligned native access (UBSan) - outcome not compared with the model')
            elif impl_outcome != m['outcome']:
                chk.correspondence_mismatch('Cpp.decode outcome = generated decode', casej, o, m)
            elif impl_outcome == 'accepted' and src == 'spec' and e != 'native':
                want = {'size': o.get('size'), 'ptr_written': o.get('ptr_written'), 'vec': o.get(key) if not o.get('enc_skipped') else 'fault'}
                got = {'size': model_enc['size'], 'ptr_written': model_enc['ptr_written'], 'vec': model_enc['vec']}
                if V.canon(c.tree, m.get('val')) == V.canon(c.tree, v) and want != got:
                    chk.correspondence_mismatch('Cpp.encodeVec/getByteSize = generated encode/get_byte_size', casej, want, got)
    finally:
        corpus.close()
    return chk.finish()


def cpp_default_elem(t):
    """value-initialised element of a std::vector<T> / array<T, n>: an enum element becomes 0 (only a plain enum
    member gets its first enumerator from the generated constructor); structs are default-constructed recursively"""
    if t['k'] == 'enum':
        return 0
    return cpp_default_fix(t, V.default_value(t))


def cpp_default_fix(t, v):
    if t['k'] != 'struct':
        return v
    out = []
    for m, x in zip(t['ms'], v['s']):
        mt = m['t']
        if m['mk'] == 'fixed' and mt['k'] == 'enum':
            out.append([0 for _ in x])
        elif m['mk'] == 'fixed' and mt['k'] == 'struct':
            out.append([cpp_default_fix(mt, e) for e in x])
        elif m['mk'] == 'plain' and mt['k'] == 'struct':
            out.append(cpp_default_fix(mt, x))
        else:
            out.append(x)
    return {'s': out}


def grow_value(t, v, grow):
    out = []
    for m, x in zip(t['ms'], v['s']):
        if m['n'] in grow:
            k = grow[m['n']]
            if m['t']['k'] == 'byte':
                out.append({'b': x['b'] + '00' * k})
            else:
                out.append(list(x) + [cpp_default_elem(m['t']) for _ in range(k)])
        else:
            out.append(x)
    return {'s': out}


def run_c05(tier):
    chk = core.Check('C05', tier)
    chk.rule = ('C++ objects are obtained by decoding canonical bytes of random values and then growing top-level vectors (limited arrays '
                'beyond their limit, dynamic and greedy arrays) by 0-5 value-initialised elements; a case = (type, object); observed on the '
                'real generated code under ASan/UBSan: get_byte_size(), return of encode(void*) into a sentinel-filled over-allocation, '
                'size of encode() vectors, encoded_byte_size; non-trivial = object with a non-empty array or a grown vector.')
    chk.lean = core.lean_obligations('C05', thorough=(tier == 'thorough'))
    corpus = CppCorpus(chk, chk.scale(5, 40), extra=[DIRECTED_ALIGN])
    try:
        corpus.report_build_errors()
        tr = traits(corpus)
        cases = gen_cases(chk, corpus, chk.scale(4, 8), max_len=5)
        reqs = corpus.deft_requests()
        nd = len(reqs)
        rows = []
        for c, v in cases:
            grow = {}
            if c.tree['k'] == 'struct' and chk.rng.random() < 0.6:
                for m in c.tree['ms']:
                    if m['mk'] in ('dyn', 'limited', 'greedy') and chk.rng.random() < 0.6:
                        grow[m['n']] = chk.rng.randint(1, 5)
            narrow = narrow_counted(c.tree)
            if narrow and chk.rng.random() < 0.5:
                # a std::vector can hold more than its counter's type can count (C++ has no API limit): finding D51
                name, cap = chk.rng.choice(narrow)
                idx = [m['n'] for m in c.tree['ms']].index(name)
                grow[name] = cap + 1 + chk.rng.randint(0, 3) - len(v['s'][idx] if not isinstance(v['s'][idx], dict) else bytes.fromhex(v['s'][idx]['b']))
            v2 = grow_value(c.tree, v, grow) if grow else v
            rows.append((c, v, grow, v2))
            reqs.append({'op': 'spec_enc', 't': c.tid, 'v': v, 'e': '<'})
            reqs.append({'op': 'cpp_encode', 't': c.tid, 'v': v2, 'e': '<'})
            reqs.append({'op': 'spec_chunks', 't': c.tid, 'v': v})
        ans = client.batch(reqs)[nd:]
        # the object is built by decoding canonical bytes: only values whose greedy tail ends aligned decode to themselves
        keep = [i for i in range(len(rows)) if ans[3 * i + 2]['gal']]
        chk.bump('greedy-tail-unaligned (not used to build objects)', len(rows) - len(keep))
        rows = [rows[i] for i in keep]
        ans = [a for i in keep for a in ans[3 * i:3 * i + 2]]
        creqs = [(c, dict({'op': 'decode', 'e': 'little', 'data': ans[2 * i]['bytes']}, **({'grow': grow} if grow else {})))
                 for i, (c, v, grow, v2) in enumerate(rows)]
        out = corpus.run(creqs)
        for i, ((c, v, grow, v2), o) in enumerate(zip(rows, out)):
            model = ans[2 * i + 1]
            casej = {'schema': c.text, 'type': c.name, 'value': v, 'grow': grow, 'tid': c.tid}
            chk.count((c.tree, v, sorted(grow.items())), bool(grow) or '[' in json.dumps(v))
            chk.bump('grown' if grow else 'as-decoded')
            chk.sample({'type': c.name, 'value': v2, 'cpp': {k: o.get(k) for k in ('size', 'ptr_written', 'overrun', 'encoded_byte_size', 'fault')}})
            if o.get('fault'):
                chk.property_violation(casej, {'what': 'generated code faulted', 'fault': o['fault']}, d4(tr))
                continue
            if not o.get('ok'):
                # the object could not be constructed from canonical bytes: a C03 matter
                chk.bump('decode-rejected (see C03)')
                continue
            size = o['size']
            if o.get('overrun') or o['ptr_written'] > size:
                chk.property_violation(casej, {'what': 'encode(void*) writes outside get_byte_size() bytes', 'cpp': o}, d4(tr))
            elif o['ptr_written'] != size:
                chk.property_violation(casej, {'what': 'get_byte_size() = %d but encode(void*) returned %d' % (size, o['ptr_written']),
                                               'cpp': {k: o.get(k) for k in ('size', 'ptr_written', 'overrun')}, 'over_counter': over_counter(c.tree, v2)},
                                       classify_c05(tr))
            elif any(len(o[k]) // 2 != size for k in ('enc_little', 'enc_big', 'enc_native') if k in o):
                chk.property_violation(casej, {'what': 'encode() vector length differs from get_byte_size()', 'cpp': o})
            elif o['encoded_byte_size'] != -1 and o['encoded_byte_size'] != size:
                chk.property_violation(casej, {'what': 'encoded_byte_size %d differs from get_byte_size() %d of a fixed type' % (o['encoded_byte_size'], size)})
            chk.corr_compared += 1
            # the pointer encoder's bytes on a zero-filled buffer: the model lists the bytes up to the returned pointer,
            # the harness the whole get_byte_size() buffer - beyond the shorter of the two only zeros may follow
            ipz, mpz = o.get('ptr_bytes_zero') or '', model['ptr_bytes_zero']
            k = min(len(ipz), len(mpz))
            rest_zero = set(ipz[k:]) <= {'0'} and set(mpz[k:]) <= {'0'}
            want = {'size': size, 'ptr_written': o['ptr_written'], 'vec': o.get('enc_little') if not o.get('enc_skipped') else 'fault',
                    'ptr_bytes_zero': ipz[:k], 'rest_zero': True}
            got = {'size': model['size'], 'ptr_written': model['ptr_written'], 'vec': model['vec'],
                   'ptr_bytes_zero': mpz[:k], 'rest_zero': rest_zero}
            if want != got:
                chk.correspondence_mismatch('Cpp.encodePtr/encodeVec/getByteSize = generated encode/get_byte_size', casej, want, got)
        # destinations of encode(void*) at every offset from an aligned address (known finding D62 unless the offset is a multiple of 8)
        le = lambda n, k=4: n.to_bytes(k, 'little')   # noqa: E731
        by_name = {c.name: c for c in corpus.types if c.directed}
        dcases = [(name, data, eoff) for name, data in (('DA', bytes.fromhex('03010203') + le(42)), ('DA', bytes.fromhex('00000000') + le(42)),
                                                        ('DB', le(1) + bytes.fromhex('07000000') + le(42)), ('DC', bytes.fromhex('0100000000000000') + le(7, 8)))
                  for eoff in range(8)]
        out = corpus.run([(by_name[n], {'op': 'decode', 'e': 'little', 'data': d.hex(), 'eoff': eoff}) for n, d, eoff in dcases])
        for (n, d, eoff), o in zip(dcases, out):
            casej = {'schema': by_name[n].text, 'type': n, 'object decoded from': d.hex(), 'directed': 'dalign', 'eoff': eoff}
            chk.count((n, d.hex(), eoff), True)
            chk.bump('directed:encode-destination-offset')
            if o.get('fault'):
                chk.property_violation(casej, {'what': 'generated code faulted', 'fault': o['fault']}, classify_directed)
            elif not o.get('ok'):
                chk.property_violation(casej, {'what': 'canonical bytes in an aligned buffer were rejected'})
            elif o.get('overrun') or o['ptr_written'] != o['size']:
                chk.property_violation(casej, {'what': 'get_byte_size() = %d, encode(void*) returned %d%s' % (
                    o['size'], o['ptr_written'], ' and wrote outside the buffer' if o.get('overrun') else '')}, classify_directed)
    finally:
        corpus.close()
    return chk.finish()


def narrow_counted(tree):
    """top-level dynamic arrays counted by a u8 / i8 member: [(member name, greatest countable length)]"""
    out = []
    if tree['k'] != 'struct':
        return out
    for m in tree['ms']:
        if m['mk'] == 'dyn' and 'sizer' in m:
            sm = next((x for x in tree['ms'] if x['n'] == m['sizer']), None)
            if sm is not None and sm['t'].get('p') in ('u8', 'i8') and m['t']['k'] in ('prim', 'byte', 'enum'):
                out.append((m['n'], 255))
    return out


def over_counter(tree, v):
    """does a top-level counted array hold more elements than its counter's type can represent?"""
    for name, cap in narrow_counted(tree):
        idx = [m['n'] for m in tree['ms']].index(name)
        x = v['s'][idx]
        if (len(x['b']) // 2 if isinstance(x, dict) else len(x)) > cap:
            return True
    return False


def classify_c05(tr):
    """D51: an array longer than its counter can count - get_byte_size counts every element, encode writes CT(size()) of them; else D4"""
    d4c = d4(tr)

    def classify(case, detail):
        if detail.get('over_counter'):
            return 'D51'
        return d4c(case, detail)
    return classify


def has_wide_counter(tree):
    """does a struct (at any depth) count an array with a 64-bit sizer?"""
    if tree['k'] == 'union':
        return any(has_wide_counter(a['t']) for a in tree['arms'])
    if tree['k'] != 'struct':
        return False
    for m in tree['ms']:
        if 'sizer' in m:
            sm = next((x for x in tree['ms'] if x['n'] == m['sizer']), None)
            if sm is not None and sm['t'].get('p') in ('u64', 'i64'):
                return True
        if has_wide_counter(m['t']):
            return True
    return False


def run_c07(tier):
    chk = core.Check('C07', tier)
    chk.rule = ('for every type of the C++ corpus and several values: every prefix of the canonical encoding, extensions, corruptions '
                '(control-word values, bit flips, truncation) and random strings, in both byte orders, fed to the real generated decode<E> '
                'in an exact-size heap block under ASan/UBSan with an allocation-recording operator new; a case = (type, bytes, byte order); '
                'non-trivial = not the untouched valid encoding. Observed: sanitizer fault, C++ exception, returned bool, re-encoded length, bytes requested.')
    chk.lean = core.lean_obligations('C07', thorough=(tier == 'thorough'))
    corpus = CppCorpus(chk, chk.scale(5, 40), extra=[DIRECTED_BIG, DIRECTED_BIGDYN, DIRECTED_ENUM, DIRECTED_ALIGN])
    try:
        corpus.report_build_errors()
        tr = traits(corpus)
        reqs = corpus.deft_requests()
        nd = len(reqs)
        seeds = []
        for c in corpus.plain_types:
            for _ in range(chk.scale(2, 4)):
                v = V.gen_value(chk.rng, c.tree, max_len=3)
                e = chk.rng.choice(['<', '>'])
                seeds.append((c, v, e))
                reqs.append({'op': 'spec_enc', 't': c.tid, 'v': v, 'e': e})
        ans = client.batch(reqs)[nd:]
        creqs, meta = [], []
        for (c, v, e), a in zip(seeds, ans):
            data = bytes.fromhex(a['bytes'])
            stream = malformed_stream(chk.rng, data, chk.scale(10, 40), chk.scale(4, 12))
            if has_wide_counter(c.tree):
                # 64-bit counters: every aligned 8-byte word set to values whose product with an element size wraps
                for off in range(0, len(data) - 7, 8):
                    for val in (2 ** 61, 2 ** 61 + 1, 2 ** 62, 2 ** 63, 2 ** 64 - 1, 2 ** 60 + 1):
                        b = bytearray(data)
                        b[off:off + 8] = val.to_bytes(8, 'little' if e == '<' else 'big')
                        stream.append(('wide-counter', bytes(b)))
            for kind, bs in stream:
                creqs.append((c, {'op': 'decode', 'e': E_NAME[e], 'data': bs.hex()}))
                meta.append((c, e, kind, bs))
        out = corpus.run(creqs)
        mreqs = corpus.deft_requests()
        nd = len(mreqs)
        for c, e, kind, bs in meta:
            mreqs.append({'op': 'cpp_decode', 't': c.tid, 'data': bs.hex(), 'e': e})
        mans = client.batch(mreqs, timeout=1800)[nd:]
        worst = 0
        for (c, e, kind, bs), o, m in zip(meta, out, mans):
            casej = {'schema': c.text, 'type': c.name, 'data': bs.hex(), 'endianness': e, 'stream': kind, 'tid': c.tid}
            chk.count((c.tree, bs.hex(), e), kind != 'valid')
            impl_outcome = 'fault' if o.get('fault') else 'exception' if o.get('exception') else 'accepted' if o.get('ok') else 'rejected'
            chk.bump('stream:' + kind)
            chk.bump('outcome:' + impl_outcome)
            if kind == 'corrupt':
                chk.sample({'type': c.name, 'data': bs.hex(), 'endianness': e, 'outcome': impl_outcome}, limit=4)
            d4_ub = impl_outcome == 'fault' and 'misaligned address' in str(o.get('fault')) and tr.get(c.tid, {}).get('opt_misaligned')
            if impl_outcome == 'fault':
                # D4 puts the fields after an optional<T> 4 bytes off their wire position: in native order the typed load / store is misaligned (UBSan)
                chk.property_violation(casej, {'what': 'decode read outside the buffer / undefined behaviour', 'fault': o['fault']},
                                       d4(tr) if d4_ub else None)
            elif impl_outcome == 'exception':
                chk.property_violation(casej, {'what': 'decode threw %s instead of returning a boolean' % o['exception'], 'alloc_max': o.get('alloc_max')})
            else:
                alloc = o.get('alloc_total', 0)
                worst = max(worst, alloc / (len(bs) + 1.0))
                if alloc > 4096 + 1024 * len(bs):
                    chk.property_violation(casej, {'what': 'decode requested %d bytes of memory for %d bytes of input' % (alloc, len(bs))})
                if impl_outcome == 'accepted' and len(o.get('enc_native', '')) // 2 != len(bs):
                    # the re-encoding of an accepted input is where D4 (optional<T> of a struct holding a vector) shows up in C07
                    chk.property_violation(casej, {'what': 'accepted input of %d bytes re-encodes to %d bytes' % (len(bs), len(o.get('enc_native', '')) // 2), 'cpp': o},
                                           d4(tr) if (o.get('overrun') or o.get('ptr_written') != o.get('size')) else None)
            chk.corr_compared += 1
            if d4_ub:
                chk.bump('D4: misaligned native access (UBSan) - outcome not compared with the model')
            elif impl_outcome != m['outcome']:
                chk.correspondence_mismatch('Cpp.decode outcome = generated decode (malformed stream)', casej, impl_outcome, m)
        chk.extra['worst_alloc_bytes_per_input_byte'] = round(worst, 1)
        directed_c07(chk, corpus)
    finally:
        corpus.close()
    return chk.finish()


def small_stack_decode(chk):
    """decode of canonical bytes on a thread with a 512 KiB stack: an optional<T> and a greedy element of 300 kB must not need
    sizeof(T) of stack (defect D132)"""
    import os
    import shutil
    import subprocess
    import tempfile
    from harness.impl import py_impl
    d = tempfile.mkdtemp(prefix='prophy-verif-')
    try:
        with open(os.path.join(d, 'st.prophy'), 'w') as f:
            f.write('struct Blob { u8 data[300000]; };\nstruct OptMsg { Blob* b; u32 x; };\nstruct Dyn { u8 n; u8 pad<@n>; u8 data[300000]; };\nstruct Tail { u32 k; Dyn g<...>; };\n'
                    'struct Counted { Blob b<>; };\nstruct Limited { Blob b<2>; };\n')
        py_impl.run_prophyc(['--cpp_full_out', d, os.path.join(d, 'st.prophy')])
        with open(os.path.join(d, 'main.cpp'), 'w') as f:
            f.write(r'''
#include "st.ppf.hpp"
#include <pthread.h>
#include <stdio.h>
using namespace prophy::generated;
static void* run(void*)
{
    std::vector<uint8_t> a(4 + 300000 + 4, 0); a[0] = 1;                 /* OptMsg with the optional set */
    OptMsg* m = new OptMsg();
    printf("OptMsg %d\n", int(m->decode<prophy::little>(a.data(), a.size())));
    std::vector<uint8_t> b(4 + 300001 + 3, 0);                          /* Tail with one element (pad empty), ends aligned */
    Tail* t = new Tail();
    bool ok = t->decode<prophy::little>(b.data(), b.size());
    printf("Tail %d %d\n", int(ok), int(t->g.size()));
    std::vector<uint8_t> c(4 + 300000, 0); c[0] = 1;                    /* Counted / Limited with one element */
    Counted* cm = new Counted();
    ok = cm->decode<prophy::little>(c.data(), c.size());
    printf("Counted %d %d\n", int(ok), int(cm->b.size()));
    std::vector<uint8_t> l(4 + 600000, 0); l[0] = 1;
    Limited* lm = new Limited();
    ok = lm->decode<prophy::little>(l.data(), l.size());
    printf("Limited %d %d\n", int(ok), int(lm->b.size()));
    return 0;
}
int main()
{
    setvbuf(stdout, 0, _IONBF, 0);
    pthread_attr_t attr; pthread_attr_init(&attr); pthread_attr_setstacksize(&attr, 512 * 1024);
    pthread_t th; pthread_create(&th, &attr, run, 0); pthread_join(th, 0);
    return 0;
}
''')
        for std, opt in (('c++11', '-O0'), ('c++11', '-O2'), ('c++98', '-O0'), ('c++98', '-O2')):
            exe = os.path.join(d, 'st' + std + opt)
            p = subprocess.run(['g++', '-std=' + std, opt, '-pthread', '-I' + os.path.join(py_impl.REPO, 'prophy_cpp', 'include'), '-I' + d,
                                os.path.join(d, 'main.cpp'), os.path.join(d, 'st.ppf.cpp'), '-o', exe], stdout=subprocess.PIPE, stderr=subprocess.STDOUT, timeout=900)
            if p.returncode != 0:
                raise core.Infra('small-stack program does not build: ' + p.stdout.decode(errors='replace')[-600:])
            r = subprocess.run([exe], stdout=subprocess.PIPE, stderr=subprocess.STDOUT, timeout=120)
            out = r.stdout.decode(errors='replace').split('\n')
            casej = {'schema': 'struct Blob { u8 data[300000]; }; struct OptMsg { Blob* b; u32 x; }; struct Dyn {...300000}; struct Tail { u32 k; Dyn g<...>; };',
                     'build': 'g++ -std=%s %s, decode on a thread with a 512 KiB stack' % (std, opt), 'directed': 'small-stack', 'std': std}
            chk.count(('small-stack', std, opt), True)
            chk.bump('directed:small-stack')
            if r.returncode != 0 or out[:4] != ['OptMsg 1', 'Tail 1 1', 'Counted 1 1', 'Limited 1 1']:
                chk.property_violation(casej, {'what': 'decode of canonical bytes did not return true (exit code %d)' % r.returncode, 'output': out[:5],
                                               'passed': out[:2] == ['OptMsg 1', 'Tail 1 1'], 'rc': r.returncode}, classify_directed)
    finally:
        shutil.rmtree(d, ignore_errors=True)


def directed_c07(chk, corpus):
    small_stack_decode(chk)
    by_name = {c.name: c for c in corpus.types if c.directed}
    le = lambda n, k=4: n.to_bytes(k, 'little')   # noqa: E731
    inputs = [
        # a counter the remaining bytes cannot satisfy at the element's wire size must be refused before resizing (fixed by e9b58a7)
        ('BigItems', '<', le(1000) + bytes(4) + bytes(1024), 0, 'rejected'),
        ('BigItems', '<', le(1) + bytes(4) + bytes(16384), 0, 'accepted'),
        ('BigItems', '<', le(2) + bytes(4) + bytes(16384), 0, 'rejected'),
        ('BigWords', '<', le(4000, 2) + bytes(6) + bytes(8 * 3999), 0, 'rejected'),
        ('BigWords', '<', le(3, 2) + bytes(6) + bytes(24), 0, 'accepted'),
        # elements of dynamic size with a large fixed part: the guard can only assume one byte per element (known finding D122)
        ('DMsg', '<', le(1028) + bytes(4) + bytes(1024), 0, 'rejected'),
        # corrupted enum and discriminator values under -fsanitize=enum (known finding D61)
        ('DU', '<', bytes.fromhex('ffffffff05000000'), 0, 'rejected'),
        ('DU', '<', bytes.fromhex('0100000005000000'), 0, 'accepted'),
        ('DM', '<', bytes.fromhex('0700000005000000'), 0, 'accepted'),
        ('DM', '<', bytes.fromhex('0100000005000000'), 0, 'accepted'),
    ]
    # canonical messages in buffers at every offset from an aligned address (known finding D62 for the offsets that are not multiples of 8)
    for name, data in (('DA', bytes.fromhex('03010203') + le(42)), ('DB', le(1) + bytes.fromhex('07000000') + le(42)), ('DC', bytes.fromhex('0100000000000000') + le(7, 8))):
        for off in range(8):
            inputs.append((name, '<', data, off, 'accepted'))
    out = corpus.run([(by_name[n], {'op': 'decode', 'e': E_NAME[e], 'data': d.hex(), 'off': off}) for n, e, d, off, _ in inputs])
    for (n, e, d, off, want), o in zip(inputs, out):
        c = by_name[n]
        casej = {'schema': c.text, 'type': n, 'data': d.hex() if len(d) < 64 else '%s... (%d bytes)' % (d[:16].hex(), len(d)), 'endianness': e,
                 'directed': c.directed, 'off': off}
        chk.count((n, d.hex(), e, off), True)
        chk.bump('directed:%s' % c.directed)
        got = 'fault' if o.get('fault') else 'exception' if o.get('exception') else 'accepted' if o.get('ok') else 'rejected'
        alloc = o.get('alloc_total', 0)
        if got == 'fault':
            chk.property_violation(casej, {'what': 'decode read outside the buffer / undefined behaviour', 'fault': o['fault']}, classify_directed)
        elif got == 'exception':
            chk.property_violation(casej, {'what': 'decode threw %s instead of returning a boolean' % o['exception']}, classify_directed)
        elif alloc > 4096 + 1024 * len(d):
            chk.property_violation(casej, {'what': 'decode requested %d bytes of memory for %d bytes of input' % (alloc, len(d))}, classify_directed)
        elif got != want:
            chk.property_violation(casej, {'what': 'decode %s a byte string that is %s a canonical encoding' % (got, 'not' if want == 'rejected' else '')},
                                   classify_directed)
        elif got == 'accepted' and len(o.get('enc_native', '')) // 2 != len(d):
            chk.property_violation(casej, {'what': 'accepted input of %d bytes re-encodes to %d bytes' % (len(d), len(o.get('enc_native', '')) // 2)},
                                   classify_directed)


def single_quote_repr(v):
    """every bytes value of `v` has a Python repr in single quotes"""
    if isinstance(v, dict):
        if 'b' in v:
            b = bytes.fromhex(v['b'])
            return not (b"'" in b and b'"' not in b)
        return all(single_quote_repr(x) for x in v.values())
    if isinstance(v, list):
        return all(single_quote_repr(x) for x in v)
    return True


def run_c18(tier):
    chk = core.Check('C18', tier)
    chk.rule = ('types without floating-point fields; values with integers of all widths and signs, enums, bytes fields containing every '
                'kind of byte (quote, double quote, backslash, control, non-ASCII), arrays, optionals, unions, nested composites; bytes '
                'values whose Python repr uses double quotes are excluded as the property says; a case = (type, value); str(message) of the '
                'real Python message vs print() of the real C++ object decoded from the same canonical bytes; non-trivial = value with a bytes '
                'field followed by another field, or a nested composite.')
    chk.lean = core.lean_obligations('C18', thorough=(tier == 'thorough'))
    corpus = CppCorpus(chk, chk.scale(5, 40), gen_kwargs=dict(floats=False), extra=[DIRECTED_NAMES])
    try:
        corpus.report_build_errors()
        tr = traits(corpus)
        cases = [(c, v) for c, v in gen_cases(chk, corpus, chk.scale(5, 10)) if not has_float(c.tree) and single_quote_repr(v)]
        for c in corpus.types:
            if c.directed == 'dnames':      # names that collide with names of the runtime / the generated code
                cases += [(c, v) for v in [V.default_value(c.tree)] + [V.gen_value(chk.rng, c.tree, max_len=3) for _ in range(4)] if single_quote_repr(v)]
        reqs = corpus.deft_requests()
        nd = len(reqs)
        for c, v in cases:
            reqs.append({'op': 'spec_enc', 't': c.tid, 'v': v, 'e': '<'})
            reqs.append({'op': 'py_str', 't': c.tid, 'v': v})
            reqs.append({'op': 'cpp_print', 't': c.tid, 'v': v})
            reqs.append({'op': 'spec_chunks', 't': c.tid, 'v': v})
        ans4 = client.batch(reqs)[nd:]
        keep = [i for i in range(len(cases)) if ans4[4 * i + 3]['gal']]
        chk.bump('greedy-tail-unaligned (not used to build objects)', len(cases) - len(keep))
        cases = [cases[i] for i in keep]
        ans = [a for i in keep for a in ans4[4 * i:4 * i + 3]]
        out = corpus.run([(c, {'op': 'decode', 'e': 'little', 'data': ans[3 * i]['bytes']}) for i, (c, v) in enumerate(cases)])
        for i, ((c, v), o) in enumerate(zip(cases, out)):
            msg = c.cls()
            V.apply(msg, c.tree, v)
            py_text = str(msg)
            casej = {'schema': c.text, 'type': c.name, 'value': v, 'tid': c.tid}
            js = json.dumps(v)
            chk.count((c.tree, v), '"b"' in js or '"s"' in js[5:])
            chk.sample({'type': c.name, 'value': v, 'python': py_text, 'cpp': o.get('print')})
            if not o.get('ok'):
                chk.bump('decode-rejected (see C03)')
                continue
            cpp_text = o['print'].encode('latin-1', 'replace').decode('latin-1')
            captured = captured_enumerator(c.tree)
            if py_text != cpp_text:
                chk.property_violation(casej, {'what': 'str() in Python and print() in C++ differ', 'python': py_text, 'cpp': cpp_text,
                                               'captured_enumerator': captured}, classify_c18)
            if v == V.default_value(c.tree):
                # the freshly constructed message, nothing assigned, renders like the message holding the default values
                fresh = str(c.cls())
                chk.bump('fresh-message')
                if fresh != cpp_text:
                    chk.property_violation(dict(casej, built='fresh message, no field assigned'),
                                           {'what': 'str() of a fresh message and print() of the same message in C++ differ', 'python': fresh, 'cpp': cpp_text,
                                            'captured_enumerator': captured}, classify_c18)
            if captured:
                chk.bump('D114: enumerator captured by a name of the C++ runtime - print() not compared with the model')
                continue
            chk.corr_compared += 2
            if ans[3 * i + 1]['text'] != py_text:
                chk.correspondence_mismatch('Text.pyText = str(message)', casej, py_text, ans[3 * i + 1]['text'])
            if ans[3 * i + 2]['text'] != cpp_text:
                chk.correspondence_mismatch('Text.cppText = message.print()', casej, cpp_text, ans[3 * i + 2]['text'])
        # the default-constructed message in both languages (no bytes in between)
        plain = [c for c in corpus.types if not has_float(c.tree) and not captured_enumerator(c.tree)]
        fresh = corpus.run([(c, {'op': 'decode', 'e': 'little', 'data': '', 'fresh': True}) for c in plain])
        for c, o in zip(plain, fresh):
            casej = {'schema': c.text, 'type': c.name, 'built': 'default-constructed in both languages', 'tid': c.tid}
            chk.count((c.tree, 'fresh'), True)
            chk.bump('default-constructed')
            if o.get('fault') or 'print' not in o:
                chk.property_violation(casej, {'what': 'printing the default-constructed C++ message failed', 'cpp': {k: o.get(k) for k in ('fault', 'exception', 'ok')}}, d4(tr))
                continue
            py_text, cpp_text = str(c.cls()), o['print'].encode('latin-1', 'replace').decode('latin-1')
            if py_text != cpp_text:
                chk.property_violation(casej, {'what': 'str() of the default Python message and print() of the default C++ message differ', 'python': py_text,
                                               'cpp': cpp_text, 'zero_filled_enum_array': zero_filled_enum_array(c.tree)}, classify_c18)
        # what a field holds prints like the plain value, whatever subclass the assigned object was (D197: bytes; D162 / D183: numbers)
        import enum
        import prophy

        class Tag(bytes):
            def __repr__(self):
                return 'np.bytes_(%s)' % bytes.__repr__(self)

        class Colour(enum.IntEnum):
            red = 2
        sb = prophy.with_metaclass(prophy.struct_generator, prophy.struct)
        B = type(sb)('B18', (sb,), {'_descriptor': [('a', prophy.u8), ('n', prophy.u32), ('w', prophy.array(prophy.u16, bound='n')), ('fix', prophy.bytes(size=3)),
                                                    ('lim', prophy.bytes(size=4, bound='m')), ('m', prophy.u32), ('k', prophy.u32),
                                                    ('dyn', prophy.bytes(bound='k')), ('g', prophy.bytes())][:4] +
                                    [('m', prophy.u32), ('lim', prophy.bytes(size=4, bound='m')), ('k', prophy.u32), ('dyn', prophy.bytes(bound='k')), ('g', prophy.bytes())]})
        for values in ((b'ab', b'cd', b'ef\n', b'xyz'), (b'', b'', b'', b''), (b"q'\\", b'\x00\xff', b'\t', b'"')):
            plain, odd = B(), B()
            for msg, wrap, number in ((plain, bytes, int), (odd, Tag, Colour)):
                msg.a = number(2)
                msg.w[:] = [number(2), 7]
                msg.fix, msg.lim, msg.dyn, msg.g = [wrap(x) for x in values]
            if plain.encode('<') != odd.encode('<'):
                chk.property_violation({'assigned': repr(values)}, {'what': 'subclass instances encode differently from the plain values'})
            casej = {'schema': 'hand-written B{u8 a; u32 n; u16 w<@n>; bytes fix[3]; u32 m; bytes lim<4 @m>; u32 k; bytes dyn<@k>; bytes g<...>}',
                     'assigned': 'IntEnum members and instances of a bytes subclass with its own repr: %r' % (values,)}
            chk.count(('subclass-values', values), True)
            chk.bump('directed:subclass values')
            if str(odd) != str(plain):
                # the two messages have one encoding: C++ prints one text for both (compared with str() of plain values above)
                chk.property_violation(casej, {'what': 'str() of the message differs from str() of the message holding the same plain values (and so from what C++ prints)',
                                               'python': str(odd), 'plain': str(plain)})
    finally:
        corpus.close()
    return chk.finish()

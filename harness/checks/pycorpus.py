"""
Corpus shared by the Python-codec checks: generated schemas compiled by the real prophyc,
imported with the real prophy runtime, typed values applied through the public API.
"""
import os
import shutil
import tempfile

from harness.gen import schema as S, values as V
from harness.impl import py_impl

# hand-made schemas that hit the layout cases the properties name; they run first
CORPUS_TEXT = '''
enum En { En_A = 0, En_B = 5, En_C = 0xffffffff };
struct Dy { u8 a<>; };
struct AfterDyn { Dy d; u8 x; u64 y; };
struct OptOdd { u8 a; u8* x; };
struct OptSize { u8* x; u64 y; };
struct Opt64 { u64* v; u8 t; };
struct OptEnum { En* e; u16 z; };
struct EndOpt { u8 a<>; u8* o; };
struct Blocks { u8 a<>; u8 b; u32 c; u8 d<>; u8 e; u64 f; };
struct TwoArr { u8 x<>; u8 y<>; };
struct Lim { u16 x<3>; u8 t; };
struct LimC { OptOdd x<2>; u8 t; };
struct Ext { u8 size; u8 x<@size>; u16 y<@size>; };
struct Ext2 { i16 n; u8 pad; u32 x<@n>; OptSize y<@n>; u8 tail; };
union Un { 1: u64 x; 2: u8 y; 7: OptOdd z; };
struct WithUn { u8 a; Un u; Un v[2]; };
struct Gr { u32 a; u8 g<...>; };
struct Gr16 { u8 a; u16 g<...>; };
struct GrS { u8 a; Lim g<...>; };
struct Outer { u16 k; Gr inner; };
struct By { bytes a[3]; bytes b<>; bytes c<5>; u8 n; bytes d<@n>; bytes e<...>; };
struct Fl { float f; double d; float fs<>; };
struct Deep { AfterDyn a; Blocks b<>; Un c; EndOpt d; u8 e; };
struct DynUnl { u32 n; u8 a<@n>; Gr g; };
struct WrapUnl { u16 k; DynUnl s; };
struct DynUnl2 { u16 a<>; u8 t; GrS g; };
struct Tail { u8 x<>; u16 y; };
struct TailComp { u16 x<>; u8 a; u32 y<>; u8 b; };
struct OptDynTail { u8 x<>; u64* o; u8 t; };
struct Mac { u8 addr[6]; };
struct Tri { u16 a; u16 b; u16 c; };
struct OptMac { Mac* v; u8 t; };
struct OptTri { u8 k; Tri* v; u16 t; };
struct OptTriDyn { u8 x<>; Tri* v; Mac* w; };
'''


class Case(object):
    __slots__ = ('sidx', 'text', 'name', 'tree', 'cls', 'tid')

    def __init__(self, sidx, text, name, tree, cls, tid):
        self.sidx, self.text, self.name, self.tree, self.cls, self.tid = sidx, text, name, tree, cls, tid


class Corpus(object):
    def __init__(self, check, n_schemas, gen_kwargs=None, corpus=True):
        self.check = check
        self.workdir = tempfile.mkdtemp(prefix='prophy-verif-')
        self.types = []      # Case per message type
        self.nodes = {}      # sidx -> prophyc nodes
        self.mods = {}       # sidx -> generated module
        self.schemas = {}
        gen_kwargs = gen_kwargs or {}
        tid = 0
        sidx = 0
        if corpus:
            sc = parse_corpus()
            nodes, mod = py_impl.compile_prophy(CORPUS_TEXT, self.workdir, 'corpus')
            self.nodes[sidx] = nodes
            self.mods[sidx] = mod
            self.schemas[sidx] = sc
            for name in S.type_names(sc):
                self.types.append(Case(sidx, CORPUS_TEXT, name, S.tree(sc, name), getattr(mod, name), tid))
                tid += 1
            sidx += 1
        gens = []
        if corpus and gen_kwargs.get('shifts'):
            gens.append(shift_corpus())
        for i in range(n_schemas + len(gens)):
            sc = gens[i] if i < len(gens) else S.Gen(check.rng, **gen_kwargs).schema()
            text = S.to_prophy(sc)
            patch = (lambda src, sc=sc: S.apply_shifts(sc, src)) if S.has_shifts(sc) else None
            if patch:
                text += '// python descriptors patched: ' + ', '.join('%s.%s shift=%d' % (d.name, m.name, m.shift) for d in sc.decls if isinstance(d, S.Struct)
                                                                      for m in d.members if getattr(m, 'shift', 0)) + '\n'
                check.bump('schema-with-shift')
            nodes, mod = py_impl.compile_prophy(text, self.workdir, 's%d' % i, patch=patch)
            self.nodes[sidx] = nodes
            self.mods[sidx] = mod
            self.schemas[sidx] = sc
            for name in S.type_names(sc):
                tr = S.tree(sc, name)
                self.types.append(Case(sidx, text, name, tr, getattr(mod, name), tid))
                for k, c in S.features(tr).items():
                    check.bump(k, c)
                tid += 1
            sidx += 1
        if corpus and gen_kwargs.get('shifts'):
            self.add_handmade()

    def add_handmade(self):
        """descriptor sets that only hand-written Python can express (several limited / dynamic arrays on one counter)"""
        import prophy
        u8 = {'k': 'prim', 'p': 'u8'}
        byte = {'k': 'byte'}

        class HmLimShared(prophy.with_metaclass(prophy.struct_generator, prophy.struct)):
            _descriptor = [('n', prophy.u8), ('b', prophy.bytes(size=2, bound='n')), ('a', prophy.bytes(size=1, bound='n'))]

        class HmDynLim(prophy.with_metaclass(prophy.struct_generator, prophy.struct)):
            _descriptor = [('n', prophy.u8), ('b', prophy.bytes(bound='n')), ('a', prophy.bytes(size=1, bound='n')), ('t', prophy.u16)]

        class HmArrLim(prophy.with_metaclass(prophy.struct_generator, prophy.struct)):
            _descriptor = [('n', prophy.u8), ('x', prophy.array(prophy.u16, bound='n')), ('y', prophy.array(prophy.u8, bound='n', size=3))]
        class HmLimNarrow(prophy.with_metaclass(prophy.struct_generator, prophy.struct)):
            _descriptor = [('n', prophy.u8), ('x', prophy.array(prophy.u16, bound='n', size=300)), ('t', prophy.u32)]

        class HmLimNarrowS(prophy.with_metaclass(prophy.struct_generator, prophy.struct)):
            _descriptor = [('n', prophy.i8), ('x', prophy.array(prophy.u8, bound='n', size=130)), ('b', prophy.bytes(bound='n', size=200))]

        class HmElem(prophy.with_metaclass(prophy.struct_generator, prophy.struct)):
            _descriptor = [('a', prophy.u8)]

        class HmLimNarrowC(prophy.with_metaclass(prophy.struct_generator, prophy.struct)):
            _descriptor = [('n', prophy.u8), ('es', prophy.array(HmElem, bound='n', size=300)), ('t', prophy.u16)]
        elem = {'k': 'struct', 'name': 'HmElem', 'ms': [{'n': 'a', 't': u8, 'mk': 'plain'}]}
        made = [
            (HmElem, elem),
            (HmLimNarrowC, {'k': 'struct', 'name': 'HmLimNarrowC', 'ms': [
                {'n': 'n', 't': u8, 'mk': 'plain'}, {'n': 'es', 't': elem, 'mk': 'limited', 'sizer': 'n', 'size': 300},
                {'n': 't', 't': {'k': 'prim', 'p': 'u16'}, 'mk': 'plain'}]}),
            (HmLimShared, {'k': 'struct', 'name': 'HmLimShared', 'ms': [
                {'n': 'n', 't': u8, 'mk': 'plain'}, {'n': 'b', 't': byte, 'mk': 'limited', 'sizer': 'n', 'size': 2},
                {'n': 'a', 't': byte, 'mk': 'limited', 'sizer': 'n', 'size': 1}]}),
            (HmDynLim, {'k': 'struct', 'name': 'HmDynLim', 'ms': [
                {'n': 'n', 't': u8, 'mk': 'plain'}, {'n': 'b', 't': byte, 'mk': 'dyn', 'sizer': 'n', 'shift': 0},
                {'n': 'a', 't': byte, 'mk': 'limited', 'sizer': 'n', 'size': 1}, {'n': 't', 't': {'k': 'prim', 'p': 'u16'}, 'mk': 'plain'}]}),
            (HmArrLim, {'k': 'struct', 'name': 'HmArrLim', 'ms': [
                {'n': 'n', 't': u8, 'mk': 'plain'}, {'n': 'x', 't': {'k': 'prim', 'p': 'u16'}, 'mk': 'dyn', 'sizer': 'n', 'shift': 0},
                {'n': 'y', 't': u8, 'mk': 'limited', 'sizer': 'n', 'size': 3}]}),
            (HmLimNarrow, {'k': 'struct', 'name': 'HmLimNarrow', 'ms': [
                {'n': 'n', 't': u8, 'mk': 'plain'}, {'n': 'x', 't': {'k': 'prim', 'p': 'u16'}, 'mk': 'limited', 'sizer': 'n', 'size': 300},
                {'n': 't', 't': {'k': 'prim', 'p': 'u32'}, 'mk': 'plain'}]}),
            (HmLimNarrowS, {'k': 'struct', 'name': 'HmLimNarrowS', 'ms': [
                {'n': 'n', 't': {'k': 'prim', 'p': 'i8'}, 'mk': 'plain'}, {'n': 'x', 't': u8, 'mk': 'limited', 'sizer': 'n', 'size': 130},
                {'n': 'b', 't': byte, 'mk': 'limited', 'sizer': 'n', 'size': 200}]}),
        ]
        import types as _types
        self.mods[-1] = _types.SimpleNamespace(**{cls.__name__: cls for cls, _ in made})
        self.nodes[-1] = []
        for cls, tree in made:
            text = '# hand-written descriptor\nclass %s: _descriptor = %s' % (cls.__name__, [(n, getattr(t, '__name__', str(t))) for n, t in
                                                                                         [(f.name, f.type) for f in cls._descriptor]])
            self.types.append(Case(-1, text, cls.__name__, tree, cls, len(self.types)))
            self.check.bump('handmade-descriptor')

    def deft_requests(self):
        return [{'op': 'deft', 'id': c.tid, 't': c.tree} for c in self.types]

    def close(self):
        shutil.rmtree(self.workdir, ignore_errors=True)


def shift_corpus():
    """hand-made schema with shifted counters (`shift=` exists only in the Python descriptors)"""
    M = S.Member
    sc = S.Schema()
    sc.decls.append(S.Struct('ShE', [M('a', 'u8'), M('b', 'u16')]))
    sc.decls.append(S.Struct('ShA', [M('n', 'u8'), M('x', 'u16', 'dynext', sizer='n', shift=2)]))
    sc.decls.append(S.Struct('ShB', [M('n', 'i8'), M('x', 'u8', 'dynext', sizer='n', shift=5), M('y', 'u8', 'dynext', sizer='n', shift=5)]))
    sc.decls.append(S.Struct('ShC', [M('n', 'u8'), M('b', 'byte', 'dynext', sizer='n', shift=1), M('t', 'u32')]))
    sc.decls.append(S.Struct('ShD', [M('n', 'u8'), M('x', 'ShE', 'dynext', sizer='n', shift=1)]))
    sc.decls.append(S.Struct('ShF', [M('y', 'u8', 'dyn', shift=3), M('z', 'u64')]))
    sc.decls.append(S.Struct('ShG', [M('n', 'u8'), M('x', 'u8', 'dynext', sizer='n', shift=254)]))
    return sc


def parse_corpus():
    """the hand-made corpus as an abstract schema (tiny parser of the subset used above)"""
    import re
    sc = S.Schema()
    text = CORPUS_TEXT
    for m in re.finditer(r'(enum|struct|union)\s+(\w+)\s*\{(.*?)\};|typedef\s+(\w+)\s+(\w+)\s*;', text, re.S):
        if m.group(4):
            sc.decls.append(S.Typedef(m.group(5), norm_type(m.group(4))))
            continue
        kind, name, body = m.group(1), m.group(2), m.group(3)
        if kind == 'enum':
            mem = []
            for part in body.split(','):
                n, v = part.split('=')
                mem.append((n.strip(), int(v.strip(), 0)))
            sc.decls.append(S.Enum(name, mem))
        elif kind == 'union':
            arms = []
            for part in body.split(';'):
                part = part.strip()
                if part:
                    d, rest = part.split(':')
                    t, n = rest.split()
                    arms.append((n, int(d), norm_type(t)))
            sc.decls.append(S.Union(name, arms))
        else:
            ms = []
            for part in body.split(';'):
                part = part.strip()
                if not part:
                    continue
                mm = re.match(r'(\w+)(\*?)\s+(\w+)\s*(.*)$', part)
                t, star, n, suffix = norm_type(mm.group(1)), mm.group(2), mm.group(3), mm.group(4).strip()
                if star:
                    ms.append(S.Member(n, t, 'optional'))
                elif not suffix:
                    ms.append(S.Member(n, t))
                elif suffix == '<>':
                    ms.append(S.Member(n, t, 'dyn'))
                elif suffix == '<...>':
                    ms.append(S.Member(n, t, 'greedy'))
                elif suffix.startswith('<@'):
                    ms.append(S.Member(n, t, 'dynext', sizer=suffix[2:-1]))
                elif suffix.startswith('<'):
                    ms.append(S.Member(n, t, 'limited', size=int(suffix[1:-1])))
                elif suffix.startswith('['):
                    ms.append(S.Member(n, t, 'fixed', size=int(suffix[1:-1])))
                else:
                    raise ValueError(part)
            sc.decls.append(S.Struct(name, ms))
    return sc


def norm_type(t):
    return {'float': 'r32', 'double': 'r64', 'bytes': 'byte'}.get(t, t)

"""
C16: multi-file schemas with includes equal their single-file concatenation.
C20: prophyc output is a deterministic function of its inputs.

A generated schema is partitioned into files (each including the files whose names it uses),
laid out over include directories, and compiled by the real prophyc from different working
directories; the per-file outputs are imported together and compared (constants, layouts,
encodings) with the single-file build.  Missing and cyclic includes must be errors.  The
sequence of files parsed and the names visible in each file are compared with the Lean model of
FileProcessor (event trace through a wrapper around `process_content`, no repository hook).
"""
import hashlib
import importlib
import json
import os
import re
import shutil
import subprocess
import sys
import tempfile

from harness import core
from harness.gen import schema as S, values as V
from harness.impl import py_impl
from harness.model import client

REPO = py_impl.REPO
_pkg_counter = [0]


def uses(schema, d):
    """names of declarations `d` refers to (types, and constants / enumerators in sizes)"""
    own = {}
    for x in schema.decls:
        own[x.name] = x.name
        if isinstance(x, S.Enum):
            for n, _ in x.members:
                own[n] = x.name
    out = set()

    def ref(name):
        if isinstance(name, str) and name in own and own[name] != d.name:
            out.add(own[name])
    if isinstance(d, S.Typedef):
        ref(d.target)
    elif isinstance(d, S.Struct):
        for m in d.members:
            ref(m.type)
            ref(m.size)
    elif isinstance(d, S.Union):
        for _, disc, t in d.arms:
            ref(t)
            ref(disc)
    elif isinstance(d, S.Const):
        ref(d.value)
    return out


def partition(rng, schema, n_files):
    """assign declarations to files f0..f(n-1) in non-decreasing order (dependency order is kept);
    returns [(leaf, [decls], [included leaves])]"""
    n = len(schema.decls)
    cuts = sorted(rng.sample(range(1, n), min(n_files - 1, n - 1))) if n > 1 else []
    groups, prev = [], 0
    for c in cuts + [n]:
        groups.append(schema.decls[prev:c])
        prev = c
    where = {}
    for i, g in enumerate(groups):
        for d in g:
            where[d.name] = i
    files = []
    for i, g in enumerate(groups):
        inc = sorted(set(where[u] for d in g for u in uses(schema, d) if where[u] != i))
        files.append(('f%d' % i, g, ['f%d' % j for j in inc]))
    if rng.random() < 0.35:
        # an emptied compatibility header (no definitions, no includes) that several files still include: reached more than once
        files = [('f_empty', [], [])] + [(leaf, g, ['f_empty'] + inc) for leaf, g, inc in files]
    return files


def write_layout(rng, root, files, layout):
    """layout 0: all files in one directory; 1: included files spread over two -I directories;
    2: like 1, but the last two files lie in the root and only they are given on the command line (the others are
    reached through -I only, and get their outputs from a second run);
    returns (paths by leaf, include dirs)"""
    os.makedirs(root, exist_ok=True)
    paths, dirs = {}, []
    if layout in (1, 2):
        dirs = [os.path.join(root, 'i1'), os.path.join(root, 'i2')]
        for d in dirs:
            os.makedirs(d, exist_ok=True)
    for k, (leaf, decls, incs) in enumerate(files):
        is_last = (k == len(files) - 1) or (layout == 2 and k == len(files) - 2)
        d = root if (layout == 0 or is_last) else dirs[k % 2]
        text = ''.join('#include "%s.prophy"\n' % i for i in incs) + '\n'.join(S.decl_to_prophy(x) for x in decls) + '\n'
        p = os.path.join(d, leaf + '.prophy')
        with open(p, 'w') as f:
            f.write(text)
        paths[leaf] = p
    return paths, dirs


def run_cli(args, cwd, hashseed=None, timeout=120):
    env = dict(os.environ, PYTHONPATH=REPO)
    if hashseed is not None:
        env['PYTHONHASHSEED'] = str(hashseed)
    p = subprocess.run([sys.executable, '-m', 'prophyc'] + args, cwd=cwd, env=env, stdout=subprocess.PIPE, stderr=subprocess.PIPE, timeout=timeout)
    return p.returncode, p.stdout.decode(errors='replace'), p.stderr.decode(errors='replace')


def import_package(outdir, leaves):
    """the per-file outputs use relative imports: import them as one package"""
    _pkg_counter[0] += 1
    pkg = 'verif_pkg_%d' % _pkg_counter[0]
    pdir = os.path.join(outdir, pkg)
    os.makedirs(pdir)
    open(os.path.join(pdir, '__init__.py'), 'w').close()
    for leaf in leaves:
        shutil.copy(os.path.join(outdir, leaf + '.py'), os.path.join(pdir, leaf + '.py'))
    sys.path.insert(0, outdir)
    try:
        mods = {leaf: importlib.import_module('%s.%s' % (pkg, leaf)) for leaf in leaves}
    finally:
        sys.path.remove(outdir)
    return mods


def trace_process(paths_main, include_dirs):
    """run the real FileProcessor + prophy parser with a wrapper recording which files are parsed
    and which names are visible in each"""
    from prophyc import model
    from prophyc.file_processor import FileProcessor
    from prophyc.parsers.prophy import ProphyParser
    import prophyc
    events = []
    parser = ProphyParser()
    emit = prophyc.Emit()
    emit.quiet = True
    mp = model.ModelParser(parser, None, emit)

    def content(text, path, leaf_fn):
        events.append(os.path.abspath(path))
        return mp(text, path, leaf_fn)
    fp = FileProcessor(content, include_dirs)
    results = []
    for p in paths_main:
        start = len(events)
        nodes = fp(p)
        visible = []
        for n in nodes:
            if isinstance(n, model.Include):
                visible.extend(x.name for x in n.members if not isinstance(x, model.Include))
            else:
                visible.append(n.name)
        results.append({'leaf': os.path.splitext(os.path.basename(p))[0], 'visible': visible, 'parsed': events[start:], 'nodes': nodes})
    return results


def include_shape(nodes, marker, depth=0):
    """preorder (depth, marker name) list of the include tree below a file: every file of link_layouts defines one struct
    named `marker...` that tells which real file it is"""
    from prophyc import model
    own = [n.name for n in nodes if not isinstance(n, model.Include) and n.name.startswith(marker)]
    out = [[depth, own[0] if own else None]]
    for n in nodes:
        if isinstance(n, model.Include):
            out.extend(include_shape(n.members, marker, depth + 1))
    return out


def run_c16(tier):
    chk = core.Check('C16', tier)
    chk.rule = ('generated schemas partitioned into 2-5 files (each file includes the files whose names it uses: chains and diamonds), '
                'laid out in one directory or over two -I directories, compiled by the real `python -m prophyc` from the schema directory and '
                'from another working directory with relative paths; per-file Python outputs imported as one package and compared with the '
                'single-file build (constants, _SIZE/_ALIGNMENT/_DYNAMIC, encodings of random values); plus missing and cyclic includes in '
                'prophy and isar syntax. A case = (schema, partition, layout, cwd); non-trivial = at least one cross-file type reference.')
    chk.lean = core.lean_obligations('C16', thorough=(tier == 'thorough'))
    root = tempfile.mkdtemp(prefix='prophy-verif-')
    try:
        reqs, rows = [], []
        for si in range(chk.scale(18, 180)):
            sc = S.Gen(chk.rng, n_decls=8).schema()
            single_dir = os.path.join(root, 's%d' % si)
            nodes, single = py_impl.compile_prophy(S.to_prophy(sc), single_dir, 'single')
            names = S.type_names(sc)
            for variant in range(3):
                files = partition(chk.rng, sc, chk.rng.randint(2, 5))
                layout = variant
                base = os.path.join(single_dir, 'v%d' % variant)
                paths, dirs = write_layout(chk.rng, base, files, layout)
                out = os.path.join(base, 'out')
                os.makedirs(out)
                leaves = [f[0] for f in files]
                cross = any(f[2] for f in files)
                casej = {'files': {leaf: open(paths[leaf]).read() for leaf in leaves}, 'layout': layout,
                         'include_dirs': [os.path.relpath(d, base) for d in dirs]}
                chk.count((json.dumps(casej, sort_keys=True),), cross)
                chk.bump('layout:%d' % layout)
                chk.bump('files:%d' % len(files))
                chk.sample({'partition': {leaf: open(paths[leaf]).read()[:300] for leaf in leaves}, 'include_dirs': casej['include_dirs']}, limit=2)
                # compile from the schema directory (absolute paths) or from elsewhere (relative paths)
                if variant == 1:
                    cwd = root
                    args = ['--python_out', os.path.relpath(out, cwd)] + [x for d in dirs for x in ('-I', os.path.relpath(d, cwd))] + \
                           [os.path.relpath(paths[leaf], cwd) for leaf in leaves]
                else:
                    cwd = base
                    args = ['--python_out', out] + [x for d in dirs for x in ('-I', d)] + [paths[leaf] for leaf in leaves]
                if layout == 2 and len(leaves) > 2:
                    # first the two files of the root directory in one run, then the rest
                    inc = [x for d in dirs for x in ('-I', d)]
                    rc, so, se = run_cli(['--python_out', out] + inc + [paths[leaf] for leaf in leaves[-2:]], cwd)
                    if rc == 0:
                        args = ['--python_out', out] + inc + [paths[leaf] for leaf in leaves[:-2]]
                        rc, so, se = run_cli(args, cwd)
                else:
                    rc, so, se = run_cli(args, cwd)
                if rc != 0:
                    chk.property_violation(casej, {'what': 'prophyc failed on a valid multi-file schema', 'stderr': se[:600], 'cwd': cwd, 'args': args})
                    continue
                try:
                    mods = import_package(out, leaves)
                except Exception as ex:  # noqa
                    chk.property_violation(casej, {'what': 'per-file outputs do not import together: %s: %s' % (type(ex).__name__, str(ex)[:300])})
                    continue
                where = {d.name: leaf for leaf, decls, _ in files for d in decls}
                for d in sc.decls:
                    if isinstance(d, S.Const):
                        if getattr(mods[where[d.name]], d.name) != getattr(single, d.name):
                            chk.property_violation(casej, {'what': 'constant %s differs from the single-file build' % d.name})
                for name in names:
                    a, b = getattr(mods[where[name]], name), getattr(single, name)
                    sa = (a._SIZE, a._ALIGNMENT, bool(a._DYNAMIC), bool(a._UNLIMITED))
                    sb = (b._SIZE, b._ALIGNMENT, bool(b._DYNAMIC), bool(b._UNLIMITED))
                    if sa != sb:
                        chk.property_violation(casej, {'what': 'layout of %s differs from the single-file build' % name, 'multi': sa, 'single': sb})
                        continue
                    tree = S.tree(sc, name)
                    for _ in range(2):
                        v = V.gen_value(chk.rng, tree)
                        ma, mb = a(), b()
                        V.apply(ma, tree, v)
                        V.apply(mb, tree, v)
                        try:
                            ea, eb = ma.encode('<'), mb.encode('<')
                        except Exception:  # noqa
                            continue
                        if ea != eb:
                            chk.property_violation(casej, {'what': 'encoding of %s differs from the single-file build' % name, 'value': v})
                # correspondence: which files are parsed, which names are visible
                try:
                    impl = trace_process([paths[leaf] for leaf in leaves], list(dirs))
                except Exception as ex:  # noqa
                    impl = {'error': type(ex).__name__}
                dir_of = {leaf: os.path.dirname(paths[leaf]) for leaf in leaves}
                reqs.append({'op': 'prophyc_files',
                             'files': [{'dir': dir_of[leaf], 'leaf': leaf + '.prophy', 'includes': [i + '.prophy' for i in incs],
                                        'defines': [d.name for d in decls]} for leaf, decls, incs in files],
                             'include_dirs': list(dirs),
                             'mains': [{'dir': dir_of[leaf], 'leaf': leaf + '.prophy'} for leaf in leaves]})
                rows.append((casej, impl))
        ans = client.batch(reqs)
        for (casej, impl), m in zip(rows, ans):
            chk.corr_compared += 1
            want = [{'leaf': r['leaf'] + '.prophy', 'visible': r['visible'], 'parsed': r['parsed']} for r in impl] if isinstance(impl, list) else impl
            if m.get('results') != want:
                chk.correspondence_mismatch('Files.processMains = FileProcessor trace (files parsed, names visible)', casej, want, m)
        include_errors(chk, root)
        naming_cases(chk, root)
    finally:
        shutil.rmtree(root, ignore_errors=True)
    return chk.finish()


def classify_c16(case, detail):
    """D26: isar xi:include of a missing or cyclic file is only a warning (pinned by test_isar.py);
    D119: two different files of one base name cannot be used together (outputs are named after the base name)"""
    if case.get('syntax') == 'isar' and detail.get('rc') == 0:
        return 'D26'
    if case.get('kind') == 'two files of one base name' and 'two different files named' in detail.get('stderr', ''):
        return 'D119'
    return None


def naming_cases(chk, root):
    """file names and include lines (defects D86, D91, D92, D101): split schemas that must compile to the same bytes as their concatenation"""
    d = os.path.join(root, 'naming')
    os.makedirs(d)
    cases = [
        ('file names with a dash (header guards)',
         {'msg-base.prophy': 'struct Bb { u8 b; };\n', 'msg-ext.prophy': '#include "msg-base.prophy"\nstruct Ee { Bb b; u16 e; };\n'},
         'struct Bb { u8 b; };\nstruct Ee { Bb b; u16 e; };\n', 'msg-ext', 'Ee', ['cpp']),
        ('file names differing in a dash / an underscore (header guards)',
         {'msg-base.prophy': 'struct Bb { u8 b; };\n', 'msg_base.prophy': '#include "msg-base.prophy"\nstruct Ee { Bb b; u16 e; };\n'},
         'struct Bb { u8 b; };\nstruct Ee { Bb b; u16 e; };\n', 'msg_base', 'Ee', ['cpp']),
        ('one file seen through a symbolic link',
         {'dirA/common.prophy': 'struct P { u8 p; };\n', 'dirB/common.prophy': '->../dirA/common.prophy', 'dirA/x.prophy': '#include "common.prophy"\nstruct X { P p; };\n',
          'dirB/y.prophy': '#include "common.prophy"\nstruct Y { P p; };\n', 'main.prophy': '#include "dirA/x.prophy"\n#include "dirB/y.prophy"\nstruct M { X x; Y y; };\n'},
         'struct P { u8 p; };\nstruct X { P p; };\nstruct Y { P p; };\nstruct M { X x; Y y; };\n', 'main', 'M', []),
        ('sibling files that are symbolic links into a store',
         {'store/111/a.prophy': '#include "b.prophy"\nstruct A { B b; u32 c; };\n', 'store/222/b.prophy': 'struct B { u8 x; };\n',
          'a.prophy': '->store/111/a.prophy', 'b.prophy': '->store/222/b.prophy'},
         'struct B { u8 x; };\nstruct A { B b; u32 c; };\n', 'a', 'A', ['python']),
        ('inputs that are links to equally named targets',
         {'store/v1/file.prophy': 'struct A { u8 a; };\n', 'store/v2/file.prophy': 'struct B { u16 b; };\n', 'a.prophy': '->store/v1/file.prophy', 'b.prophy': '->store/v2/file.prophy'},
         'struct A { u8 a; };\nstruct B { u16 b; };\n', 'a', 'A', ['python']),
        ('include line followed by a quoted word',
         {'b.prophy': 'struct B { u8 b; };\n', 'a.prophy': '#include "b.prophy" // the "base" types\nstruct A { B b; u16 e; };\n'},
         'struct B { u8 b; };\nstruct A { B b; u16 e; };\n', 'a', 'A', ['python', 'cpp']),
        ('names of a file included by an included file',
         {'c.prophy': 'struct C { u8 c; };\nconst K = 3;\n', 'b.prophy': '#include "c.prophy"\nstruct B { C c; };\n',
          'a.prophy': '#include "b.prophy"\nstruct A { B b; C c[K]; u16 e; };\n'},
         'struct C { u8 c; };\nconst K = 3;\nstruct B { C c; };\nstruct A { B b; C c[K]; u16 e; };\n', 'a', 'A', ['python', 'cpp']),
        ('file names with a dot in the stem',
         {'proto.types.prophy': 'struct Hdr { u16 k; u8 t; };\nconst MAX = 4;\n', 'proto.msgs.prophy': '#include "proto.types.prophy"\nstruct Msg { Hdr h; u32 x[MAX]; };\n',
          'main.prophy': '#include "proto.types.prophy"\n#include "proto.msgs.prophy"\nstruct Top { Hdr h; Msg m; u8 z; };\n'},
         'struct Hdr { u16 k; u8 t; };\nconst MAX = 4;\nstruct Msg { Hdr h; u32 x[MAX]; };\nstruct Top { Hdr h; Msg m; u8 z; };\n', 'main', 'Top', ['cpp']),
        ('file names differing in a dash / its escape sequence (header guards, D170)',
         {'msg-base.prophy': 'struct Bb { u8 b; };\n', 'msg_x2D_base.prophy': '#include "msg-base.prophy"\nstruct Ee { Bb b; u16 e; };\n'},
         'struct Bb { u8 b; };\nstruct Ee { Bb b; u16 e; };\n', 'msg_x2D_base', 'Ee', ['cpp']),
        ('one file under two base names (an alias link): refused, or equal to the concatenation (D186)',
         {'types_v2.prophy': 'struct Id { u32 v; };\n', 'types.prophy': '->types_v2.prophy', 'old.prophy': '#include "types.prophy"\nstruct Old { Id i; };\n',
          'app.prophy': '#include "old.prophy"\n#include "types_v2.prophy"\nstruct App { Old o; Id i; };\n'},
         'struct Id { u32 v; };\nstruct Old { Id i; };\nstruct App { Old o; Id i; };\n', 'app', 'App', ['cpp', 'refusal-ok']),
        ('a file reached through a hard link in another directory (D186)',
         {'src/common/ids.prophy': 'struct Id { u32 v; };\n', 'export/ids.prophy': '=>src/common/ids.prophy', 'src/a.prophy': '#include "common/ids.prophy"\nstruct A { Id i; };\n',
          'app.prophy': '#include "src/a.prophy"\n#include "export/ids.prophy"\nstruct App { A a; Id i; };\n'},
         'struct Id { u32 v; };\nstruct A { Id i; };\nstruct App { A a; Id i; };\n', 'app', 'App', []),
        ('a diamond over one file: directly, and through a symbolic link to a hard link of it',
         {'vendor_a/common.prophy': 'struct Id { u32 v; };\nconst N = 3;\n', 'vendor_b/common.prophy': '=>vendor_a/common.prophy',
          'shared/common.prophy': '->../vendor_b/common.prophy', 'vendor_a/a.prophy': '#include "common.prophy"\nstruct A { Id i[N]; };\n',
          'shared/b.prophy': '#include "common.prophy"\nstruct B { Id i; };\n',
          'app.prophy': '#include "vendor_a/a.prophy"\n#include "shared/b.prophy"\nstruct App { A a; B b; };\n'},
         'struct Id { u32 v; };\nconst N = 3;\nstruct A { Id i[N]; };\nstruct B { Id i; };\nstruct App { A a; B b; };\n', 'app', 'App', []),
        ('two files of one base name',
         {'common/types.prophy': 'struct P { u64 p; };\n', 'net/types.prophy': 'struct Q { u16 q; };\n',
          'app.prophy': '#include "common/types.prophy"\n#include "net/types.prophy"\nstruct A { P p; Q q; u8 z; };\n'},
         'struct P { u64 p; };\nstruct Q { u16 q; };\nstruct A { P p; Q q; u8 z; };\n', 'app', 'A', ['python']),
    ]
    for k, (kind, files, single, main, typ, outputs) in enumerate(cases):
        cd = os.path.join(d, 'n%d' % k)
        os.makedirs(os.path.join(cd, 'one'))
        for n, t in files.items():
            os.makedirs(os.path.dirname(os.path.join(cd, n)) or cd, exist_ok=True)
            if t.startswith('->'):
                os.symlink(t[2:], os.path.join(cd, n))
                continue
            if t.startswith('=>'):
                continue            # hard links: once their targets are written
            with open(os.path.join(cd, n), 'w') as f:
                f.write(t)
        for n, t in files.items():
            if t.startswith('=>'):
                os.link(os.path.join(cd, t[2:]), os.path.join(cd, n))
        with open(os.path.join(cd, 'one', 'one.prophy'), 'w') as f:
            f.write(single)
        casej = {'kind': kind, 'files': files, 'single_file': single}
        chk.count(('naming', kind), True)
        chk.bump('naming:' + kind)
        out = os.path.join(cd, 'out')
        os.makedirs(out)
        outs = (['--python_out', out] if 'python' in outputs else []) + (['--cpp_full_out', out, '--cpp_out', out] if 'cpp' in outputs else []) or ['--void_out']
        inputs = [n for n in files if '/' not in n]     # files in sub-directories are reached through the includes only
        rc, so, se = run_cli(['-I', cd] + outs + [os.path.join(cd, n) for n in inputs], cd)
        rc1, _, se1 = run_cli(['--python_out', os.path.join(cd, 'one'), os.path.join(cd, 'one', 'one.prophy')], cd)
        if rc1 != 0:
            raise core.Infra('single-file reference did not compile: ' + se1[:300])
        if rc != 0 and 'refusal-ok' in outputs and 'Traceback' not in se:
            continue            # a diagnostic is fine here: what must not happen is outputs that differ from the concatenation
        if rc != 0:
            chk.property_violation(casej, {'what': 'the split schema is refused although its concatenation compiles', 'stderr': se[:300]}, classify_c16)
            continue
        if 'python' in outputs:
            try:
                mods = import_package(out, sorted(set(os.path.splitext(f)[0] for f in os.listdir(out) if f.endswith('.py'))))
                ref = import_package(os.path.join(cd, 'one'), ['one'])['one']
                a, b = getattr(mods[main], typ)(), getattr(ref, typ)()
                if a.encode('<') != b.encode('<') or [f.name for f in a._descriptor] != [f.name for f in b._descriptor]:
                    chk.property_violation(casej, {'what': 'split and single-file schemas encode the default message differently'})
            except Exception as ex:  # noqa
                chk.property_violation(casej, {'what': 'generated Python of the split schema is unusable: %s: %s' % (type(ex).__name__, str(ex)[:200])})
        if 'cpp' in outputs:
            for src in (main + '.ppf.cpp', main + '.pp.cpp'):
                p = subprocess.run(['g++', '-std=c++11', '-fsyntax-only', '-I' + os.path.join(REPO, 'prophy_cpp', 'include'), '-I' + out, os.path.join(out, src)],
                                   stdout=subprocess.PIPE, stderr=subprocess.STDOUT, timeout=300)
                if p.returncode != 0:
                    chk.property_violation(casej, {'what': 'generated C++ of the split schema does not compile (%s)' % src, 'log': p.stdout.decode(errors='replace')[:400]})


def include_errors(chk, root):
    """missing and cyclic includes must be reported as errors in both syntaxes"""
    d = os.path.join(root, 'errs')
    os.makedirs(d)
    cases = [
        ('prophy', 'missing', {'m.prophy': '#include "nope.prophy"\nstruct A { u8 a; };\n'}, 'm.prophy', []),
        ('prophy', 'cyclic', {'a.prophy': '#include "b.prophy"\nstruct A { u8 a; };\n', 'b.prophy': '#include "a.prophy"\nstruct B { u8 b; };\n'}, 'a.prophy', []),
        ('prophy', 'self', {'s.prophy': '#include "s.prophy"\nstruct A { u8 a; };\n'}, 's.prophy', []),
        ('isar', 'missing', {'m.xml': '<x xmlns:xi="http://www.xyz.com/1984/XInclude"><xi:include href="nope.xml"/><struct name="A"><member name="a" type="u8"/></struct></x>'}, 'm.xml', ['--isar']),
        ('isar', 'cyclic', {'a.xml': '<x xmlns:xi="http://www.xyz.com/1984/XInclude"><xi:include href="b.xml"/><struct name="A"><member name="a" type="u8"/></struct></x>',
                            'b.xml': '<x xmlns:xi="http://www.xyz.com/1984/XInclude"><xi:include href="a.xml"/><struct name="B"><member name="b" type="u8"/></struct></x>'}, 'a.xml', ['--isar']),
        # the second input reaches C by its real path: from there its include D does not exist (it does next to the link the
        # first input used): the file cached for the first input must not hide that
        ('prophy', 'missing from the real path of a file cached through a link',
         {'real/C.prophy': '#include "D.prophy"\nstruct C { D d; };\n', 'links/C.prophy': '->../real/C.prophy', 'links/D.prophy': 'struct D { u8 x; };\n',
          'main1.prophy': '#include "links/C.prophy"\nstruct M1 { C c; };\n', 'main2.prophy': '#include "real/C.prophy"\nstruct M2 { C c; };\n'},
         ['main1.prophy', 'main2.prophy'], []),
        ('prophy', 'missing from the real path of a file cached through a link (other order)',
         {'real/C.prophy': '#include "D.prophy"\nstruct C { D d; };\n', 'links/C.prophy': '->../real/C.prophy', 'links/D.prophy': 'struct D { u8 x; };\n',
          'main1.prophy': '#include "links/C.prophy"\nstruct M1 { C c; };\n', 'main2.prophy': '#include "real/C.prophy"\nstruct M2 { C c; };\n'},
         ['main2.prophy', 'main1.prophy'], []),
    ]
    for syntax, kind, files, main, extra in cases:
        cd = os.path.join(d, syntax + re.sub(r'\W', '_', kind))
        os.makedirs(cd)
        for n, t in files.items():
            os.makedirs(os.path.dirname(os.path.join(cd, n)), exist_ok=True)
            if t.startswith('->'):
                os.symlink(t[2:], os.path.join(cd, n))
                continue
            with open(os.path.join(cd, n), 'w') as f:
                f.write(t)
        mains = main if isinstance(main, list) else [main]
        rc, so, se = run_cli(extra + ['-I', cd, '--python_out', cd] + [os.path.join(cd, m) for m in mains], cd)
        casej = {'syntax': syntax, 'kind': kind, 'files': files}
        chk.count(('include-error', syntax, kind), True)
        chk.bump('include-error:%s/%s' % (syntax, kind))
        if rc == 0 or 'Traceback' in se:
            chk.property_violation(casej, {'what': '%s include is not reported as an error (exit %d)' % (kind, rc), 'rc': rc, 'stderr': se[:300]}, classify_c16)


# ----------------------------------------------------------------------------- C20

def tree_hash(d):
    h = hashlib.sha256()
    for base, dirs, fns in sorted(os.walk(d)):
        for fn in sorted(fns):
            p = os.path.join(base, fn)
            if os.path.isfile(p):
                h.update(os.path.relpath(p, d).encode() + b'\0' + open(p, 'rb').read() + b'\0')
    return h.hexdigest()


def patched_runs(chk, root):
    """--patch with several independent input files declaring the same names: what is generated for a file must not
    depend on the files compiled with it, nor on their order"""
    for si in range(chk.scale(4, 30)):
        base = os.path.join(root, 'p%d' % si)
        os.makedirs(base)
        texts = {}
        rules = []
        for leaf in ('pa', 'pb', 'pc')[:chk.rng.randint(2, 3)]:
            sc = S.Gen(chk.rng, n_decls=4, shared_sizers=False, prefix='').schema()
            texts[leaf] = S.to_prophy(sc)
            open(os.path.join(base, leaf + '.prophy'), 'w').write(texts[leaf])
            if not rules:
                structs = [d for d in sc.decls if isinstance(d, S.Struct)]
                for d in chk.rng.sample(structs, min(2, len(structs))):
                    rules.append('%s insert 0 zz_patched_%d u8' % (d.name, len(rules)))
                    rules.append('%s rename zz_patched_%d zz_renamed_%d' % (d.name, len(rules) - 1, len(rules) - 1))
        open(os.path.join(base, 'patch.txt'), 'w').write('\n'.join(rules) + '\n')
        leaves = sorted(texts)

        def run(order, tag, hs=0):
            out = os.path.join(base, tag)
            os.makedirs(out)
            rc, so, se = run_cli(['--patch', 'patch.txt', '--python_out', tag, '--cpp_out', tag, '--cpp_full_out', tag] + [leaf + '.prophy' for leaf in order], base, hashseed=hs)
            return rc, se, {fn: open(os.path.join(out, fn), 'rb').read() for fn in sorted(os.listdir(out))}
        ref = {}
        ok = True
        for leaf in leaves:
            rc, se, produced = run([leaf], 'alone_' + leaf)
            if rc != 0:
                ok = False      # the generated rule does not apply to this schema (e.g. name clash): not a determinism question
                break
            ref.update(produced)
        if not ok:
            continue
        orders = [leaves, list(reversed(leaves))]
        for oi, order in enumerate(orders):
            casej = {'files': texts, 'patch': rules, 'order': order}
            chk.count(('patched', si, oi), True)
            chk.bump('patched-multi-file')
            rc, se, produced = run(order, 'together%d' % oi, hs=oi * 7)
            if rc != 0:
                chk.property_violation(casej, {'what': 'prophyc --patch failed on files that compile one by one', 'stderr': se[:500]})
                continue
            for fn, data in produced.items():
                if ref.get(fn) != data:
                    chk.property_violation(casej, {'what': 'generated file %s differs from compiling its input alone with the same patch' % fn})
                    break


def isar_runs(chk, root):
    """isar input lists definitions in any order; the sort that reorders them must not depend on the hash seed"""
    from harness.gen import dag, isar
    for si in range(chk.scale(6, 40)):
        sc = dag.gen_dag(chk.rng, n=chk.rng.randint(6, 12), enum_heavy=(si % 2 == 0))
        order = list(range(len(sc.decls)))
        chk.rng.shuffle(order)
        base = os.path.join(root, 'x%d' % si)
        os.makedirs(base)
        xml = isar.to_isar(sc, order)
        open(os.path.join(base, 'a.xml'), 'w').write(xml)
        ref = None
        for hs in chk.scale([0, 1, 2, 3, 4242], [0, 1, 2, 3, 4, 5, 6, 7, 11, 4242, 99999]):
            out = os.path.join(base, 'o%d' % hs)
            os.makedirs(out)
            rc, so, se = run_cli(['--isar', '--python_out', out, '--cpp_out', out, '--cpp_full_out', out, 'a.xml'], base, hashseed=hs)
            casej = {'xml': xml, 'hashseed': hs}
            chk.count(('isar', si, hs), hs != 0)
            chk.bump('isar-hashseed')
            if rc != 0:
                if ref is None:
                    break       # this definition set is not compilable with every back-end (e.g. C++ full): not a determinism question
                chk.property_violation(casej, {'what': 'prophyc fails under this hash seed only', 'stderr': se[:400]})
                continue
            produced = {fn: open(os.path.join(out, fn), 'rb').read() for fn in sorted(os.listdir(out))}
            if ref is None:
                ref = produced
            elif produced != ref:
                diff = sorted(fn for fn in produced if ref.get(fn) != produced[fn])
                chk.property_violation(casej, {'what': 'generated files differ from the run with hash seed 0', 'files': diff})


def link_layouts(chk, root):
    """random small file systems with symbolic links: the same leaf names in several directories (next to files, next to
    links, in -I directories), files reached directly and through links; every command-line order of the inputs and each
    input alone must generate the same bytes for a file, or end in a diagnostic"""
    import itertools
    leaves = ['a', 'b', 'c', 'x', 'y']
    link_reqs, link_rows = [], []
    for li in range(chk.scale(14, 160)):
        rng = chk.rng
        base = os.path.join(root, 'links%d' % li)
        dirs = ['d%d' % k for k in range(rng.randint(2, 4))]
        incdirs = rng.sample(dirs, rng.randint(0, 2))
        files, listing = {}, {}
        mfiles, mentries = [], []
        for d in dirs:
            os.makedirs(os.path.join(base, d))
        # 1. where things are: a few files with distinct leaves, 0-2 "shadows" (another file of a leaf that exists already,
        #    in another directory), 1-3 links (mostly named like their target, in another directory)
        placed = {}                                     # (dir, leaf) -> ('file', None) | ('link', target)
        for leaf in rng.sample(leaves, rng.randint(3, 5)):
            placed[(rng.choice(dirs), leaf)] = ('file', None)
        for _ in range(rng.randint(0, 2)):
            d, leaf = rng.choice(dirs), rng.choice(sorted(set(l for _, l in placed)))
            placed.setdefault((d, leaf), ('file', None))
        reals = sorted(k for k, v in placed.items() if v[0] == 'file')
        for _ in range(rng.randint(1, 3)):
            target = rng.choice(reals)
            d, leaf = rng.choice(dirs), target[1] if rng.random() < 0.7 else rng.choice(leaves)
            placed.setdefault((d, leaf), ('link', target))
        if rng.random() < 0.4:
            # a hard link to a file (the same file in another place), and sometimes a symbolic link to the hard link
            target = rng.choice(reals)
            d = rng.choice(dirs)
            if placed.setdefault((d, target[1]), ('hard', target)) == ('hard', target) and rng.random() < 0.5:
                placed.setdefault((rng.choice(dirs), target[1]), ('link-to', (d, target[1]), target))
        links_to = {}
        for (d, leaf), entry in placed.items():
            if entry[0] in ('link', 'hard'):
                links_to.setdefault(entry[1], []).append(d)
            elif entry[0] == 'link-to':
                links_to.setdefault(entry[2], []).extend([d, entry[1][0]])
        # 2. what a file includes: later leaves that can be found from one of the places it is reached at (mostly; a cycle or a
        #    missing include now and then must be diagnosed in every order)
        for number, (d, leaf) in enumerate(reals):
            reach = [d] + links_to.get((d, leaf), []) + incdirs
            findable = sorted(set(l for (dd, l) in placed if dd in reach))
            incs = [x for x in findable if x > leaf and rng.random() < 0.6]
            if rng.random() < 0.04:
                incs.append(rng.choice(leaves))
            text = ''.join('#include "%s.prophy"\n' % i for i in incs)
            text += 'struct S_%s_%d { u8 own[%d]; };\n' % (leaf, number, number + 1)
            text += 'struct T_%s { u8 k[%d];%s };\n' % (leaf, number + 1, ''.join(' T_%s f_%s;' % (i, i) for i in incs))
            files[(d, leaf)] = text
            with open(os.path.join(base, d, leaf + '.prophy'), 'w') as f:
                f.write(text)
            listing['%s/%s.prophy' % (d, leaf)] = text
            mfiles.append({'dir': d, 'leaf': leaf + '.prophy', 'includes': [i + '.prophy' for i in incs],
                           'defines': ['S_%s_%d' % (leaf, number), 'T_%s' % leaf]})
            mentries.append({'dir': d, 'leaf': leaf + '.prophy', 'tdir': d, 'tleaf': leaf + '.prophy', 'idir': d, 'ileaf': leaf + '.prophy'})
        for (d, leaf), entry in sorted(placed.items(), key=lambda kv: (kv[1][0] == 'link-to', kv[0])):
            kind = entry[0]
            if kind == 'link':
                target = entry[1]
                os.symlink(os.path.join('..', target[0], target[1] + '.prophy'), os.path.join(base, d, leaf + '.prophy'))
                listing['%s/%s.prophy' % (d, leaf)] = '->../%s/%s.prophy' % target
                mentries.append({'dir': d, 'leaf': leaf + '.prophy', 'tdir': target[0], 'tleaf': target[1] + '.prophy',
                                 'idir': target[0], 'ileaf': target[1] + '.prophy'})
            elif kind == 'hard':
                target = entry[1]
                os.link(os.path.join(base, target[0], target[1] + '.prophy'), os.path.join(base, d, leaf + '.prophy'))
                listing['%s/%s.prophy' % (d, leaf)] = '=>%s/%s.prophy (hard link)' % target
                mentries.append({'dir': d, 'leaf': leaf + '.prophy', 'tdir': d, 'tleaf': leaf + '.prophy', 'idir': target[0], 'ileaf': target[1] + '.prophy'})
                chk.bump('link-layout with a hard link')
            elif kind == 'link-to':
                via, target = entry[1], entry[2]
                os.symlink(os.path.join('..', via[0], via[1] + '.prophy'), os.path.join(base, d, leaf + '.prophy'))
                listing['%s/%s.prophy' % (d, leaf)] = '->../%s/%s.prophy' % via
                mentries.append({'dir': d, 'leaf': leaf + '.prophy', 'tdir': via[0], 'tleaf': via[1] + '.prophy', 'idir': target[0], 'ileaf': target[1] + '.prophy'})
        paths = sorted(listing)
        mains = rng.sample(paths, min(len(paths), rng.randint(2, 3)))
        if len(set(os.path.basename(m) for m in mains)) < len(mains):
            continue                    # two inputs of one base name: refused in every order (collision_cases)
        casej = {'files': listing, 'include_dirs': incdirs, 'inputs': mains}
        chk.count(('links', li), True)
        chk.bump('link-layout')
        runs = {}
        orders = list(itertools.permutations(mains)) + [(m,) for m in mains]
        # the model of the file processor with links on the same file system, for every order
        for order in orders:
            cwd = os.getcwd()
            os.chdir(base)
            try:
                impl = trace_process(list(order), list(incdirs))
                impl = [{'leaf': r['leaf'] + '.prophy', 'visible': r['visible'],
                         'parsed': [next('%s/%s.prophy' % f for f in reals if os.path.samefile(x, os.path.join(base, f[0], f[1] + '.prophy'))) for x in r['parsed']],
                         'shape': include_shape(r['nodes'], 'S_')} for r in impl]
            except Exception as ex:  # noqa
                impl = {'error': {'FileNotFoundError': 'notFound', 'CyclicIncludeError': 'cyclic', 'SameNameError': 'sameName',
                                  'AmbiguousIncludeError': 'ambiguous', 'IncludeDepthError': 'tooDeep', 'TwoNamesError': 'twoNames'}.get(type(ex).__name__, type(ex).__name__)}
            finally:
                os.chdir(cwd)
            link_reqs.append({'op': 'prophyc_files_links', 'entries': mentries, 'files': mfiles, 'include_dirs': list(incdirs),
                              'mains': [{'dir': os.path.dirname(m), 'leaf': os.path.basename(m)} for m in order]})
            link_rows.append((dict(casej, order=list(order), model_files=mfiles), impl))
        for oi, order in enumerate(orders):
            out = os.path.join(base, 'out%d' % oi)
            os.makedirs(out)
            rc, so, se = run_cli([x for d in incdirs for x in ('-I', d)] + ['--cpp_out', out] + list(order), base)
            if 'Traceback' in se:
                chk.property_violation(dict(casej, order=list(order)), {'what': 'prophyc crashed', 'stderr': se[-300:]})
            runs[order] = (rc, dict((fn, open(os.path.join(out, fn), 'rb').read()) for fn in sorted(os.listdir(out))) if rc == 0 else {}, se[:200])
        full = [o for o in orders if len(o) == len(mains)]
        if len(set(runs[o][0] == 0 for o in full)) > 1:
            ok = next(o for o in full if runs[o][0] == 0)
            bad = next(o for o in full if runs[o][0] != 0)
            chk.property_violation(casej, {'what': 'the order %s compiles, the order %s is refused: %s' % (list(ok), list(bad), runs[bad][2])})
            continue
        seen = {}
        for o in orders:
            for fn, data in runs[o][1].items():
                if fn in seen and seen[fn][1] != data:
                    chk.property_violation(casej, {'what': 'generated file %s differs between the inputs %s and %s' % (fn, list(seen[fn][0]), list(o))})
                    break
                seen.setdefault(fn, (o, data))
            else:
                continue
            break
    for (casej, impl), m in zip(link_rows, client.batch(link_reqs)):
        if isinstance(impl, dict) and impl['error'] in ('ParseError', 'ModelError') and 'error' not in m:
            chk.bump('link-layout: schema error (two files define one name)')
            continue            # the model knows files and names, not the prophy language
        chk.corr_compared += 1
        chk.bump('link-layout outcome: ' + (impl['error'] if isinstance(impl, dict) else 'ok'))
        marker_of = dict(('%s/%s' % (f['dir'], f['leaf']), f['defines'][0]) for f in casej['model_files'])
        for r in m.get('results', []) + [a for a in m.get('alone', []) if a]:
            r['shape'] = [[d, marker_of.get(g)] for d, g in r['shape']]
        got = {'error': m['error']} if 'error' in m else m.get('results')
        if isinstance(impl, dict) and 'error' in m:
            # the parser goes on after a missing or cyclic include to report every error of the file: which error ends
            # the run first is not compared, only that the run ends with one
            pass
        elif got != impl:
            chk.correspondence_mismatch('FilesL.processMains = FileProcessor trace on a file system with links', casej, impl, got)
        elif 'results' in m:
            # what the theorem C20_links_cache_transparent says: each input gets what a fresh processor gives it alone
            for r, alone in zip(m['results'], m['alone']):
                if alone is not None and (r['visible'], r['shape']) != (alone['visible'], alone['shape']):
                    chk.property_violation(casej, {'what': 'input %s is compiled from other files in this run than when it is compiled alone' % r['leaf'],
                                                   'here': [r['visible'], r['shape']], 'alone': [alone['visible'], alone['shape']]})


def collision_cases(chk, root):
    """independent inputs must not influence each other's outputs: two inputs of one base name (D84), a generator error for one
    input (D85) - whatever the order on the command line, the same files with the same bytes"""
    d = os.path.join(root, 'coll')
    cases = [
        ('two inputs of one base name', {'d1/x.prophy': 'struct A { u8 a; };\n', 'd2/x.prophy': 'struct B { u64 b; };\n'}, ['d1/x.prophy', 'd2/x.prophy'],
         ['--python_out', '@O', '--cpp_full_out', '@O']),
        ('an input of the base name of a file included from elsewhere',
         {'a.prophy': '#include "b.prophy"\nstruct A { B b; };\n', 'b.prophy': 'struct B { u8 b; };\n', 'other/b.prophy': 'struct Other { u64 o; };\n'},
         ['a.prophy', 'other/b.prophy'], ['--python_out', '@O']),
        ('a file reached directly and through a symbolic link in a directory with another d.prophy',
         {'r/c.prophy': '#include "d.prophy"\nstruct C { D d; };\n', 'r/d.prophy': 'struct D { u8 x; };\n', 'r/e.prophy': '#include "c.prophy"\nstruct E { C c; };\n',
          'l/d.prophy': 'struct D { u64 x; u64 y; };\n', 'l/c.prophy': '->../r/c.prophy'},
         ['l/c.prophy', 'r/e.prophy'], ['--cpp_out', '@O']),
        ('an ordinary file included by a linked file; its own include exists next to the link and in an -I directory',
         {'real/a.prophy': '#include "r.prophy"\nstruct A { R r; };\n', 'real/r.prophy': '#include "c.prophy"\nstruct R { u8 x[R_LEN]; };\n',
          'links/a.prophy': '->../real/a.prophy', 'links/c.prophy': 'const R_LEN = 9;\n', 'inc/c.prophy': 'const R_LEN = 3;\n'},
         ['links/a.prophy', 'real/r.prophy'], ['-I', '@D/inc', '--python_out', '@O']),
        ('a file used through a link and directly; its include exists next to the link and in an -I directory (D167)',
         {'real/target.prophy': '#include "x.prophy"\nstruct T { W w; };\n', 'dir/link.prophy': '->../real/target.prophy',
          'dir/x.prophy': 'typedef u8 W;\n', 'inc/x.prophy': 'typedef u64 W;\n',
          'a.prophy': '#include "dir/link.prophy"\nstruct A { T t; };\n', 'b.prophy': '#include "real/target.prophy"\nstruct B { T t; };\n'},
         ['a.prophy', 'b.prophy'], ['-I', '@D/inc', '--cpp_out', '@O', '--python_out', '@O']),
        ('a file used through two links to it, found by a file that is itself used through a link and directly (D180)',
         {'dirA/t.prophy': '#include "x.prophy"\nstruct T { W w; };\n', 'real/y.prophy': '#include "t.prophy"\nstruct Y { T t; };\n',
          'p/y.prophy': '->../real/y.prophy', 'p/t.prophy': '->../dirA/t.prophy', 'inc2/t.prophy': '->../dirA/t.prophy',
          'p/x.prophy': 'typedef u8 W;\n', 'inc/x.prophy': 'typedef u64 W;\n',
          'a.prophy': '#include "p/y.prophy"\nstruct A { Y y; };\n', 'b.prophy': '#include "real/y.prophy"\nstruct B { Y y; };\n'},
         ['a.prophy', 'b.prophy'], ['-I', '@D/inc2', '-I', '@D/inc', '--cpp_out', '@O']),
        ('the same, the include exists next to the link only',
         {'real/target.prophy': '#include "x.prophy"\nstruct T { W w; };\n', 'dir/link.prophy': '->../real/target.prophy',
          'dir/x.prophy': 'typedef u8 W;\n',
          'a.prophy': '#include "dir/link.prophy"\nstruct A { T t; };\n', 'b.prophy': '#include "real/target.prophy"\nstruct B { T t; };\n'},
         ['a.prophy', 'b.prophy'], ['--python_out', '@O']),
        ('an output that cannot be written: a directory named b.py (D168)',
         {'a.prophy': 'struct A { u8 a; };\n', 'b.prophy': 'struct B { u8 b; };\n', 'out/b.py/keep': ''},
         ['a.prophy', 'b.prophy'], ['--cpp_out', '@O', '--python_out', '@O']),
        ('an output that cannot be written: a dangling link named b.py (D185)',
         {'a.prophy': 'struct A { u8 a; };\n', 'b.prophy': 'struct B { u8 b; };\n', 'out/b.py': '->nowhere/b.py'},
         ['a.prophy', 'b.prophy'], ['--python_out', '@O']),
        ('two outputs that are one file: a.py is a symbolic link to b.py (D194)',
         {'a.prophy': 'struct A { u8 a; };\n', 'b.prophy': 'struct B { u8 b; };\n', 'out/b.py': '', 'out/a.py': '->b.py'},
         ['a.prophy', 'b.prophy'], ['--python_out', '@O']),
        ('two outputs that are one file: b.py is a dangling link to a.py (D194)',
         {'a.prophy': 'struct A { u8 a; };\n', 'b.prophy': 'struct B { u8 b; };\n', 'out/b.py': '->a.py'},
         ['a.prophy', 'b.prophy'], ['--python_out', '@O']),
        ('a failing run with a dangling link among the outputs: its target is not left behind (D194)',
         {'a.prophy': 'struct A { u8 a; };\n', 'b.prophy': 'struct B { u8 b; };\n', 'out/a.py': '->sub/a.py', 'out/sub/keep': 'kept', 'out/b.py/keep': ''},
         ['a.prophy', 'b.prophy'], ['--python_out', '@O']),
        ('a write that fails after the first output was written: b.py is a link to /dev/full (D194)',
         {'a.prophy': 'struct A { u8 a; };\n', 'b.prophy': 'struct B { u8 b; };\n', 'out/b.py': '->/dev/full'},
         ['a.prophy', 'b.prophy'], ['--python_out', '@O']),
        ('an output whose name is longer than the file system allows (D185)',
         {'a.prophy': 'struct A { u8 a; };\n', 'b' * 248 + '.prophy': 'struct B { u8 b; };\n'},
         ['a.prophy', 'b' * 248 + '.prophy'], ['--python_out', '@O', '--cpp_full_out', '@O']),
        ('a chain of 120 includes and its lower half (D171)',
         dict(('c%d.prophy' % k, ('#include "c%d.prophy"\n' % (k + 1) if k < 119 else '') + 'struct S%d { u8 x; };\n' % k) for k in range(120)),
         ['c0.prophy', 'c60.prophy'], ['--python_out', '@O']),
        ('a chain of 70 includes: over the limit of 64, within what the interpreter\'s stack allows',
         dict(('c%d.prophy' % k, ('#include "c%d.prophy"\n' % (k + 1) if k < 69 else '') + 'struct S%d { u8 x; };\n' % k) for k in range(70)),
         ['c0.prophy', 'c35.prophy'], ['--python_out', '@O']),
        ('one input the C++ full generator refuses', {'good.prophy': 'struct Good { u8 a; };\n', 'two.prophy': 'struct Two { u8 n; u8 a<@n>; u16 b<@n>; };\n'},
         ['good.prophy', 'two.prophy'], ['--python_out', '@O', '--cpp_full_out', '@O']),
    ]
    for k, (kind, files, inputs, outs) in enumerate(cases):
        results = []
        for oi, order in enumerate((inputs, list(reversed(inputs)))):
            cd = os.path.join(d, 'c%d_%d' % (k, oi))
            for n, t in files.items():
                os.makedirs(os.path.dirname(os.path.join(cd, n)), exist_ok=True)
                if t.startswith('->'):
                    os.symlink(t[2:], os.path.join(cd, n))
                    continue
                with open(os.path.join(cd, n), 'w') as f:
                    f.write(t)
            out = os.path.join(cd, 'out')
            os.makedirs(out, exist_ok=True)
            rc, so, se = run_cli([a.replace('@O', out).replace('@D', cd) for a in outs] + [os.path.join(cd, n) for n in order], cd)
            results.append((rc, tree_hash(out), sorted(os.listdir(out))))
            if oi == 0 and rc == 0:
                # compiling one file never changes what is generated for another: each input alone gives the same files
                for n in inputs:
                    alone = os.path.join(cd, 'alone_' + os.path.splitext(os.path.basename(n))[0])
                    os.makedirs(alone)
                    rca, _, sea = run_cli([a.replace('@O', alone).replace('@D', cd) for a in outs] + [os.path.join(cd, n)], cd)
                    differing = [fn for fn in sorted(os.listdir(alone)) if rca == 0 and fn.startswith(os.path.splitext(os.path.basename(n))[0] + '.')
                                 and os.path.exists(os.path.join(out, fn)) and open(os.path.join(out, fn), 'rb').read() != open(os.path.join(alone, fn), 'rb').read()]
                    if rca != 0 or differing:
                        chk.property_violation({'kind': kind, 'files': files, 'inputs': inputs, 'alone': n},
                                               {'what': 'what is generated for %s depends on the files compiled with it' % n, 'differing': differing,
                                                'rc_alone': rca, 'stderr': sea[:200]})
        casej = {'kind': kind, 'files': files, 'inputs': inputs}
        chk.count(('collision', kind), True)
        chk.bump('collision:' + kind)
        # the same inputs spelled relative to the working directory (the runs above name them by absolute path)
        cd = os.path.join(d, 'c%d_rel' % k)
        for n, t in files.items():
            os.makedirs(os.path.dirname(os.path.join(cd, n)), exist_ok=True)
            if t.startswith('->'):
                os.symlink(t[2:], os.path.join(cd, n))
            else:
                with open(os.path.join(cd, n), 'w') as f:
                    f.write(t)
        os.makedirs(os.path.join(cd, 'out'), exist_ok=True)
        rc, so, se = run_cli([a.replace('@O', 'out').replace('@D/', '').replace('@D', '.') for a in outs] + list(inputs), cd)
        relative = (rc, tree_hash(os.path.join(cd, 'out')), sorted(os.listdir(os.path.join(cd, 'out'))))
        if relative != results[0]:
            chk.property_violation(casej, {'what': 'the outcome depends on how the input paths are spelled (relative to the working directory / absolute)',
                                           'absolute': [results[0][0], results[0][2]], 'relative': [relative[0], relative[2]], 'stderr': se[:200]})
        if results[0] != results[1]:
            chk.property_violation(casej, {'what': 'the two command-line orders of the same inputs leave different outputs',
                                           'first': [results[0][0], results[0][2]], 'reversed': [results[1][0], results[1][2]]})
        elif results[0][0] == 0 and kind in ('two inputs of one base name', 'an input of the base name of a file included from elsewhere'):
            chk.property_violation(casej, {'what': 'two inputs of one base name were compiled into one set of files: one input left no output',
                                           'files': results[0][2]})


def write_layouts(chk, root):
    """random output directories (files that exist, files that do not, symbolic and hard links between the targets, dangling
    links, links to files outside, a directory in the way, a link to /dev/full) given to the real `write_files` in two orders
    of the targets: success and every file are the same (the property), and both are what `FilesW.writeFiles` computes
    (theorems C20_write_files_*)"""
    from prophyc.generators import base as gbase
    have_full = os.path.exists('/dev/full')
    reqs, rows = [], []
    for li in range(chk.scale(60, 600)):
        rng = chk.rng
        n = rng.randint(2, 5)
        kinds = []
        for k in range(n):
            r = rng.random()
            # mostly layouts that can be written: a link between two targets, a directory or a full device makes the whole run fail
            kinds.append('new' if r < 0.40 else 'old' if r < 0.72 else 'ext' if r < 0.80 else 'extmissing' if r < 0.87 else
                         'sym' if r < 0.92 else 'hard' if r < 0.94 else 'dir' if r < 0.97 else 'full')
        plain = [k for k in range(n) if kinds[k] in ('new', 'old', 'dir')]
        spec = []            # per target: (kind, other target it links to)
        for k in range(n):
            kind, to = kinds[k], None
            if kind == 'full' and not have_full:
                kind = 'old'
            if kind == 'sym':
                others = [j for j in plain if j != k]
                if others:
                    to = rng.choice(others)
                else:
                    kind = 'new'
            if kind == 'hard':
                others = [j for j in range(n) if j != k and kinds[j] == 'old']
                if others:
                    to = rng.choice(others)
                else:
                    kind = 'old'
            spec.append((kind, to))
        # identities: the file a target's open reaches (None: the open fails)
        ident, node = {}, []
        for k, (kind, to) in enumerate(spec):
            if kind in ('new', 'old', 'ext', 'extmissing'):
                ident[k] = len(set(ident.values())) + 1
            elif kind == 'full':        # every link to /dev/full reaches the one device file
                ident[k] = next((ident[j] for j in ident if spec[j][0] == 'full'), len(set(ident.values())) + 1)
        for k, (kind, to) in enumerate(spec):
            node.append(None if kind == 'dir' or (to is not None and spec[to][0] == 'dir') else ident[k] if to is None else ident[to])
        exists = {}
        for k, (kind, to) in enumerate(spec):
            if kind in ('old', 'ext'):
                exists[ident[k]] = 'old text of %d, longer than what is generated\n' % k * 3
            elif kind == 'full':
                exists[ident[k]] = ''
        full = sorted(set(ident[k] for k, (kind, to) in enumerate(spec) if kind == 'full'))
        texts = ['generated %d\n' % k * (k + 1) for k in range(n)]
        order = list(range(n))
        rng.shuffle(order)
        orders = [list(range(n)), order if order != list(range(n)) else list(reversed(range(n)))]

        def build(d):
            os.makedirs(d)
            where = {}
            for k, (kind, to) in enumerate(spec):       # the files first, links afterwards
                p = os.path.join(d, 't%d.py' % k)
                if kind == 'old':
                    with open(p, 'w') as f:
                        f.write(exists[ident[k]])
                elif kind == 'dir':
                    os.makedirs(os.path.join(p, 'kept'))
                elif kind in ('ext', 'extmissing'):
                    os.makedirs(os.path.join(d, 'elsewhere'), exist_ok=True)
                    if kind == 'ext':
                        with open(os.path.join(d, 'elsewhere', 'e%d.py' % k), 'w') as f:
                            f.write(exists[ident[k]])
                    os.symlink(os.path.join('elsewhere', 'e%d.py' % k), p)
                    where[ident[k]] = os.path.join(d, 'elsewhere', 'e%d.py' % k)
                elif kind == 'full':
                    os.symlink('/dev/full', p)
                if kind in ('new', 'old'):
                    where[ident[k]] = p
            for k, (kind, to) in enumerate(spec):
                p = os.path.join(d, 't%d.py' % k)
                if kind == 'sym':
                    os.symlink('t%d.py' % to, p)
                elif kind == 'hard':
                    os.link(os.path.join(d, 't%d.py' % to), p)
            return where

        seen, repeated = [], []
        for oi, o in enumerate(orders):
            d = os.path.join(root, 'w%d_%d' % (li, oi))
            where = build(d)
            try:
                gbase.write_files([(os.path.join(d, 't%d.py' % k), texts[k]) for k in o])
                ok, err = True, ''
            except EnvironmentError as ex:
                ok, err = False, str(ex)[:160]
            contents = {}
            for i, p in sorted(where.items()):
                contents[i] = open(p).read() if os.path.isfile(p) else None
            # nothing may be left that the layout does not know (a file made through a dangling link is `where` of its identity)
            stray = sorted(fn for fn in os.listdir(d) if fn not in ['t%d.py' % k for k in range(n)] + ['elsewhere'])
            seen.append((ok, contents, stray, err))
            # the same run once more, the targets in the other order (theorem C20_write_files_repeatable): it ends the same way and
            # leaves every file as the first run left it
            try:
                gbase.write_files([(os.path.join(d, 't%d.py' % k), texts[k]) for k in orders[1 - oi]])
                ok2 = True
            except EnvironmentError:
                ok2 = False
            again = dict((i, open(p).read() if os.path.isfile(p) else None) for i, p in sorted(where.items()))
            if (ok2, again) != (ok, contents):
                repeated.append({'first': {'ok': ok, 'files': contents}, 'second': {'ok': ok2, 'files': again}, 'order': o})
            shutil.rmtree(d, ignore_errors=True)
        casej = {'targets': [{'name': 't%d.py' % k, 'is': kind, 'link_to': None if to is None else 't%d.py' % to} for k, (kind, to) in enumerate(spec)],
                 'orders': orders}
        chk.count(('write-layout', li), any(kind not in ('new', 'old') for kind, _ in spec))
        chk.bump('write-layout: ' + ('written' if seen[0][0] else 'refused'))
        for kind, _ in spec:
            chk.bump('write-layout target: ' + kind)
        if repeated:
            chk.property_violation(casej, dict({'what': 'the same run repeated in the same output directory ends differently or leaves other files'}, **repeated[0]))
        if seen[0][:3] != seen[1][:3]:
            chk.property_violation(casej, {'what': 'what write_files leaves depends on the order of the targets',
                                           'first': {'ok': seen[0][0], 'files': seen[0][1], 'stray': seen[0][2], 'error': seen[0][3]},
                                           'second': {'ok': seen[1][0], 'files': seen[1][1], 'stray': seen[1][2], 'error': seen[1][3]}})
            continue
        if not seen[0][0] and any(v is not None and v.startswith('generated') for v in seen[0][1].values()):
            chk.property_violation(casej, {'what': 'a failing run left generated text behind', 'files': seen[0][1], 'error': seen[0][3]})
        ids = sorted(i for i in where if i not in full)
        reqs.append({'op': 'prophyc_write_files', 'targets': [[node[k], texts[k]] for k in orders[0]], 'files': [[i, t] for i, t in sorted(exists.items())],
                     'full': full, 'ids': ids})
        rows.append((casej, {'ok': seen[0][0], 'contents': [seen[0][1][i] for i in ids]}))
    for (casej, impl), m in zip(rows, client.batch(reqs)):
        chk.corr_compared += 1
        if m != impl:
            chk.correspondence_mismatch('FilesW.writeFiles = write_files on an output directory with links', casej, impl, m)


def run_c20(tier):
    chk = core.Check('C20', tier)
    chk.rule = ('multi-file and single-file schemas compiled by `python -m prophyc` (python + C++ full + C++ raw outputs) under different '
                'PYTHONHASHSEED values, from different working directories, and with different command-line orders of the input files; '
                'all generated files are compared byte for byte with the first run; a case = (schema, configuration); non-trivial = '
                'configuration differing from the reference in hash seed, cwd or argument order.')
    chk.lean = core.lean_obligations('C20', thorough=(tier == 'thorough'))
    root = tempfile.mkdtemp(prefix='prophy-verif-')
    creqs, crows = [], []
    try:
        for si in range(chk.scale(6, 40)):
            sc = S.Gen(chk.rng, n_decls=8, shared_sizers=False).schema()
            files = partition(chk.rng, sc, chk.rng.randint(2, 4))
            base = os.path.join(root, 'd%d' % si)
            paths, dirs = write_layout(chk.rng, base, files, 1)
            leaves = [f[0] for f in files]
            ref = None
            configs = [(0, base, leaves)]
            for hs in chk.scale([1, 4242], [1, 2, 3, 4242, 99999]):
                configs.append((hs, base, leaves))
            configs.append((7, root, leaves))
            configs.append((0, base, list(reversed(leaves))))
            configs.append(('prefilled', base, leaves))      # the output directory already holds (longer) files of the same names
            shuffled = list(leaves)
            chk.rng.shuffle(shuffled)
            configs.append((13, root, shuffled))
            # one file alone vs. together with the others
            configs.append((0, base, leaves[-1:]))
            # model side: names visible per file do not depend on the order of the inputs / on cache hits
            dir_of = {leaf: os.path.dirname(paths[leaf]) for leaf in leaves}
            for order in (leaves, list(reversed(leaves))):
                try:
                    impl = trace_process([paths[leaf] for leaf in order], list(dirs))
                except Exception as ex:  # noqa
                    impl = {'error': type(ex).__name__}
                creqs.append({'op': 'prophyc_files',
                              'files': [{'dir': dir_of[leaf], 'leaf': leaf + '.prophy', 'includes': [i + '.prophy' for i in incs],
                                         'defines': [d.name for d in decls]} for leaf, decls, incs in files],
                              'include_dirs': list(dirs),
                              'mains': [{'dir': dir_of[leaf], 'leaf': leaf + '.prophy'} for leaf in order]})
                crows.append(({'files': {leaf: open(paths[leaf]).read() for leaf in leaves}, 'order': order}, impl))
            for ci, (hs, cwd, order) in enumerate(configs):
                out = os.path.join(base, 'out%d' % ci)
                os.makedirs(out)
                if hs == 'prefilled':
                    hs = 0
                    for fn, data in (ref or {}).items():
                        with open(os.path.join(out, fn), 'wb') as f:
                            f.write(data + b'\n// left over from an earlier, longer version of the schema\n' * 20)
                args = ['--python_out', os.path.relpath(out, cwd), '--cpp_full_out', os.path.relpath(out, cwd), '--cpp_out', os.path.relpath(out, cwd)] + \
                       [x for d in dirs for x in ('-I', os.path.relpath(d, cwd))] + [os.path.relpath(paths[leaf], cwd) for leaf in order]
                rc, so, se = run_cli(args, cwd, hashseed=hs)
                casej = {'files': {leaf: open(paths[leaf]).read() for leaf in leaves}, 'hashseed': hs, 'cwd': os.path.relpath(cwd, root), 'order': order}
                chk.count((si, ci), ci > 0)
                if rc != 0:
                    chk.property_violation(casej, {'what': 'prophyc failed', 'stderr': se[:500]})
                    continue
                produced = {fn: open(os.path.join(out, fn), 'rb').read() for fn in sorted(os.listdir(out))}
                if ref is None:
                    ref = produced
                    chk.sample({'inputs': casej['files'], 'outputs': sorted(produced)}, limit=1)
                    continue
                for fn, data in produced.items():
                    if fn in ref and ref[fn] != data:
                        chk.property_violation(casej, {'what': 'generated file %s differs from the reference run' % fn,
                                                       'reference_sha': hashlib.sha256(ref[fn]).hexdigest()[:12], 'this_sha': hashlib.sha256(data).hexdigest()[:12]})
                if len(order) == len(leaves) and set(produced) != set(ref):
                    chk.property_violation(casej, {'what': 'set of generated files differs', 'reference': sorted(ref), 'this': sorted(produced)})
        patched_runs(chk, root)
        isar_runs(chk, root)
        collision_cases(chk, root)
        link_layouts(chk, root)
        write_layouts(chk, root)
        for (casej, impl), m in zip(crows, client.batch(creqs)):
            chk.corr_compared += 1
            want = [{'leaf': r['leaf'] + '.prophy', 'visible': r['visible'], 'parsed': r['parsed']} for r in impl] if isinstance(impl, list) else impl
            if m.get('results') != want:
                chk.correspondence_mismatch('Files.processMains = FileProcessor trace for this input order', casej, want, m)
    finally:
        shutil.rmtree(root, ignore_errors=True)
    return chk.finish()

"""
C13: prophyc always terminates with outputs or a designed diagnostic.

The entry point `prophyc.main(args)` is run in-process under an interval timer on token- and
structure-level corruptions of valid schemas (prophy and isar syntax), random text, bad patch
files, cyclic / missing includes, recursive definitions and option combinations.  Outcome classes:
success, ProphycError (the designed channel), another exception, time-out.  The property is
violated by a time-out or by one of the internal exception types it names.

(PLY, ElementTree and argparse are outside the Lean model; for them this differential run is the
only evidence - the claim level of C13 is partial.)
"""
import json
import os
import re
import shutil
import signal
import tempfile

from harness import core
from harness.gen import schema as S, isar, dag
from harness.impl import py_impl
from harness.model import client

INTERNAL = (ValueError, KeyError, AttributeError, TypeError, IndexError, AssertionError, RecursionError)
TIME_BOX = 10.0


class TimeBox(BaseException):
    pass


def _alarm(signum, frame):
    raise TimeBox()


def run_main(args, box=None):
    """('ok' | 'ProphycError' | 'timeout' | exception class name, message)"""
    import prophyc
    # CPU time of this process (ITIMER_PROF), not wall clock: a loaded machine must not look like a hanging prophyc
    old = signal.signal(signal.SIGPROF, _alarm)
    signal.setitimer(signal.ITIMER_PROF, box or TIME_BOX)
    try:
        py_impl.run_prophyc(args)
        return 'ok', ''
    except TimeBox:
        return 'timeout', ''
    except prophyc.ProphycError as e:
        return 'ProphycError', str(e)
    except SystemExit as e:
        return 'SystemExit', str(e)
    except BaseException as e:  # noqa
        kind = type(e).__name__
        if isinstance(e, INTERNAL):
            kind = 'internal:' + kind
        return kind, str(e)[:300]
    finally:
        signal.setitimer(signal.ITIMER_PROF, 0)
        signal.signal(signal.SIGPROF, old)


TOKENS = ['struct', 'union', 'enum', 'typedef', 'const', 'bytes', 'u8', 'u64', 'i32', 'float', '{', '}', '[', ']', '<', '>', '<>', '<...>',
          ';', ':', ',', '=', '*', '@', '+', '-', '/', '<<', '>>', '(', ')', '#include', '"x.prophy"', '0', '1', '-1', '07', '09', '0x', '0xZZ',
          '99999999999999999999999', 'A', 'num_of_a', '\x00', '\xff', 'é', '"', "'", '//', '/*', '*/', '\n', '1 << 200000', '1 / 0', '1 << -1', '((((', '....']


def corrupt_text(rng, text):
    toks = re.findall(r'\s+|\w+|[^\w\s]', text)
    r = rng.random()
    if not toks:
        return rng.choice(TOKENS)
    if r < 0.25:
        i = rng.randrange(len(toks))
        del toks[i:i + rng.randint(1, 3)]
    elif r < 0.50:
        toks.insert(rng.randrange(len(toks) + 1), rng.choice(TOKENS))
    elif r < 0.70:
        toks[rng.randrange(len(toks))] = rng.choice(TOKENS)
    elif r < 0.80:
        out = ''.join(toks)
        return out[:rng.randrange(len(out) + 1)]
    elif r < 0.90:
        i, j = rng.randrange(len(toks)), rng.randrange(len(toks))
        toks[i], toks[j] = toks[j], toks[i]
    else:
        k = rng.randrange(len(toks))
        toks = toks[:k] + toks[k:k + 5] * rng.randint(2, 4) + toks[k:]
    return ''.join(toks)


STRUCTURED_PROPHY = [
    'struct A { A a; };', 'struct A { B b; }; struct B { A a; };', 'typedef T T;', 'typedef A B; typedef B A;',
    'const A = A;', 'const A = B; const B = A;', 'enum E { E_A = E_A };', 'struct A { u8 a[0]; };', 'struct A { u8 a[-1]; };',
    'struct A { u8 a<...>; u8 b; };', 'struct A { u8 a<@b>; u8 b; };', 'struct A { u8 a<@zz>; };', 'struct A { float n; u8 a<@n>; };',
    'union U { 1: u8 a; 1: u8 b; };', 'union U { 1: u8 a; 2: u8 a; };', 'struct A { u8 a; u8 a; };', 'struct A { u8 a; }; struct A { u8 b; };',
    'const A = 1 / 0;', 'const A = 1 << -1;', 'const A = 7 / 2; struct S { u8 x[A]; };', 'const A = 1 << 64; enum E { E_A = A };',
    'const A = ' + '(' * 300 + '1' + ')' * 300 + ';', 'struct A { u8 a<99999999999999>; };', '#include "missing.prophy"', '#import "x"',
    'struct A { bytes b; };', 'struct A { bytes* b; };', 'struct A { u8** b; };', '', '\n\n', ';', '}', 'struct', 'struct A {', 'struct A { };',
    'union U { };', 'enum E { };', 'enum E { A = 1, };', 'struct A { u8 a<>; }; struct B { A a[2]; };', 'struct G { u8 g<...>; }; struct H { G g; u8 t; };',
    '\xff\xfe binary', 'struct é { u8 a; };', 'const A = 0x; ', 'const A = 08;', 'struct A { u8 num_of_a; u8 a<>; };',
]

STRUCTURED_ISAR = [
    '<x><struct name="A"><member name="a" type="A"/></struct></x>',
    '<x><struct name="A"><member name="b" type="B"/></struct><struct name="B"><member name="a" type="A"/></struct></x>',
    '<x><typedef name="T" type="T"/></x>', '<x><typedef name="A" type="B"/><typedef name="B" type="A"/></x>',
    '<x><constant name="A" value="A"/></x>', '<x><constant name="A" value="B"/><constant name="B" value="A"/></x>',
    '<x><constant name="A" value="1/0"/></x>', '<x><constant name="A" value="1 &lt;&lt; -1"/></x>', '<x><constant name="A" value="((("/></x>',
    '<x><constant name="A"/></x>', '<x><constant value="1"/></x>', '<x><struct><member name="a" type="u8"/></struct></x>',
    '<x><struct name="A"><member type="u8"/></struct></x>', '<x><struct name="A"><member name="a"/></struct></x>',
    '<x><struct name="A"><member name="a" type="u8"><dimension/></member></struct></x>',
    '<x><struct name="A"><member name="a" type="u8"><dimension size=""/></member></struct></x>',
    '<x><struct name="A"><member name="a" type="u8"><dimension size="-1"/></member></struct></x>',
    '<x><struct name="A"><member name="a" type="u8"><dimension size="K"/></member></struct></x>',
    '<x><typedef name="T" type="u8"/><struct name="A"><member name="a" type="u8"><dimension size="T"/></member></struct></x>',
    '<x><typedef name="T" type="u8"/><struct name="A"><member name="a" type="u8"><dimension size="T+1"/></member></struct></x>',
    '<x><struct name="A"><member name="a" type="u8"><dimension variableSizeFieldName="@"/></member></struct></x>',
    '<x><struct name="A"><member name="a" type="u8"><dimension variableSizeFieldName=""/></member></struct></x>',
    '<x><struct name="A"><member name="a" type="u8"/><member name="a" type="u8"/></struct></x>',
    '<x><enum name="E"><enum-member name="A" value="1"/><enum-member name="B" value="1"/></enum></x>',
    '<x><enum name="E"><enum-member name="A"/></enum></x>', '<x><enum name="E"><enum-member name="A" value="-1"/></enum></x>',
    '<x><union name="U"><member name="a" type="u8"/></union></x>', '<x><union name="U"><member name="a" type="u8" discriminatorValue="x"/></union></x>',
    '<x><typedef name="T" primitiveType="nonsense"/></x>', '<x><typedef name="T"/></x>', '<x><message name="M"/></x>', '<x/>', '', '<x>', 'not xml', '<x><struct name="A">',
    '<x xmlns:xi="http://www.w3.org/2001/XInclude"><xi:include href="nope.xml"/></x>', '<x xmlns:xi="http://www.w3.org/2001/XInclude"><xi:include/></x>',
    '<?xml version="1.0" encoding="latin-1"?><x><struct name="\xe9"><member name="a" type="u8"/></struct></x>',
    '<x><struct name="A"><member name="a" type="u8" optional="maybe"/></struct></x>',
    '<?xml version="1.0" encoding="shift_jis"?><x><struct name="A"><member name="a" type="u8"/></struct></x>',
    '<?xml version="1.0" encoding="utf-16"?><x/>', '<?xml version="1.0" encoding="nonsense"?><x/>',
    '<x><struct name="A"><member name="" type="u8"><dimension size="THIS_IS_VARIABLE_SIZE_ARRAY"/></member></struct></x>',
    '<x><struct name="A"><member name="" type="u8"/></struct></x>', '<x><struct name=""><member name="a" type="u8"/></struct></x>',
    '<x><struct name="A"><member name="a" type="u8"><dimension variableSizeFieldName="@missing"/></member></struct></x>',
    '<x><struct name="A"><member name="n" type="float"/><member name="a" type="u8"><dimension variableSizeFieldName="@n"/></member></struct></x>',
    '<x><struct name="A"><member name="a" type="u8"><dimension variableSizeFieldName="@n"/></member><member name="n" type="u32"/></struct></x>',
    '<x><enum name="E"><enum-member name="E_a" value="1"/></enum><struct name="A"><member name="n" type="E"/><member name="a" type="u8"><dimension variableSizeFieldName="@n"/></member></struct></x>',
    '<x><struct name="A"><member name="n" type="u32" optional="true"/><member name="a" type="u8"><dimension variableSizeFieldName="@n"/></member></struct></x>',
    '<x><union name="U"><member name="a" type="U" discriminatorValue="1"/></union></x>', '<x><typedef name="T" type="u8"/><typedef name="T" type="u16"/></x>',
]

PATCHES = ['A remove n', 'A rename n m', 'A type n E', 'A type n float', 'A type a E', 'A insert 0 n u8', 'A dynamic a a', 'A limited a a',
           'A remove a\nA remove n', 'A static n 2', 'A greedy n', '', '\n', 'A', 'A dynamic', 'A dynamic a', 'A dynamic a b c', 'A greedy', 'A static a', 'A static a x y', 'A insert a b c', 'A insert 1 b',
           'A remove', 'A rename', 'A rename a b c', 'A struct x', 'A struct', 'A type a', 'A nonsense a', 'B dynamic a b', 'A limited a zz', '\xff\xfe', 'A  type   a   u64  ']


def audit_cases():
    """inputs found by the audit of C13 (defects D95, D106-D112): (note, args, files)"""
    outs = ['--python_out', '@D']
    allouts = outs + ['--cpp_out', '@D', '--cpp_full_out', '@D']
    XI = '<x xmlns:xi="http://www.w3.org/2001/XInclude">%s</x>'
    cases = [
        ('typedefs naming each other across an isar include, used in a constant', ['--isar'] + outs + ['@D/a.xml'],
         {'b.xml': '<x><typedef name="Y" type="X"/></x>', 'a.xml': XI % '<xi:include href="b.xml"/><typedef name="X" type="Y"/><constant name="K" value="X+1"/>'}),
        ('typedefs naming each other across an isar include, used in an array size', ['--isar', '--void_out', '@D/a.xml'],
         {'b.xml': '<x><typedef name="Y" type="X"/></x>',
          'a.xml': XI % '<xi:include href="b.xml"/><typedef name="X" type="Y"/><struct name="S"><member name="a" type="u8"><dimension size="X+1"/></member></struct>'}),
        ('one typedef name twice, the second naming itself', ['--isar'] + outs + ['@D/a.xml'],
         {'a.xml': '<x><typedef name="T" type="u32"/><typedef name="T" type="T"/><struct name="S"><member name="a" type="T"/></struct></x>'}),
        ('patch renaming a typedef onto the type it names', ['--patch', '@D/p.txt'] + outs + ['@D/a.prophy'],
         {'a.prophy': 'typedef u32 T; typedef T T2; struct S { T a; };', 'p.txt': 'T2 rename T\n'}),
        ('self typedef used as a sizer', allouts + ['@D/a.prophy'], {'a.prophy': 'typedef T T; struct S { T n; u8 a<@n>; };'}),
        ('mutual typedefs used as a sizer', allouts + ['@D/a.prophy'], {'a.prophy': 'typedef B A; typedef A B; struct S { A n; u8 a<@n>; };'}),
        ('chain of 1200 typedefs used as a sizer', outs + ['@D/a.prophy'],
         {'a.prophy': 'typedef u8 T0;\n' + ''.join('typedef T%d T%d;\n' % (i, i + 1) for i in range(1200)) + 'struct S { T1200 n; u8 a<@n>; };\n'}),
        ('decimal literal of 5000 digits', allouts + ['@D/a.prophy'], {'a.prophy': 'const X = %s;' % ('9' * 5000)}),
        ('hex literal of 4000 digits', allouts + ['@D/a.prophy'], {'a.prophy': 'enum E { E_A = 0x%s };' % ('f' * 4000)}),
        ('array size of 5000 digits', allouts + ['@D/a.prophy'], {'a.prophy': 'struct S { u8 a[%s]; };' % ('1' * 5000)}),
        ('isar constant of 5000 digits', ['--isar'] + outs + ['@D/a.xml'], {'a.xml': '<x><constant name="K" value="%s"/></x>' % ('7' * 5000)}),
        ('isar dimension of 5000 digits', ['--isar'] + outs + ['@D/a.xml'],
         {'a.xml': '<x><struct name="S"><member name="a" type="u8"><dimension size="%s"/></member></struct></x>' % ('7' * 5000)}),
        ('patch insert with a huge index', ['--isar', '--patch', '@D/p.txt'] + outs + ['@D/a.xml'],
         {'a.xml': '<x><struct name="A"><member name="n" type="u32"/></struct></x>', 'p.txt': 'A insert 99999999999999999999999999 k u8\n'}),
        ('patch duplicating a member name, C++ full output', ['--patch', '@D/p.txt', '--cpp_full_out', '@D', '@D/a.prophy'],
         {'a.prophy': 'struct In { u8 q; }; struct S { In x; u8 n; u16 d<@n>; };', 'p.txt': 'S insert 0 n In\n'}),
        ('isar names holding a line break, schema output', ['--isar', '--prophy_out', '@D', '@D/a.xml'],
         {'a.xml': '<x><struct name="A&#10;B" comment="c"><member name="a&#10;b" type="u8" comment="line&#10;line"/></struct></x>'}),
        ('enumerators each naming the previous one twice (40)', ['--isar'] + allouts + ['@D/a.xml'],
         {'a.xml': '<x><enum name="E"><enum-member name="A0" value="1"/>%s</enum></x>' % ''.join(
             '<enum-member name="A%d" value="(A%d+A%d)/2+1"/>' % (i, i - 1, i - 1) for i in range(1, 40))}),
    ]
    # round 2 of the audit (D123-D131)
    deep = ''.join('<struct name="S%d"><member name="a" type="S%d"><dimension isVariableSize="true"/></member><member name="b" type="S%d"><dimension isVariableSize="true"/></member></struct>'
                   % (k, k - 1, k - 1) for k in range(1, 41))
    common = '<x><struct name="S0"><member name="a" type="u8"/></struct>%s</x>' % deep
    cases += [
        ('two equal copies of one isar file, 41 nested structs', ['--isar'] + outs + ['@D/app.xml'],
         {'libA/common.xml': common, 'libB/common.xml': common, 'app.xml': XI % '<xi:include href="libA/common.xml"/><xi:include href="libB/common.xml"/>'}),
        ('enumerators naming the previous one twice, the first one a constant of the file', ['--isar'] + outs + ['@D/a.xml'],
         {'a.xml': '<x><constant name="K" value="1"/><enum name="E"><enum-member name="A0" value="K"/>%s</enum></x>' % ''.join(
             '<enum-member name="A%d" value="(A%d+A%d)/2+1"/>' % (i, i - 1, i - 1) for i in range(1, 40))}),
        ('nested 100-digit array extents and a union', allouts + ['@D/a.prophy'],
         {'a.prophy': 'struct S0 { u8 a[%s]; };\n' % ('9' * 100) + ''.join('struct S%d { S%d a[%s]; };\n' % (k, k - 1, '9' * 100) for k in range(1, 5))
          + 'union U { 1: S4 a; };\n'}),
        ('44 nested 100-digit array extents', outs + ['--cpp_full_out', '@D', '@D/a.prophy'],
         {'a.prophy': 'struct S0 { u8 a[%s]; };\n' % ('9' * 100) + ''.join('struct S%d { S%d a[%s]; };\n' % (k, k - 1, '9' * 100) for k in range(1, 44))}),
        ('input file name of 255 characters', allouts + ['@D/%s.prophy' % ('m' * 248)], {'%s.prophy' % ('m' * 248): 'struct A { u8 a; };\n'}),
        ('unterminated block comments, 60 KB', outs + ['@D/a.prophy'], {'a.prophy': '/* ' * 20000}),
        ('one block comment of 2 MB', outs + ['@D/a.prophy'], {'a.prophy': '/*' + 'x' * 2000000 + '*/ struct A { u8 a; };'}),
        ('one block comment of 4 MB that is not terminated', outs + ['@D/a.prophy'], {'a.prophy': 'struct A { u8 a; };\n/*' + 'x' * 4000000}),
        ('one block comment of 4 MB of stars', outs + ['@D/a.prophy'], {'a.prophy': '/*' + ' *' * 2000000 + '*/ struct A { u8 a; };'}),
        ('isar constant: 120 kB of shiftLeft( that never closes (D203)', ['--isar'] + outs + ['@D/a.xml'],
         {'a.xml': '<x><constant name="K" value="%s1"/></x>' % ('shiftLeft(' * 12000)}),
        ('isar array size: 60 kB of bitMaskOr( that never closes (D203)', ['--isar'] + outs + ['@D/a.xml'],
         {'a.xml': '<x><struct name="S"><member name="a" type="u8"><dimension size="%s1"/></member></struct></x>' % ('bitMaskOr(' * 6000)}),
        ('a struct of 16000 counted arrays, no output (D204)', ['--void_out', '@D/a.prophy'],
         {'a.prophy': 'struct S {\n' + ''.join('    u8 a%d<>;\n' % k for k in range(16000)) + '};\n'}),
        ('a struct of 12000 limited arrays (D204)', outs + ['@D/a.prophy'],
         {'a.prophy': 'struct S {\n' + ''.join('    u8 a%d<3>;\n' % k for k in range(12000)) + '};\n'}),
        ('1 MB of characters outside the language (D204)', outs + ['@D/a.prophy'], {'a.prophy': '$' * 1000000}),
        ('100 illegal characters, a syntax error, then 1 MB of illegal characters (seeded C13-r8)', outs + ['@D/a.prophy'],
         {'a.prophy': '$' * 100 + ' ; ' + '$' * 1000000}),
        ('illegal characters and syntax errors in turn, then 1 MB of illegal characters', outs + ['@D/a.prophy'],
         {'a.prophy': '$ ; ' * 80 + '$' * 1000000}),
        ('isar include name with a line break, schema output', ['--isar', '--prophy_out', '@D', '@D/a.xml'],
         {'a.xml': XI % '<xi:include href="types&#10;v2.xml" comment="a comment that is definitely longer than fifty characters in total"/>'}),
        ('isar name ending in a line break, schema output', ['--isar', '--prophy_out', '@D', '@D/a.xml'],
         {'a.xml': '<x><struct name="S&#10;" comment="a comment that is definitely longer than fifty characters in total"><member name="a" type="u8"/></struct></x>'}),
    ]
    chain = dict(('f%d.prophy' % i, ('#include "f%d.prophy"\n' % (i + 1) if i < 249 else '') + 'struct S%d { u8 a; };\n' % i) for i in range(250))
    cases.append(('include chain of 250 files', outs + ['-I', '@D', '@D/f0.prophy'], chain))
    xchain = dict(('f%d.xml' % i, XI % (('<xi:include href="f%d.xml"/>' % (i + 1) if i < 249 else '') + '<struct name="S%d"><member name="a" type="u8"/></struct>' % i))
                  for i in range(250))
    cases.append(('isar include chain of 250 files', ['--isar'] + outs + ['-I', '@D', '@D/f0.xml'], xchain))
    diamond = {}
    for i in range(24):
        for side in 'lr':
            inc = '' if i == 23 else '#include "l%d.prophy"\n#include "r%d.prophy"\n' % (i + 1, i + 1)
            diamond['%s%d.prophy' % (side, i)] = inc + 'struct %s%d { u8 a; };\n' % (side.upper(), i)
    cases.append(('diamond-shaped include graph, 24 levels (48 files)', outs + ['-I', '@D', '@D/l0.prophy'], diamond))
    # the C++ generators walk the includes as well (check_cpp_names, D169)
    cases.append(('diamond-shaped include graph, 24 levels, --cpp_out', ['--cpp_out', '@D', '-I', '@D', '@D/l0.prophy'], diamond))
    cases.append(('diamond-shaped include graph, 24 levels, --cpp_full_out', ['--cpp_full_out', '@D', '-I', '@D', '@D/l0.prophy'], diamond))
    xdiamond = {}
    for i in range(24):
        for side in 'lr':
            inc = '' if i == 23 else '<xi:include href="l%d.xml"/><xi:include href="r%d.xml"/>' % (i + 1, i + 1)
            xdiamond['%s%d.xml' % (side, i)] = XI % (inc + '<struct name="%s%d"><member name="a" type="u8"/></struct>' % (side.upper(), i))
    cases.append(('isar diamond-shaped include graph, 24 levels (48 files)', ['--isar'] + outs + ['-I', '@D', '@D/l0.xml'], xdiamond))
    return cases


def located_diagnostics(chk, root):
    """for schema text the diagnostic is file:line:column plus reason (D112); the one exception is pinned by the repository's tests (D143)"""
    texts = ['struct A { u8 a; u8 a; };', 'enum E { E_A = 1, E_A = 2 };', 'struct byte { u8 a; };', 'union U { 1: u8 a; 2: u16 a; };', 'const A = 1 / 0;',
             'struct A { u8 a<@zz>; };', 'typedef T T;', 'struct A { B b; };', 'const K = 99999999999999999999999;', 'struct A { u8 a[0]; };',
             'enum E { E_A = 4294967296 };', 'union U { 1: u8 a; 1: u16 b; };', 'struct A { u8 a; } struct B { u8 b; };', '#include "nope.prophy"',
             'struct A { u8 x<...>; u8 y; };', '/* never closed']
    for i, text in enumerate(texts):
        d = os.path.join(root, 'loc%d' % i)
        os.makedirs(d)
        with open(os.path.join(d, 'a.prophy'), 'w') as f:
            f.write(text + '\n')
        outcome, msg = run_main(['--python_out', d, os.path.join(d, 'a.prophy')])
        chk.count(('located', text), True)
        chk.bump('located-diagnostic')
        casej = {'kind': 'located-diagnostic', 'files': {'a.prophy': text}}
        if outcome != 'ProphycError':
            chk.property_violation(casej, {'what': 'a faulty schema text ended in %s, not in a diagnostic' % outcome, 'message': msg[:200]})
        elif not re.search(r'a\.prophy:\d+:\d+: error: ', msg):
            chk.property_violation(casej, {'what': 'the diagnostic for schema text lacks file:line:column', 'message': msg[:200]},
                                   lambda c, dt: 'D143' if 'Duplicated' in dt['message'] and 'union' in dt['message'] else None)
        shutil.rmtree(d, ignore_errors=True)


def rewire(rng, sc):
    """structure-level corruption: point one type reference / array size / constant of an acyclic definition set at
    another definition (itself, a later one, an earlier one) - makes self references, longer cycles, or nothing"""
    import copy
    sc = copy.deepcopy(sc)
    names = [d.name for d in sc.decls]
    structs = [d for d in sc.decls if isinstance(d, (S.Struct, S.Union))]
    if structs and rng.random() < 0.3:
        # a typedef chain that closes on itself, used by a member
        chain = ['Tc%d' % i for i in range(rng.randint(1, 3))]
        for i, n_ in enumerate(chain):
            sc.decls.insert(rng.randrange(len(sc.decls) + 1), S.Typedef(n_, chain[(i + 1) % len(chain)] if rng.random() < 0.8 or i + 1 < len(chain) else rng.choice(names)))
        d = rng.choice(structs)
        if isinstance(d, S.Struct):
            rng.choice(d.members).type = chain[0]
        else:
            i = rng.randrange(len(d.arms))
            d.arms[i] = (d.arms[i][0], d.arms[i][1], chain[0])
        return sc
    for _ in range(rng.choice([1, 1, 2])):
        d = rng.choice(sc.decls)
        target = d.name if rng.random() < 0.4 else rng.choice(names)
        if isinstance(d, S.Typedef):
            d.target = target
        elif isinstance(d, S.Struct):
            m = rng.choice(d.members)
            if m.mk == 'fixed' and rng.random() < 0.4:
                m.size = target
            else:
                m.type = target
        elif isinstance(d, S.Union):
            i = rng.randrange(len(d.arms))
            n_, disc, _ = d.arms[i]
            d.arms[i] = (n_, disc, target)
        elif isinstance(d, S.Const):
            d.value = target if rng.random() < 0.5 else '%s + 1' % target
        elif isinstance(d, S.Enum):
            i = rng.randrange(len(d.members))
            d.members[i] = (d.members[i][0], target)
    return sc


def run_c13(tier):
    chk = core.Check('C13', tier, level='proof')
    chk.rule = ('`prophyc.main(args)` in-process under a %.0f s interval timer on: token-level corruptions (delete / insert / replace / swap / '
                'duplicate / truncate) of generated valid schemas in prophy and isar syntax; hand-made structure-level inputs (self- and '
                'mutually recursive structs, typedefs and constants, cyclic and missing includes, duplicates, zero / negative / huge sizes, '
                'division by zero, negative shifts, deep parentheses, binary bytes); patch files; option combinations. A case = one input; '
                'non-trivial = input that is not accepted. Outcome classes are recorded; a time-out or an internal exception type named by '
                'the property is a violation.') % TIME_BOX
    chk.lean = core.lean_obligations('C13', thorough=(tier == 'thorough'))
    root = tempfile.mkdtemp(prefix='prophy-verif-')
    try:
        n = [0]
        timeouts = [0]

        def case(kind, args, files, note):
            d = os.path.join(root, 'c%d' % n[0])
            n[0] += 1
            os.makedirs(d)
            for name, text in files.items():
                os.makedirs(os.path.dirname(os.path.join(d, name)), exist_ok=True)
                with open(os.path.join(d, name), 'wb') as f:
                    f.write(text if isinstance(text, bytes) else text.encode('utf-8', 'surrogatepass'))
            full = [a.replace('@D', d) for a in args]
            if timeouts[0] >= 3:        # every time-out costs the whole time box; three replays are enough
                shutil.rmtree(d, ignore_errors=True)
                return 'skipped'
            # an include chain costs one parser construction per level (about 0.1 s of CPU each, up to the interpreter's stack): bounded,
            # and several times the box on a loaded machine
            outcome, msg = run_main(full, 6 * TIME_BOX if 'include chain' in str(note) else None)
            if outcome == 'timeout':
                timeouts[0] += 1
            chk.count((kind, str(args), str(sorted(files.items()))), outcome != 'ok')
            chk.bump('input:' + kind)
            chk.bump('outcome:' + outcome)
            casej = {'kind': kind, 'args': args, 'files': {k: (v if isinstance(v, str) else v.hex()) for k, v in files.items()}, 'note': note}
            if outcome != 'ok':
                chk.sample({'kind': kind, 'args': args, 'files': casej['files'], 'outcome': outcome, 'message': msg[:200]}, limit=4)
            if outcome == 'timeout':
                chk.property_violation(casej, {'what': 'prophyc did not terminate within %.0f s of CPU time' % (6 * TIME_BOX if 'include chain' in str(note) else TIME_BOX)})
            elif outcome.startswith('internal:'):
                chk.property_violation(casej, {'what': 'internal exception %s escaped prophyc.main: %s' % (outcome[9:], msg)})
            elif outcome not in ('ok', 'ProphycError', 'SystemExit', 'skipped'):
                # anything else that leaves main() is outside the designed error channel as well (OSError family, UnicodeError, ...)
                chk.property_violation(casej, {'what': 'exception %s escaped prophyc.main: %s' % (outcome, msg)})
            shutil.rmtree(d, ignore_errors=True)
            return outcome

        outs = ['--python_out', '@D']
        for text in STRUCTURED_PROPHY:
            case('structured-prophy', outs + ['--cpp_out', '@D', '--cpp_full_out', '@D', '@D/a.prophy'], {'a.prophy': text}, text[:60])
        for text in STRUCTURED_ISAR:
            case('structured-isar', ['--isar'] + outs + ['--cpp_out', '@D', '@D/a.xml'], {'a.xml': text}, text[:60])
            case('structured-isar', ['--isar', '--cpp_full_out', '@D', '@D/a.xml'], {'a.xml': text}, text[:60])
        xml_ok = '<x><struct name="A"><member name="n" type="u32"/><member name="a" type="u8"><dimension size="2"/></member></struct></x>'
        xml_dyn = ('<x><enum name="E"><enum-member name="E_a" value="1"/></enum><struct name="A"><member name="n" type="u32"/>'
                   '<member name="a" type="u8"><dimension variableSizeFieldName="@n"/></member></struct></x>')
        for p in PATCHES:
            case('patch', ['--isar', '--patch', '@D/p.txt'] + outs + ['@D/a.xml'], {'a.xml': xml_ok, 'p.txt': p}, p)
            for extra in (['--cpp_out', '@D'], ['--cpp_full_out', '@D']):
                case('patch', ['--isar', '--patch', '@D/p.txt'] + outs + extra + ['@D/a.xml'], {'a.xml': xml_dyn, 'p.txt': p}, p + ' (bound array)')
        ok_prophy = 'struct A { u8 a; };\n'
        for args, files in [
            ([], {}), (['--python_out', '@D'], {}), (['@D/a.prophy'], {'a.prophy': ok_prophy}), (['--python_out', '@D/nodir', '@D/a.prophy'], {'a.prophy': ok_prophy}),
            (['--python_out', '@D', '@D/missing.prophy'], {}), (['--isar', '--sack', '--python_out', '@D', '@D/a.prophy'], {'a.prophy': ok_prophy}),
            (['--bogus'], {}), (['--version'], {}), (['-I', '@D/nodir', '--python_out', '@D', '@D/a.prophy'], {'a.prophy': ok_prophy}),
            (['--patch', '@D/nopatch', '--python_out', '@D', '@D/a.prophy'], {'a.prophy': ok_prophy}), (['--void_out', '@D/a.prophy'], {'a.prophy': ok_prophy}),
            (['--isar', '--include_isar', '@D/a.xml', '--python_out', '@D', '@D/a.xml'], {'a.xml': xml_ok}), (['--quiet', '--python_out', '@D', '@D/a.prophy', '@D/a.prophy'], {'a.prophy': ok_prophy}),
            (['--python_out', '@D', '@D/a.prophy'], {'a.prophy': b'\xff\xfe\x00struct'}), (['--isar', '--python_out', '@D', '@D/a.xml'], {'a.xml': b'\xff\xfe<x/>'}),
        ]:
            case('options', args, files, ' '.join(args))
        # cyclic includes
        case('includes', outs + ['@D/a.prophy'], {'a.prophy': '#include "b.prophy"\n', 'b.prophy': '#include "a.prophy"\n'}, 'cycle of two')
        case('includes', outs + ['@D/a.prophy'], {'a.prophy': '#include "a.prophy"\n'}, 'self include')
        empty_inc = {'a.prophy': '#include "common.prophy"\nstruct A { u8 a; };\n', 'b.prophy': '#include "common.prophy"\nstruct B { u8 b; };\n',
                     'common.prophy': '// nothing left here\n'}
        case('includes', outs + ['@D/a.prophy', '@D/common.prophy'], empty_inc, 'empty include that is also an input')
        case('includes', outs + ['@D/common.prophy', '@D/a.prophy', '@D/b.prophy'], empty_inc, 'empty input included by later inputs')
        case('includes', outs + ['@D/common.prophy', '@D/./common.prophy'], empty_inc, 'the same empty file twice')
        case('includes', ['--isar'] + outs + ['@D/e.xml', '@D/e.xml'], {'e.xml': '<dom/>'}, 'the same empty isar file twice')
        # reference chains that cross an include boundary (the per-file sort cannot see them): ending in a cycle that does not
        # contain the name the expression starts from, self references, forward references into the includer
        XI = '<x xmlns:xi="http://www.w3.org/2001/XInclude"><xi:include href="inc.xml"/>%s</x>'
        use = '<struct name="S"><member name="x" type="u8"><dimension size="%s"/></member></struct>'
        for note, inc, body in [
            ('typedef chain A -> B -> B', '<typedef name="A" type="B"/>', '<typedef name="B" type="A"/>' + use % 'A*2'),
            ('typedef chain, expression names B', '<typedef name="A" type="B"/>', '<typedef name="B" type="A"/>' + use % 'B*2'),
            ('typedef chain, plain name', '<typedef name="A" type="B"/>', '<typedef name="B" type="A"/>' + use % 'A'),
            ('constant chain A -> B -> B', '<constant name="A" value="B"/>', '<constant name="B" value="B"/><constant name="C" value="A+1"/>' + use % 'C'),
            ('constant chain A -> B -> C -> B', '<constant name="A" value="B"/>',
             '<constant name="B" value="C"/><constant name="C" value="B"/><constant name="D" value="(A)*2"/>' + use % 'A+1'),
            ('constant defined through the includer', '<constant name="A" value="B+1"/>', '<constant name="B" value="A+1"/>' + use % 'B'),
            ('enumerator chain', '<enum name="E"><enum-member name="E_A" value="K"/></enum>', '<constant name="K" value="E_A"/>' + use % 'K+1'),
            ('typedef of a later struct used as a size', '<typedef name="A" type="S"/>', use % 'A+1'),
        ]:
            for extra in ([], ['--cpp_out', '@D'], ['--cpp_full_out', '@D']):
                case('includes', ['--isar'] + outs + extra + ['@D/main.xml'], {'inc.xml': '<x>%s</x>' % inc, 'main.xml': XI % body}, 'isar, across an include: ' + note)
        os.makedirs(os.path.join(root, 'dirinc'), exist_ok=True)
        case('includes', outs + ['-I', '@D', '@D/a.prophy'], {'a.prophy': '#include "sub"\nstruct A { u8 a; };\n', 'sub/keep': ''}, 'include names a directory')
        case('includes', outs + ['@D/sub'], {'sub/keep': ''}, 'input is a directory')
        for note, args, files in audit_cases():
            case('audit', args, files, note)
        case('audit', outs + ['@D/a.prophy'], {'a.prophy': '#include "/proc/self/mem"\nstruct A { u8 a; };\n'}, 'include that exists but cannot be read')
        located_diagnostics(chk, root)
        # structure-level corruptions: rewired references (self references, cycles) - also against the Lean model of the sort
        reqs, rows = [], []
        for si in range(chk.scale(150, 1500)):
            rsc = rewire(chk.rng, dag.gen_dag(chk.rng, n=chk.rng.randint(2, 7)))
            order = list(range(len(rsc.decls)))
            chk.rng.shuffle(order)
            try:
                xml = isar.to_isar(rsc, order)
                decls = isar.topo_decls(rsc, order)
            except Exception:  # noqa  (the rewired set cannot be rendered)
                continue
            outcome = case('rewired-isar', ['--isar'] + outs + ['@D/a.xml'], {'a.xml': xml}, 'rewired reference')
            reqs.append({'op': 'prophyc_topo', 'decls': decls})
            rows.append(({'kind': 'rewired-isar', 'xml': xml}, outcome))
        for (casej, outcome), a in zip(rows, client.batch(reqs)):
            chk.corr_compared += 1
            chk.bump('model:' + ('cycle' if a.get('cycle') else 'sorted'))
            if a.get('cycle') and outcome == 'ok':
                chk.correspondence_mismatch('Topo.sortDecls reports a cycle = prophyc reports an error', casej, outcome, a)
        # the name-resolution loop of calc on random dictionaries (chains, cycles that do not contain their start, missing names,
        # unevaluable constants): it returns or raises ParseError - within the time box - and agrees with Resolve.resolve
        import prophyc.calc as calc
        nreqs, nrows = [], []
        for _ in range(chk.scale(300, 3000)):
            names = ['N%d' % i for i in range(chk.rng.randint(1, 7))]
            vars_ = {}
            for vname in names:
                r = chk.rng.random()
                if r < 0.15:
                    continue
                vars_[vname] = chk.rng.randint(-5, 99) if r < 0.4 else None if r < 0.5 else chk.rng.choice(names + ['missing'])
            start = chk.rng.choice(names)

            def run(start=start, vars_=vars_):
                try:
                    return ['value', calc.eval(start, dict(vars_))]
                except calc.ParseError as ex:
                    return ['error', 'selfDefined' if 'defined by itself' in str(ex) else 'notFound' if 'not found' in str(ex) else str(ex)[:60]]
            from harness.checks.pycodec import with_timeout
            res = with_timeout(10, run)
            casej = {'kind': 'calc-name-resolution', 'vars': vars_, 'name': start}
            chk.count(('resolve', json.dumps(vars_, sort_keys=True), start), True)
            chk.bump('calc-name-resolution:' + (res[1][0] if res[0] == 'ok' else res[0]))
            if res[0] == 'timeout':
                chk.property_violation(casej, {'what': 'calc did not resolve the name within 10 s of CPU time'})
                continue
            if res[0] != 'ok':
                chk.property_violation(casej, {'what': 'calc raised %s instead of ParseError: %s' % (res[1], res[2][:100])})
                continue
            nreqs.append({'op': 'calc_resolve', 'vars': [[k, v] for k, v in vars_.items()], 'name': start})
            nrows.append((casej, res[1]))
        for (casej, impl), m in zip(nrows, client.batch(nreqs)):
            chk.corr_compared += 1
            want = ['value', m['value']] if 'value' in m else ['error', m['error']]
            if impl != want:
                chk.correspondence_mismatch('Resolve.resolve = calc.eval of a name', casej, impl, want)
        # token-level corruptions of generated schemas
        for si in range(chk.scale(60, 600)):
            sc = S.Gen(chk.rng, n_decls=6).schema()
            text = S.to_prophy(sc)
            for _ in range(chk.scale(3, 5)):
                t = text
                for _ in range(chk.rng.choice([1, 1, 2, 3])):
                    t = corrupt_text(chk.rng, t)
                case('corrupt-prophy', outs + ['--cpp_full_out', '@D', '@D/a.prophy'], {'a.prophy': t}, 'token corruption')
            dsc = dag.gen_dag(chk.rng, n=6)
            xml = isar.to_isar(dsc)
            for _ in range(chk.scale(2, 4)):
                t = xml
                for _ in range(chk.rng.choice([1, 1, 2])):
                    t = corrupt_text(chk.rng, t)
                case('corrupt-isar', ['--isar'] + outs + ['@D/a.xml'], {'a.xml': t}, 'token corruption')
    finally:
        shutil.rmtree(root, ignore_errors=True)
    return chk.finish()

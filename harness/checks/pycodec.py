"""
C01 (encode = documented wire format), C02 (round trip), C06 (decode total), C19 (byte order
mirror): implementation vs. Spec (property oracle) and vs. the Lean model of the Python codec
(correspondence).
"""
import json
import os

from harness import core
from harness.gen import values as V
from harness.impl import py_impl
from harness.model import client
from harness.checks.pycorpus import Corpus

ENDIAN = ['<', '>']


def encode_impl(case, v, e):
    """returns (msg, {'bytes': hex} | {'exc': class})"""
    msg = case.cls()
    V.apply(msg, case.tree, v)
    try:
        return msg, {'bytes': msg.encode(e).hex()}
    except Exception as ex:  # noqa
        return msg, {'exc': py_impl.exc_class(ex)}


def statics_impl(cls):
    return {'size': cls._SIZE, 'align': cls._ALIGNMENT, 'dyn': bool(cls._DYNAMIC), 'unl': bool(cls._UNLIMITED)}


def check_statics(chk, corpus):
    """correspondence of the static attributes (class level and per field)"""
    reqs = corpus.deft_requests() + [{'op': 'py_statics', 't': c.tid} for c in corpus.types]
    ans = client.batch(reqs)[len(corpus.types):]
    for c, a in zip(corpus.types, ans):
        impl = statics_impl(c.cls)
        chk.corr_compared += 1
        if impl != a['st']:
            chk.correspondence_mismatch('Py.stTy = _SIZE/_ALIGNMENT/_DYNAMIC/_UNLIMITED', {'schema': c.text, 'type': c.name}, impl, a['st'])
        if c.tree['k'] == 'struct':
            fimpl = [f.partial_alignment for f in c.cls._descriptor]
            fmodel = [f['partial'] for f in a['fields']]
            if fimpl != fmodel:
                chk.correspondence_mismatch('Py.partials = field.partial_alignment', {'schema': c.text, 'type': c.name}, fimpl, fmodel)


def gen_cases(chk, corpus, per_type):
    cases = []
    for c in corpus.types:
        vals = [V.default_value(c.tree)] + [V.gen_value(chk.rng, c.tree) for _ in range(per_type)]
        for v in vals:
            cases.append((c, v))
    return cases


def run_c01(tier):
    chk = core.Check('C01', tier)
    chk.rule = ('type-directed random schemas (structs/unions/enums/typedefs/consts; optional, fixed, dynamic, limited, '
                'greedy, externally sized arrays, bytes) compiled by the real prophyc + hand-made corpus; per message type the '
                'default value and random typed values (boundary ints, empty/full arrays, absent/present optionals, every arm); '
                'both byte orders. A case = (type, value, byte order); non-trivial = distinct (type tree, value) whose encoding '
                'contains at least one padding byte or a composite member; distinct counted by hash.')
    chk.lean = core.lean_obligations('C01', thorough=(tier == 'thorough'))
    corpus = Corpus(chk, chk.scale(120, 1500), dict(n_decls=8, shifts=True))
    try:
        check_statics(chk, corpus)
        cases = gen_cases(chk, corpus, chk.scale(4, 8))
        reqs = corpus.deft_requests()
        nd = len(reqs)
        impl = []
        for c, v in cases:
            for e in ENDIAN:
                _, out = encode_impl(c, v, e)
                impl.append(out)
                reqs.append({'op': 'spec_enc', 't': c.tid, 'v': v, 'e': e})
                reqs.append({'op': 'py_encode', 't': c.tid, 'v': v, 'e': e})
                reqs.append({'op': 'hypotheses', 't': c.tid, 'v': v})
        ans = client.batch(reqs)[nd:]
        k = 0
        for c, v in cases:
            for e in ENDIAN:
                out, spec, pym, hyp = impl[k], ans[3 * k], ans[3 * k + 1], ans[3 * k + 2]
                k += 1
                # C01_py_encode_canonical applies when its three hypotheses hold; then the real encode must succeed
                applies = hyp['wf'] and hyp['typed'] and hyp['agree']
                chk.bump('theorem-applies' if applies else 'theorem-hypothesis-fails:' + ','.join(h for h in ('wf', 'typed', 'agree') if not hyp[h]))
                if not hyp['wf']:
                    chk.correspondence_mismatch('WF.wfTy holds for every schema prophyc accepts and the runtime imports', {'schema': c.text, 'type': c.name}, True, hyp)
                casej = {'schema': c.text, 'type': c.name, 'value': v, 'endianness': e}
                nontrivial = ('00' in out.get('bytes', '')) or c.tree['k'] == 'union' or any(m['t']['k'] in ('struct', 'union') for m in c.tree.get('ms', []))
                chk.count((c.tree, v, e), nontrivial)
                chk.sample({'type': c.name, 'schema': c.text if len(c.text) < 600 else c.text[:600] + '...', 'value': v, 'endianness': e, 'encoded': out})
                # property oracle: bytes are the canonical encoding
                if out != {'bytes': spec['bytes']}:
                    chk.property_violation(casej, {'impl': out, 'spec': spec['bytes'], 'what': 'Message.encode() differs from the canonical encoding of docs/encoding.rst'})
                # correspondence: the Lean model of the Python codec behaves like the code
                chk.corr_compared += 1
                if out != pym:
                    chk.correspondence_mismatch('Py.encode = Message.encode', casej, out, pym)
        documented_examples(chk, 'C01')
    finally:
        corpus.close()
    return chk.finish()


def mirror_ok(le, be, chunks):
    """be is le with every scalar chunk reversed in place; paddings zero in both"""
    if len(le) != len(be):
        return 'lengths differ'
    if sum(n for _, n in chunks) != len(le):
        return 'chunk map does not cover the encoding'
    pos = 0
    for kind, n in chunks:
        a, b = le[pos:pos + n], be[pos:pos + n]
        if kind == 's' and a != b[::-1]:
            return 'scalar at %d..%d not mirrored' % (pos, pos + n)
        if kind == 'p' and (any(a) or any(b)):
            return 'padding at %d..%d not zero' % (pos, pos + n)
        if kind == 'r' and a != b:
            return 'bytes field at %d..%d differs' % (pos, pos + n)
        pos += n
    return None


def run_c19(tier):
    chk = core.Check('C19', tier)
    chk.rule = ('same corpus as C01; a case = (type, value); the little- and big-endian encodings produced by the real Python codec '
                'are compared chunk by chunk using the chunk map of Spec.chunks (scalars mirrored, paddings zero, same length); '
                'non-trivial = encoding has a multi-byte scalar and a padding byte. C++ half: encode<little>() / encode<big>() / encode() of '
                'objects decoded by the generated C++ full codec (g++, ASan+UBSan) compared the same way.')
    chk.lean = core.lean_obligations('C19', thorough=(tier == 'thorough'))
    corpus = Corpus(chk, chk.scale(120, 1500), dict(n_decls=8, shifts=True))
    try:
        cases = gen_cases(chk, corpus, chk.scale(4, 8))
        reqs = corpus.deft_requests()
        nd = len(reqs)
        impl = []
        for c, v in cases:
            _, le = encode_impl(c, v, '<')
            _, be = encode_impl(c, v, '>')
            impl.append((le, be))
            reqs.append({'op': 'spec_chunks', 't': c.tid, 'v': v})
            reqs.append({'op': 'py_encode', 't': c.tid, 'v': v, 'e': '>'})
        ans = client.batch(reqs)[nd:]
        for i, (c, v) in enumerate(cases):
            le, be = impl[i]
            chunks = ans[2 * i]['chunks']
            casej = {'schema': c.text, 'type': c.name, 'value': v}
            nontrivial = any(k == 's' and n > 1 for k, n in chunks) and any(k == 'p' and n > 0 for k, n in chunks)
            chk.count((c.tree, v), nontrivial)
            chk.sample({'type': c.name, 'value': v, 'little': le, 'big': be, 'chunks': chunks})
            if 'bytes' not in le or 'bytes' not in be:
                chk.property_violation(casej, {'little': le, 'big': be, 'what': 'encode raised'})
                continue
            why = mirror_ok(bytes.fromhex(le['bytes']), bytes.fromhex(be['bytes']), chunks)
            if why:
                chk.property_violation(casej, {'little': le, 'big': be, 'chunks': chunks, 'what': why})
            chk.corr_compared += 1
            if be != ans[2 * i + 1]:
                chk.correspondence_mismatch('Py.encode big = Message.encode(">")', casej, be, ans[2 * i + 1])
    finally:
        corpus.close()
    cpp_half_c19(chk)
    return chk.finish()


def cpp_optimised_unity(chk):
    """the generated codec compiled INTO the caller's translation unit at -O2 / -O3 (a unity-style build): float and double members
    decoded as little / big and encoded as native - strict-aliasing violations in the headers only show here (defect D113)"""
    import shutil
    import subprocess
    import tempfile
    from harness.checks.cppcorpus import py_impl as _py
    d = tempfile.mkdtemp(prefix='prophy-verif-')
    try:
        with open(os.path.join(d, 'fl.prophy'), 'w') as f:
            f.write('struct S4 { i8 f0; i8 f1; double f2; };\nstruct S5 { u32 a; float f; };\nstruct S6 { float a[3]; u32 n; double d<@n>; };\n')
        _py.run_prophyc(['--cpp_full_out', d, os.path.join(d, 'fl.prophy')])
        with open(os.path.join(d, 'main.cpp'), 'w') as f:
            f.write(r'''
#include "fl.ppf.cpp"
#include <stdio.h>
using namespace prophy::generated;
template <class T> static void show(const char* name, const std::vector<uint8_t>& le, const std::vector<uint8_t>& be)
{
    T a, b;
    bool oka = a.template decode<prophy::little>(le.data(), le.size());
    bool okb = b.template decode<prophy::big>(be.data(), be.size());
    std::vector<uint8_t> out[4] = { a.template encode<prophy::little>(), a.encode(), b.template encode<prophy::little>(), a.template encode<prophy::big>() };
    printf("%s %d %d", name, int(oka), int(okb));
    for (int k = 0; k < 4; ++k) { printf(" "); for (size_t i = 0; i < out[k].size(); ++i) printf("%02x", out[k][i]); }
    printf("\n");
}
static std::vector<uint8_t> hex(const char* s) { std::vector<uint8_t> v; for (; s[0] && s[1]; s += 2) { unsigned x; sscanf(s, "%2x", &x); v.push_back(uint8_t(x)); } return v; }
int main()
{
    show<S4>("S4", hex("0102000000000000000000000000f83f"), hex("01020000000000003ff8000000000000"));
    show<S5>("S5", hex("0700000000002040"), hex("0000000740200000"));
    show<S5>("S5n", hex("070000000100a07f"), hex("000000077fa00001"));      /* a signalling NaN: typed moves through the x87 unit quiet it */
    show<S4>("S4n", hex("0102000000000000010000000000f47f"), hex("01020000000000007ff4000000000001"));
    show<S6>("S6", hex("0000803f000000400000404002000000000000000000f83f000000000000f0bf"),
             hex("3f8000004000000040400000000000023ff8000000000000bff0000000000000"));
}
''')
        want = {'S4': ('0102000000000000000000000000f83f', '01020000000000003ff8000000000000'), 'S5': ('0700000000002040', '0000000740200000'),
                'S5n': ('070000000100a07f', '000000077fa00001'), 'S4n': ('0102000000000000010000000000f47f', '01020000000000007ff4000000000001'),
                'S6': ('0000803f000000400000404002000000000000000000f83f000000000000f0bf',
                       '3f8000004000000040400000000000023ff8000000000000bff0000000000000')}
        for opt in ('-O2', '-O3', '-O2 -mfpmath=387'):
            exe = os.path.join(d, 'unity' + opt.replace(' ', ''))
            p = subprocess.run(['g++', '-std=c++11'] + opt.split() + ['-I' + os.path.join(_py.REPO, 'prophy_cpp', 'include'), '-I' + d, os.path.join(d, 'main.cpp'), '-o', exe],
                               stdout=subprocess.PIPE, stderr=subprocess.STDOUT, timeout=600)
            if p.returncode != 0:
                raise core.Infra('unity build failed: ' + p.stdout.decode(errors='replace')[-800:])
            lines = subprocess.run([exe], stdout=subprocess.PIPE, timeout=60).stdout.decode().split('\n')
            for line in lines:
                if not line.strip():
                    continue
                name, oka, okb, le, nat, le_from_big, be = line.split()
                casej = {'schema': 'struct S4 { i8 f0; i8 f1; double f2; }; struct S5 { u32 a; float f; }; struct S6 { float a[3]; u32 n; double d<@n>; };',
                         'type': name, 'build': 'g++ %s, generated .ppf.cpp included in the caller (unity build)' % opt, 'codec': 'C++ full'}
                chk.count(('unity', opt, name), True)
                chk.bump('cpp:unity' + opt)
                if (oka, okb) != ('1', '1'):
                    chk.property_violation(casej, {'what': 'canonical bytes were not decoded', 'decode<little>': oka, 'decode<big>': okb})
                elif (le, nat, le_from_big, be) != (want[name][0], want[name][0], want[name][0], want[name][1]):
                    chk.property_violation(casej, {'what': "encodings of one decoded value differ: encode<little>(), encode() ('native'), encode<little>() of the big-endian "
                                                           "decoded object, encode<big>()", 'got': [le, nat, le_from_big, be], 'want_little': want[name][0], 'want_big': want[name][1]})
    finally:
        shutil.rmtree(d, ignore_errors=True)


def cpp_half_c19(chk):
    cpp_optimised_unity(chk)
    """C++ full codec's vector encoders: encode<little>() vs encode<big>() vs encode() on the same object"""
    from harness.checks.cppcorpus import CppCorpus
    cc = CppCorpus(chk, chk.scale(2, 20))
    try:
        cc.report_build_errors()
        reqs = cc.deft_requests()
        nd = len(reqs)
        cases = []
        for c in cc.types:
            for _ in range(chk.scale(3, 6)):
                v = V.gen_value(chk.rng, c.tree)
                cases.append((c, v))
                reqs.append({'op': 'spec_enc', 't': c.tid, 'v': v, 'e': '<'})
                reqs.append({'op': 'spec_chunks', 't': c.tid, 'v': v})
        ans = client.batch(reqs)[nd:]
        out = cc.run([(c, {'op': 'decode', 'e': 'little', 'data': ans[2 * i]['bytes']}) for i, (c, v) in enumerate(cases)])
        for i, ((c, v), o) in enumerate(zip(cases, out)):
            if not o.get('ok') or not ans[2 * i + 1]['gal'] or 'enc_little' not in o:
                chk.bump('cpp:object-not-built')
                continue
            chunks = ans[2 * i + 1]['chunks']
            casej = {'schema': c.text, 'type': c.name, 'value': v, 'codec': 'C++ full'}
            chk.count(('cpp', c.tree, v), any(k == 's' and n > 1 for k, n in chunks) and any(k == 'p' and n > 0 for k, n in chunks))
            chk.bump('cpp:compared')
            le, be, nat = (bytes.fromhex(o[k]) for k in ('enc_little', 'enc_big', 'enc_native'))
            why = mirror_ok(le, be, chunks)
            if why:
                chk.property_violation(casej, {'what': 'C++ encode<little>() / encode<big>(): ' + why, 'little': o['enc_little'], 'big': o['enc_big'], 'chunks': chunks})
            if nat != le:
                chk.property_violation(casej, {'what': "C++ encode() ('native') differs from the host byte order (little)", 'native': o['enc_native'], 'little': o['enc_little']})
    finally:
        cc.close()


def decode_impl(case, data, e):
    """decode into a fresh message: {'val':..., 'size': n} | {'exc': class}; plus the message"""
    msg = case.cls()
    try:
        n = msg.decode(data, e)
    except Exception as ex:  # noqa
        return msg, {'exc': py_impl.exc_class(ex)}
    return msg, {'val': V.canon(case.tree, V.readback(msg, case.tree)), 'size': n}


def canon_model(case, ans):
    """canonical form of a model answer carrying a value"""
    if 'val' in ans:
        return {'val': V.canon(case.tree, ans['val']), 'size': ans['size']}
    return ans


def run_c02(tier):
    chk = core.Check('C02', tier)
    chk.rule = ('same corpus as C01; a case = (type, value, byte order) with the greedy tail ending aligned (Spec.galTy); the real '
                'encode output is decoded into a fresh message: consumed length, field-for-field value (attribute reads), '
                're-encoding; non-trivial = value has an array, optional or union. Greedy tails not ending aligned are counted separately (documented exception).')
    chk.lean = core.lean_obligations('C02', thorough=(tier == 'thorough'))
    corpus = Corpus(chk, chk.scale(120, 1500), dict(n_decls=8, shifts=True))
    try:
        cases = gen_cases(chk, corpus, chk.scale(4, 8))
        reqs = corpus.deft_requests()
        nd = len(reqs)
        rows = []
        for c, v in cases:
            for e in ENDIAN:
                m1, enc = encode_impl(c, v, e)
                if 'bytes' not in enc:
                    rows.append((c, v, e, enc, None, None))
                    reqs.append({'op': 'spec_chunks', 't': c.tid, 'v': v})
                    reqs.append({'op': 'spec_chunks', 't': c.tid, 'v': v})
                    continue
                data = bytes.fromhex(enc['bytes'])
                m2, dec = decode_impl(c, data, e)
                re_enc = None
                if 'val' in dec:
                    try:
                        re_enc = m2.encode(e).hex()
                    except Exception as ex:  # noqa
                        re_enc = 'exc:' + py_impl.exc_class(ex)
                rows.append((c, v, e, enc, dec, re_enc))
                reqs.append({'op': 'spec_chunks', 't': c.tid, 'v': v})
                reqs.append({'op': 'py_decode', 't': c.tid, 'data': enc['bytes'], 'e': e})
        ans = client.batch(reqs)[nd:]
        for i, (c, v, e, enc, dec, re_enc) in enumerate(rows):
            casej = {'schema': c.text, 'type': c.name, 'value': v, 'endianness': e}
            gal = ans[2 * i]['gal']
            if dec is None:
                chk.property_violation(casej, {'what': 'encode raised', 'encode': enc})
                continue
            if not gal:
                chk.bump('greedy-tail-unaligned (excluded)')
            nontrivial = json.dumps(v).count('[') + json.dumps(v).count('"p"') + json.dumps(v).count('"u"') > 0
            chk.count((c.tree, v, e), nontrivial and gal)
            chk.sample({'type': c.name, 'value': v, 'endianness': e, 'encoded': enc['bytes'], 'decoded': dec, 'greedy_aligned': gal})
            if gal:
                want = {'val': v, 'size': len(enc['bytes']) // 2}
                if dec != want:
                    chk.property_violation(casej, {'what': 'decode(encode(v)) differs from (v, len)', 'encoded': enc['bytes'], 'decoded': dec})
                elif re_enc != enc['bytes']:
                    chk.property_violation(casej, {'what': 're-encoding the decoded message differs', 'encoded': enc['bytes'], 're_encoded': re_enc})
            chk.corr_compared += 1
            if dec != canon_model(c, ans[2 * i + 1]):
                chk.correspondence_mismatch('Py.decode = Message.decode', dict(casej, data=enc['bytes']), dec, ans[2 * i + 1])
        long_arrays(chk, corpus)
        directed_c02(chk)
    finally:
        corpus.close()
    return chk.finish()


def classify_c02(case, detail):
    """D49: an array / bytes field with more than 65536 elements encodes, but decode refuses its counter;
    D56: a greedy array of structs without members cannot be counted back; D57: a never-assigned bytes field reads '' (str),
    the decoded one b''; D58: a float field keeps the assigned Python number, the decoded one is rounded to the field's width"""
    dec = detail.get('decoded')
    if case.get('longest_array', 0) > 65536 and isinstance(dec, dict) and dec.get('exc') == 'ProphyError':
        return 'D49'
    if case.get('directed') in ('D56', 'D57', 'D58') and detail.get('signature_ok'):
        return case['directed']
    return None


def documented_examples(chk, prop):
    """what the documentation shows is what the code does: the byte dump of docs/encoding.rst's externally sized array (D123),
    the hand-written descriptors of docs/example/values.py and docs/python_codec.rst (D124)"""
    import re
    import prophy
    docs = os.path.join(py_impl.REPO, 'docs')
    if prop == 'C01':
        text = open(os.path.join(docs, 'encoding.rst')).read()
        m = re.search(r'u8 size;[^\n]*\n\s*u8 x<@size>;[^\n]*\n\s*u16 y<@size>;.*?encodes as::\s*\n\s*\n\s*([0-9a-fA-F ]+)\n', text, re.S)
        chk.count(('doc', 'externally sized array'), True)
        if not m:
            raise core.Infra('the externally sized array example of docs/encoding.rst was not found')
        ns = handwritten([('Ext', [('size', 'prophy.u8'), ('x', 'prophy.array(prophy.u8, bound="size")'), ('y', 'prophy.array(prophy.u16, bound="size")')])])
        x = ns['Ext']()
        x.x[:] = [4, 5]
        x.y[:] = [6, 7]
        shown, got = m.group(1).replace(' ', '').lower(), x.encode('<').hex()
        if shown != got:
            chk.property_violation({'schema': 'docs/encoding.rst, externally sized array', 'value': 'x = [4, 5], y = [6, 7]'},
                                   {'what': 'the documented bytes differ from encode()', 'documented': shown, 'encode': got})
        # docs/example/python.py (included by docs/examples.rst) runs, and prints what the page says it prints (D178)
        import subprocess
        import sys
        chk.count(('doc', 'python example'), True)
        r = subprocess.run([sys.executable, 'python.py'], cwd=os.path.join(docs, 'example'), env=dict(os.environ, PYTHONPATH=py_impl.REPO),
                           stdout=subprocess.PIPE, stderr=subprocess.PIPE, timeout=120)
        page = open(os.path.join(docs, 'examples.rst')).read()
        m = re.search(r'This is what print statement would generate::\n\n((?:    .*\n|\n)+)', page)
        shown = [line[4:].rstrip() for line in m.group(1).splitlines() if line.strip()] if m else None
        got = [line.rstrip() for line in r.stdout.decode(errors='replace').splitlines() if line.strip()]
        if r.returncode != 0:
            chk.property_violation({'schema': 'docs/example/python.py'}, {'what': 'the documented example does not run', 'stderr': r.stderr.decode(errors='replace')[-300:]})
        elif shown is None or got[:len(shown)] != shown:
            chk.property_violation({'schema': 'docs/example/python.py'}, {'what': 'the documented example prints something else than docs/examples.rst shows',
                                                                         'documented': shown, 'printed': got[:len(shown or [])]})
        codec_page = open(os.path.join(docs, 'python_codec.rst')).read()
        if re.search(r">>> \w+\.decode\('", codec_page):
            chk.property_violation({'schema': 'docs/python_codec.rst'}, {'what': 'the documentation decodes a text string: decode reads bytes'})
    else:
        import importlib.util
        chk.count(('doc', 'hand-written descriptors'), True)
        spec = importlib.util.spec_from_file_location('verif_doc_values', os.path.join(docs, 'example', 'values.py'))
        mod = importlib.util.module_from_spec(spec)
        try:
            spec.loader.exec_module(mod)
            v = mod.Values()
            data = v.encode('<')
            mod.Values().decode(data, '<')
            mod.Values().decode(b'\x01', '<')
            outcome = 'decode of a truncated message returned'
        except prophy.ProphyError:
            outcome = None
        except Exception as ex:  # noqa
            outcome = '%s: %s' % (py_impl.exc_class(ex), str(ex)[:120])
        if outcome:
            chk.property_violation({'schema': 'docs/example/values.py (the documented way to write descriptors by hand)', 'data': '01'},
                                   {'what': 'decode through the documented descriptors did not return or raise ProphyError: ' + outcome})
        text = open(os.path.join(docs, 'python_codec.rst')).read()
        if re.search(r'^\s*__metaclass__\s*=', text, re.M):
            chk.property_violation({'schema': 'docs/python_codec.rst'}, {'what': 'the documentation declares descriptors with the Python 2 __metaclass__ attribute: '
                                                                                 'on Python 3 such a class has no codec (decode raises AttributeError)'})


def handwritten(descriptors):
    """hand-written message classes: [(name, 'struct', [(field, type expr)])] evaluated in order; returns {name: class}"""
    import prophy
    ns = {'prophy': prophy}
    for name, fields in descriptors:
        desc = [(f, eval(t, ns)) for f, t in fields]    # noqa: S307 (literals of this file)
        ns[name] = prophy.with_metaclass(prophy.struct_generator, prophy.struct).__class__(
            name, (prophy.with_metaclass(prophy.struct_generator, prophy.struct),), {'_descriptor': desc})
    return ns


def with_timeout(seconds, fn):
    """('ok', result) | ('exc', class name, message) | ('timeout',) - the call is interrupted after `seconds`"""
    import signal

    class _Timeout(BaseException):
        pass

    def on_alarm(signum, frame):
        raise _Timeout()
    old = signal.signal(signal.SIGPROF, on_alarm)           # CPU time, not wall clock
    signal.setitimer(signal.ITIMER_PROF, seconds)
    try:
        return ('ok', fn())
    except _Timeout:
        return ('timeout',)
    except Exception as ex:  # noqa
        return ('exc', py_impl.exc_class(ex), str(ex)[:200])
    finally:
        signal.setitimer(signal.ITIMER_PROF, 0)
        signal.signal(signal.SIGPROF, old)


def directed_c02(chk):
    """values the corpus generator cannot produce: fields never assigned, Python numbers a float field cannot hold, elements
    without members (hand-written descriptors, both byte orders; attribute equality as a user sees it)"""
    import struct as pystruct
    hand = [
        ('BytesBound', [('n', 'prophy.u32'), ('b', 'prophy.bytes(bound="n")')]),
        ('BytesLimited', [('n', 'prophy.u32'), ('b', 'prophy.bytes(bound="n", size=4)')]),
        ('BytesGreedy', [('a', 'prophy.u32'), ('b', 'prophy.bytes()')]),
        ('BytesFixed', [('b', 'prophy.bytes(size=4)')]),
        ('Floats', [('f', 'prophy.r32'), ('d', 'prophy.r64'), ('n', 'prophy.u32'), ('a', 'prophy.array(prophy.r32, bound="n")')]),
        ('Empty', []),
        ('GreedyEmpty', [('a', 'prophy.u32'), ('g', 'prophy.array(Empty)')]),
        ('BoundEmpty', [('n', 'prophy.u32'), ('m', 'prophy.array(Empty, bound="n")'), ('t', 'prophy.u16')]),
        ('ShiftedEmpty', [('n', 'prophy.u8'), ('m', 'prophy.array(Empty, bound="n", shift=2)'), ('t', 'prophy.u16')]),
        ('LimitedEmpty', [('n', 'prophy.u8'), ('m', 'prophy.array(Empty, bound="n", size=4)'), ('t', 'prophy.u16')]),
        ('FixedEmpty', [('m', 'prophy.array(Empty, size=3)'), ('t', 'prophy.u16')]),
        ('ShiftBig', [('n', 'prophy.u32'), ('a', 'prophy.array(prophy.u8, bound="n", shift=65537)')]),
        ('ShiftTwo', [('n', 'prophy.u32'), ('a', 'prophy.array(prophy.u8, bound="n", shift=2)')]),
        ('ShiftBytes', [('n', 'prophy.u32'), ('b', 'prophy.bytes(bound="n", shift=65536)')]),
    ]
    ns = handwritten(hand)
    DESCRIPTORS = {n: repr(f) for n, f in hand}

    def roundtrip(kind, cls, fill, fields, e, signature):
        x = cls()
        fill(x)
        casej = {'schema': 'hand-written descriptor: ' + DESCRIPTORS[cls.__name__],
                 'type': cls.__name__, 'endianness': e, 'directed': kind}
        chk.count((cls.__name__, kind, e), True)
        chk.bump('directed:' + kind)
        res = with_timeout(20, lambda: (lambda data: (data, cls().decode(data, e)))(x.encode(e)))
        if res[0] != 'ok':
            chk.property_violation(casej, {'what': 'decode(encode(x)) did not return: %s' % (res,)})
            return
        data, size = res[1]
        y = cls()
        y.decode(data, e)
        diffs = {}
        for f in fields:
            a, b = getattr(x, f), getattr(y, f)
            a, b = (list(a), list(b)) if (hasattr(a, '__iter__') or hasattr(a, '__getitem__')) and not isinstance(a, (str, bytes)) else (a, b)
            if isinstance(a, list) and a and hasattr(a[0], 'encode') and not isinstance(a[0], (str, bytes)):
                a, b = len(a), len(b)
            if a != b or type(a) is not type(b) and not isinstance(a, (int, float)):
                diffs[f] = [repr(a), repr(b)]
        if size != len(data):
            chk.property_violation(casej, {'what': 'decode consumed %d of %d bytes' % (size, len(data))})
        elif diffs:
            chk.property_violation(casej, {'what': 'fields of the decoded message differ from the encoded one', 'fields [sent, decoded]': diffs,
                                           'encoded': data.hex(), 'signature_ok': signature(x, y, diffs)}, classify_c02)
        elif y.encode(e) != data:
            chk.property_violation(casej, {'what': 're-encoding the decoded message differs'})

    def r32(v):
        return pystruct.unpack('<f', pystruct.pack('<f', v))[0]

    for e in ENDIAN:
        for name in ('BytesBound', 'BytesLimited', 'BytesGreedy'):
            roundtrip('D57', ns[name], lambda x: None, ['b'], e,
                      lambda x, y, d: list(d) == ['b'] and x.b == '' and y.b == b'')
        roundtrip('assigned-bytes', ns['BytesBound'], lambda x: setattr(x, 'b', b'ab'), ['b'], e, lambda x, y, d: False)
        roundtrip('assigned-bytes', ns['BytesFixed'], lambda x: setattr(x, 'b', b'abcd'), ['b'], e, lambda x, y, d: False)
        roundtrip('D58', ns['Floats'], lambda x: (setattr(x, 'f', 0.1), setattr(x, 'd', 2 ** 53 + 1), x.a.append(16777217)), ['f', 'd', 'a'], e,
                  lambda x, y, d: y.f == r32(0.1) and y.d == float(2 ** 53 + 1) and list(y.a) == [r32(16777217)])
        roundtrip('representable-floats', ns['Floats'], lambda x: (setattr(x, 'f', 0.5), setattr(x, 'd', 0.1), x.a.append(-3.25)), ['f', 'd', 'a'], e,
                  lambda x, y, d: False)
        # the counter guard bounds the element count, whatever the shift (defect D141)
        roundtrip('shifted-counter', ns['ShiftBig'], lambda x: None, ['a'], e, lambda x, y, d: False)
        roundtrip('shifted-counter', ns['ShiftTwo'], lambda x: x.a.extend([7] * 65535), ['a'], e, lambda x, y, d: False)
        roundtrip('shifted-counter', ns['ShiftBytes'], lambda x: setattr(x, 'b', b'x'), ['b'], e, lambda x, y, d: False)
        # counted arrays of elements without members: the count alone carries them (only the greedy form is finding D56)
        for name in ('BoundEmpty', 'ShiftedEmpty', 'LimitedEmpty'):
            for count in (0, 1, 3):
                roundtrip('counted-empty-elements', ns[name], lambda x, count=count: (setattr(x, 't', 0x1234), [x.m.add() for _ in range(count)]), ['m', 't'], e,
                          lambda x, y, d: False)
        roundtrip('counted-empty-elements', ns['FixedEmpty'], lambda x: setattr(x, 't', 0x1234), ['m', 't'], e, lambda x, y, d: False)
        roundtrip('D56', ns['GreedyEmpty'], lambda x: (setattr(x, 'a', 7), x.g.add(), x.g.add()), ['a', 'g'], e,
                  lambda x, y, d: list(d) == ['g'] and len(y.g) == 0)


def long_arrays(chk, corpus):
    """the decoder's counter guard (65536): the boundary must round-trip, one more element is finding D49"""
    reqs, rows = [], []
    for c in corpus.types:
        if c.sidx != 0 or c.name not in ('Dy',):
            continue
        for n in (65536, 65537):
            v = V.default_value(c.tree)
            for i, m in enumerate(c.tree['ms']):
                if m['mk'] == 'dyn' and m['t'].get('p') == 'u8':
                    v['s'][i] = [(7 * j) % 251 for j in range(n)]
                    break
                if m['mk'] == 'dyn' and m['t'].get('k') == 'byte':
                    v['s'][i] = {'b': ''.join('%02x' % ((7 * j) % 251) for j in range(n))}
                    break
            for e in ENDIAN:
                m1, enc = encode_impl(c, v, e)
                casej = {'schema': 'corpus', 'type': c.name, 'value': 'array of %d elements (7*j mod 251)' % n, 'endianness': e, 'longest_array': n}
                chk.count((c.name, n, e), True)
                chk.bump('long-array:%d' % n)
                if 'bytes' not in enc:
                    chk.property_violation(casej, {'what': 'encode raised', 'encode': enc})
                    continue
                m2, dec = decode_impl(c, bytes.fromhex(enc['bytes']), e)
                if dec != {'val': v, 'size': len(enc['bytes']) // 2}:
                    chk.property_violation(casej, {'what': 'decode(encode(v)) differs from (v, len)', 'decoded': dec if 'exc' in dec else 'another value'}, classify_c02)
                reqs.append({'op': 'py_decode', 't': c.tid, 'data': enc['bytes'], 'e': e})
                rows.append((c, casej, dec))
    for (c, casej, dec), a in zip(rows, client.batch(corpus.deft_requests() + reqs)[len(corpus.types):]):
        chk.corr_compared += 1
        if dec != canon_model(c, a):
            chk.correspondence_mismatch('Py.decode = Message.decode (long arrays)', casej, 'exc' in dec and dec or 'value', 'exc' in a and a or 'value')


# ----------------------------------------------------------------------------- C06

def malformed_stream(rng, data, n_corrupt, n_random):
    """byte strings derived from a valid encoding: every prefix, extensions, corruptions, random"""
    out = []
    n = len(data)
    for cut in range(n):
        out.append(('prefix', data[:cut]))
    out.append(('valid', data))
    out.append(('extended', data + b'\x00'))
    out.append(('extended', data + bytes(rng.randrange(256) for _ in range(rng.randint(1, 9)))))
    for _ in range(n_corrupt):
        if not n:
            break
        b = bytearray(data)
        for _ in range(rng.choice([1, 1, 1, 2, 3])):
            i = rng.randrange(n)
            b[i] = rng.choice([0, 1, 2, 3, 4, 5, 7, 8, 0x7f, 0x80, 0xff, rng.randrange(256), b[i] ^ (1 << rng.randrange(8))])
        if rng.random() < 0.3:
            b = b[:rng.randint(0, n)]
        out.append(('corrupt', bytes(b)))
    # whole control words (counters, flags, discriminators) set to boundary values, in either byte order, at aligned offsets
    for _ in range(max(2, n_corrupt // 2)):
        if n < 2:
            break
        w = rng.choice([2, 4, 4, 8, 8])
        if n < w:
            continue
        i = rng.randrange(0, n - w + 1)
        i -= i % min(w, 4)
        val = rng.choice(WORDS) % (1 << (8 * w))
        word = val.to_bytes(w, rng.choice(['little', 'big']))
        b = bytearray(data)
        b[i:i + w] = word
        out.append(('word', bytes(b)))
    for _ in range(n_random):
        out.append(('random', bytes(rng.randrange(256) for _ in range(rng.randint(0, max(4, n + 4))))))
    return out


WORDS = [0, 1, 2, 255, 256, 65535, 65536, 65537, 2 ** 28, 2 ** 28 + 1, 2 ** 31 - 1, 2 ** 31, 2 ** 32 - 1, 2 ** 32, 2 ** 61, 2 ** 61 + 1,
         2 ** 62, 2 ** 63 - 1, 2 ** 63, 2 ** 64 - 1, 2 ** 64 - 2, 2 ** 60 + 3, 2 ** 32 + 1]


def classify_c06(case, detail):
    """known finding D21: the decoded greedy tail does not end aligned (exception documented in C02);
    D56: counted arrays of structs without members yield elements with no bytes behind them;
    D60: RecursionError when the schema nests deeper than about half the interpreter's recursion limit"""
    if detail.get('what', '').startswith('fixpoint') and detail.get('greedy_aligned') is False:
        return 'D21'
    if case.get('directed') == 'D56' and detail.get('elements', 0) > 16 * detail.get('input_bytes', 1 << 60):
        return 'D56'
    if case.get('directed') == 'D60' and detail.get('exc') == 'RecursionError' and case.get('depth', 0) >= 300:
        return 'D60'
    return None


def _released_view(data):
    view = memoryview(data)
    view.release()
    return view


def _closed_mmap(data):
    import mmap
    m = mmap.mmap(-1, len(data))
    m.write(data)
    m.close()
    return m


class _NoTruth(object):
    def __bool__(self):
        raise ValueError('The truth value of a Series is ambiguous.')


class _BadLen(object):
    def __len__(self):
        return -1


def directed_c06(chk):
    """schemas the corpus generator cannot produce (hand-written descriptors): elements of zero size, very deep nesting"""
    import sys
    ns = handwritten([
        ('Empty', []),
        ('GreedyEmpty', [('g', 'prophy.array(Empty)')]),
        ('PaddedGreedyEmpty', [('a', 'prophy.u32'), ('b', 'prophy.u8'), ('g', 'prophy.array(Empty)')]),
        ('CountedEmpty', [('n', 'prophy.u32'), ('x', 'prophy.array(Empty, bound="n")')]),
        ('CountedCounted', [('n', 'prophy.u32'), ('y', 'prophy.array(CountedEmpty, bound="n")')]),
    ])

    def outcome(kind, cls, data, e, extra=None):
        casej = dict({'schema': 'hand-written descriptor', 'type': cls.__name__, 'data': data.hex() if len(data) < 200 else '%d bytes' % len(data),
                      'endianness': e, 'directed': kind}, **(extra or {}))
        chk.count((cls.__name__, kind, data.hex(), e), True)
        chk.bump('directed:' + kind)
        box = {}

        def run():
            box['m'] = cls()
            return box['m'].decode(data, e)
        res = with_timeout(20, run)
        if res[0] == 'timeout':
            chk.property_violation(casej, {'what': 'decode of %d bytes did not terminate within 20 s' % len(data)})
        elif res[0] == 'exc' and res[1] != 'ProphyError':
            chk.property_violation(casej, {'what': 'decode raised %s (only ProphyError is allowed)' % res[1], 'exc': res[1]}, classify_c06)
        return res, box.get('m'), casej

    for e in ENDIAN:
        # a greedy array of zero-size elements: any non-empty rest must end in ProphyError, not in an endless loop (fixed by 6530972)
        outcome('greedy-empty', ns['GreedyEmpty'], b'\x00', e)
        outcome('greedy-empty', ns['PaddedGreedyEmpty'], ns['PaddedGreedyEmpty']().encode(e), e)
        # counted arrays of zero-size elements: 4 counters of 65536 behind one counter of 4 (more would only take longer)
        big = (4).to_bytes(4, 'little' if e == '<' else 'big') + (65536).to_bytes(4, 'little' if e == '<' else 'big') * 4
        res, m, casej = outcome('D56', ns['CountedCounted'], big, e)
        if res[0] == 'ok':
            elements = sum(len(y.x) for y in m.y)
            if elements > 16 * len(big):
                chk.property_violation(casej, {'what': 'an input of %d bytes decoded into %d elements: element counts are not bounded by the input' % (len(big), elements),
                                               'elements': elements, 'input_bytes': len(big)}, classify_c06)
    # byte strings that are not `bytes` objects (D161): read as the bytes they hold, or refused with ProphyError
    import array
    hw = handwritten([('Plain', [('n', 'prophy.u32'), ('x', 'prophy.array(prophy.u16, bound="n")')]),
                      ('WithBytes', [('n', 'prophy.u32'), ('x', 'prophy.array(prophy.u16, bound="n")'), ('b', 'prophy.bytes(size=4)')])])
    plain = bytes.fromhex('02000000' '0100' '0200')
    doubled = bytes(b for pair in zip(plain, plain) for b in pair)
    for note, cls, make, valid in [
        ('bytearray', 'Plain', lambda: bytearray(plain), True), ('memoryview', 'Plain', lambda: memoryview(plain), True),
        ('strided memoryview', 'Plain', lambda: memoryview(doubled)[::2], True), ('reversed memoryview', 'Plain', lambda: memoryview(plain[::-1])[::-1], True),
        ('memoryview of 2-byte items', 'Plain', lambda: memoryview(array.array('H', plain)), True),
        ('memoryview of 4-byte items', 'Plain', lambda: memoryview(array.array('I', plain)), True),
        ('array of bytes', 'Plain', lambda: array.array('B', plain), True),
        ('text string', 'Plain', lambda: plain.decode('latin-1'), False), ('None', 'Plain', lambda: None, False), ('int', 'Plain', lambda: 7, False),
        ('list of ints', 'Plain', lambda: list(plain), False),
        ('released memoryview (D182)', 'Plain', lambda: _released_view(plain), False),
        ('closed mmap (D182)', 'Plain', lambda: _closed_mmap(plain), False),
        ('object whose truth value raises (D182)', 'Plain', lambda: _NoTruth(), False),
        ('object with a broken __len__ (D182)', 'Plain', lambda: _BadLen(), False),
        ('bytearray, schema with a bytes field', 'WithBytes', lambda: bytearray(plain + b'abcd'), True),
        ('memoryview, schema with a bytes field', 'WithBytes', lambda: memoryview(plain + b'abcd'), True),
    ]:
        casej = {'schema': 'hand-written descriptor', 'type': cls, 'data': note + ' holding ' + plain.hex(), 'endianness': '<', 'directed': 'not-bytes'}
        chk.count((cls, 'not-bytes', note), True)
        chk.bump('directed:not-bytes')
        m = hw[cls]()
        try:
            m.decode(make(), '<')
            if list(m.x) != [1, 2] or not valid:
                chk.property_violation(casej, {'what': 'decode returned for %s with x = %r' % (note, list(m.x))})
        except Exception as ex:  # noqa
            name = py_impl.exc_class(ex)
            if name != 'ProphyError':
                chk.property_violation(casej, {'what': 'decode raised %s (only ProphyError is allowed)' % name, 'exc': name}, classify_c06)
            elif valid:
                chk.property_violation(casej, {'what': 'a valid encoding held by a %s is refused: %s' % (note, str(ex)[:100])})
    # a fixed array is not built for an input that cannot hold it (D191): time and memory follow the input, not the schema
    import resource
    big = handwritten([('Pixel', [('v', 'prophy.u8')]), ('Frame', [('id', 'prophy.u32'), ('px', 'prophy.array(Pixel, size=500000)')]),
                       ('Plain', [('id', 'prophy.u32'), ('raw', 'prophy.array(prophy.u8, size=40000000)')]),
                       ('Huge', [('id', 'prophy.u32'), ('raw', 'prophy.array(prophy.u8, size=1 << 40)')]),
                       ('Lim', [('n', 'prophy.u32'), ('raw', 'prophy.array(prophy.u16, bound="n", size=20000000)')])])
    for name in ('Frame', 'Plain', 'Huge', 'Lim'):
        casej = {'schema': 'hand-written descriptor with a large fixed / limited array', 'type': name, 'data': '00000000', 'endianness': '<', 'directed': 'big-fixed-array'}
        chk.count((name, 'big-fixed-array'), True)
        chk.bump('directed:big-fixed-array')
        before = resource.getrusage(resource.RUSAGE_SELF).ru_maxrss
        res = with_timeout(5, lambda name=name: big[name]().decode(b'\x00\x00\x00\x00', '<'))
        grown = resource.getrusage(resource.RUSAGE_SELF).ru_maxrss - before
        if res[0] == 'timeout' or grown > 32 * 1024:
            chk.property_violation(casej, {'what': 'refusing a 4-byte input took %s and about %d MiB' % ('more than 5 s of CPU time' if res[0] == 'timeout' else 'little time', grown // 1024)})
        elif res[0] == 'ok' or res[1] != 'ProphyError':
            chk.property_violation(casej, {'what': 'decode of 4 bytes %s' % ('returned' if res[0] == 'ok' else 'raised %s' % res[1])})
    # nesting depth: struct S0 { u8 a; }; struct Sk { S(k-1) a; }; every message of every Sk is one byte long
    import prophy
    for depth in (100, 300, 500):
        cls = None
        for k in range(depth + 1):
            base = prophy.with_metaclass(prophy.struct_generator, prophy.struct)
            cls = type(base)('S%d' % k, (base,), {'_descriptor': [('a', prophy.u8 if cls is None else cls)]})
        for data in (b'\x01', b'', b'\x01\x02'):
            outcome('D60', cls, data, '<', {'depth': depth, 'recursion_limit': sys.getrecursionlimit()})


def run_c06(tier):
    import time
    chk = core.Check('C06', tier)
    chk.rule = ('for every message type of the corpus and several values: every prefix of the valid encoding, extensions, '
                'corruptions of 1-3 bytes (control-word values 0/1/ff/bit flips, optionally truncated) and random strings; '
                'a case = (type, bytes, byte order). Observed on the real codec: exception class or (value, size), then encode of the '
                'result and the decode(encode()) fixpoint; the same bytes run through Py.decode of the Lean model. '
                'non-trivial = distinct (type, bytes) that is not the untouched valid encoding.')
    chk.lean = core.lean_obligations('C06', thorough=(tier == 'thorough'))
    corpus = Corpus(chk, chk.scale(60, 600), dict(n_decls=8, shifts=True))
    slow = 0.0
    try:
        reqs = corpus.deft_requests()
        nd = len(reqs)
        rows = []
        for c in corpus.types:
            for vi in range(chk.scale(2, 4)):
                v = V.gen_value(chk.rng, c.tree, max_len=3)
                e = chk.rng.choice(ENDIAN)
                _, enc = encode_impl(c, v, e)
                if 'bytes' not in enc:
                    continue
                data = bytes.fromhex(enc['bytes'])
                for kind, bs in malformed_stream(chk.rng, data, chk.scale(12, 40), chk.scale(4, 12)):
                    t0 = time.process_time()   # CPU time of this process: a loaded machine must not look like a slow decoder
                    m, dec = decode_impl(c, bs, e)
                    dt = time.process_time() - t0
                    if dt > 1.0:
                        # a collection of the interpreter's garbage collector over the millions of rows this run keeps is CPU
                        # time of this process too: measure again, twice, right after a collection, and take the best
                        import gc
                        for _ in range(2):
                            gc.collect()
                            t0 = time.process_time()
                            decode_impl(c, bs, e)
                            dt = min(dt, time.process_time() - t0)
                    slow = max(slow, dt)
                    fix = None
                    if 'val' in dec:
                        try:
                            enc2 = m.encode(e)
                            m3, dec3 = decode_impl(c, enc2, e)
                            if 'val' in dec3:
                                try:
                                    enc3 = m3.encode(e).hex()
                                except Exception as ex:  # noqa
                                    enc3 = 'exc:' + py_impl.exc_class(ex)
                            else:
                                enc3 = None
                            fix = {'enc2': enc2.hex(), 'dec3': dec3, 'enc3': enc3}
                        except Exception as ex:  # noqa
                            fix = {'encode_exc': py_impl.exc_class(ex)}
                    rows.append((c, e, kind, bs, dec, fix, dt))
                    reqs.append({'op': 'py_decode', 't': c.tid, 'data': bs.hex(), 'e': e})
                    if 'val' in dec:
                        reqs.append({'op': 'spec_chunks', 't': c.tid, 'v': V.denan(dec['val'])})
        ans = client.batch(reqs, timeout=1800)[nd:]
        k = 0
        for c, e, kind, bs, dec, fix, dt in rows:
            model = ans[k]
            k += 1
            gal = None
            if 'val' in dec:
                gal = ans[k].get('gal')
                k += 1
            casej = {'schema': c.text, 'type': c.name, 'data': bs.hex(), 'endianness': e, 'stream': kind}
            chk.count((c.tree, bs.hex(), e), kind != 'valid')
            chk.bump('stream:' + kind)
            chk.bump('outcome:' + (dec.get('exc') or 'ok'))
            if kind == 'corrupt':
                chk.sample({'type': c.name, 'data': bs.hex(), 'endianness': e, 'outcome': dec}, limit=4)
            if 'exc' in dec and dec['exc'] != 'ProphyError':
                chk.property_violation(casej, {'what': 'decode raised %s (only ProphyError is allowed)' % dec['exc']})
            if dt > 2.0:
                chk.property_violation(casej, {'what': 'decode took %.1fs for %d bytes' % (dt, len(bs))})
            if 'val' in dec:
                if 'encode_exc' in fix:
                    chk.property_violation(casej, {'what': 'decoded message does not encode: ' + fix['encode_exc'], 'decoded': dec})
                elif 'nan' in json.dumps(dec['val']):
                    chk.bump('fixpoint-skipped-nan')
                elif fix['dec3'] != {'val': dec['val'], 'size': len(fix['enc2']) // 2} or fix['enc3'] != fix['enc2']:
                    chk.property_violation(casej, {'what': 'fixpoint: decode(encode(decoded)) differs', 'decoded': dec, 'fix': fix,
                                                   'greedy_aligned': gal}, classify_c06)
            chk.corr_compared += 1
            if dec != canon_model(c, model):
                chk.correspondence_mismatch('Py.decode = Message.decode (malformed stream)', casej, dec, model)
        chk.extra['slowest_decode_s'] = round(slow, 4)
        directed_c06(chk)
        documented_examples(chk, 'C06')
    finally:
        corpus.close()
    return chk.finish()

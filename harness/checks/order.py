"""
C15: definition order does not matter.  Random DAGs x random permutations rendered as isar XML
through the real prophyc: order of the returned nodes (vs the Lean model of topological_sort and
vs the true dependency relation), import of the generated Python, per-type layout across permutations.
"""
import os
import shutil
import tempfile

from harness import core
from harness.gen import dag, isar, schema as S
from harness.impl import py_impl
from harness.model import client


def compile_isar(xml, workdir, base):
    src = os.path.join(workdir, base + '.xml')
    with open(src, 'w') as f:
        f.write(xml)
    res, _ = py_impl.run_prophyc(['--isar', '--python_out', workdir, src])
    return res[base]


def run_c15(tier):
    chk = core.Check('C15', tier)
    chk.rule = ('random acyclic definition sets (constants with expressions over constants/enumerators, enums, typedefs, structs with '
                'array sizes by name, unions with enumerator discriminators) x random permutations of the definitions inside the '
                'isar XML, compiled by the real prophyc --isar; a case = (definition set, permutation); non-trivial = the permutation '
                'is not already dependency-ordered. Observed: order of nodes returned by prophyc.main(), import of the generated '
                'module, byte_size/alignment of every struct/union across permutations.')
    chk.lean = core.lean_obligations('C15', thorough=(tier == 'thorough'))
    workdir = tempfile.mkdtemp(prefix='prophy-verif-')
    try:
        reqs, rows = [], []
        directed = dag.directed_sets()
        for gi in range(chk.scale(120, 1200)):
            sc = directed[gi] if gi < len(directed) else dag.gen_dag(chk.rng, n=chk.rng.randint(4, 12), enum_heavy=(gi % 3 == 0))
            deps = dag.true_deps(sc)
            names = [d.name for d in sc.decls]
            baseline = None
            for pi in range(chk.scale(4, 6)):
                order = list(range(len(sc.decls)))
                if pi:
                    chk.rng.shuffle(order)
                else:
                    order.reverse()
                xml = isar.to_isar(sc, order)
                base = 'g%dp%d' % (gi, pi)
                casej = {'xml': xml}
                try:
                    nodes = compile_isar(xml, workdir, base)
                except Exception as ex:  # noqa
                    chk.count((gi, pi))
                    chk.property_violation(casej, {'what': 'prophyc failed on an acyclic definition set: %s: %s' % (type(ex).__name__, str(ex)[:300])})
                    continue
                got = [n.name for n in nodes]
                # was the input order already fine?
                parser_order = [d['name'] for d in isar.topo_decls(sc, order)]
                seen, trivial = set(), True
                for n in parser_order:
                    if not deps[n] <= seen:
                        trivial = False
                    seen.add(n)
                chk.count((xml,), not trivial)
                chk.sample({'input_order': parser_order, 'output_order': got, 'xml': xml if len(xml) < 1500 else xml[:1500] + '...'})
                # property: permutation + dependency order
                if sorted(got) != sorted(names):
                    chk.property_violation(casej, {'what': 'output is not a permutation of the definitions', 'output': got, 'defined': names})
                else:
                    seen = set()
                    for n in got:
                        missing = deps[n] - seen
                        if missing:
                            chk.property_violation(casej, {'what': "'%s' is listed before %s which it depends on" % (n, sorted(missing)), 'output': got})
                            break
                        seen.add(n)
                # property: the generated module imports
                try:
                    py_impl.import_file(os.path.join(workdir, base + '.py'))
                except Exception as ex:  # noqa
                    chk.property_violation(casej, {'what': 'generated Python module does not import: %s: %s' % (type(ex).__name__, str(ex)[:200]), 'output': got})
                # property: same layout across permutations
                layout = {n.name: (n.byte_size, n.alignment, n.kind) for n in nodes if hasattr(n, 'byte_size') and hasattr(n, 'members')}
                if baseline is None:
                    baseline = layout
                elif layout != baseline:
                    chk.property_violation(casej, {'what': 'layout differs between permutations of the same definitions', 'this': layout, 'first': baseline})
                # correspondence: the model of topological_sort
                reqs.append({'op': 'prophyc_topo', 'decls': isar.topo_decls(sc, order)})
                rows.append((casej, got))
        ans = client.batch(reqs)
        for (casej, got), a in zip(rows, ans):
            chk.corr_compared += 1
            if a != {'order': got}:
                chk.correspondence_mismatch('Topo.sortDecls = order of prophyc.main() nodes', casej, got, a)
    finally:
        shutil.rmtree(workdir, ignore_errors=True)
    return chk.finish()

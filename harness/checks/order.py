"""
C15: definition order does not matter.  Random DAGs x random permutations rendered as isar XML
through the real prophyc: order of the returned nodes (vs the Lean model of topological_sort and
vs the true dependency relation), import of the generated Python, per-type layout across permutations.
"""
import os
import shutil
import tempfile

from harness import core
from harness.gen import dag, isar, schema as S
from harness.impl import py_impl
from harness.model import client


# files included by some of the definition sets: what they define is used by nobody, the Include nodes only take part in the sort
INCLUDED = ['inc_a', 'inc_b', 'inc_c']
INCLUDED_XML = '<dom><constant name="IK_%s" value="3"/><typedef name="IT_%s" type="u16"/></dom>'


def compile_isar(xml, workdir, base):
    src = os.path.join(workdir, base + '.xml')
    with open(src, 'w') as f:
        f.write(xml)
    res, _ = py_impl.run_prophyc(['--isar', '--python_out', workdir, src])
    return res[base]


def include_named_like_a_definition(chk, workdir):
    """an included file whose base name equals a definition of the including file does not provide that definition (D78)"""
    d = os.path.join(workdir, 'inc')
    os.makedirs(d)
    with open(os.path.join(d, 'S.xml'), 'w') as f:
        f.write('<x><constant name="K" value="3"/></x>')
    T = '<struct name="T"><member name="s" type="S"/><member name="k" type="u8"><dimension size="K"/></member></struct>'
    Sx = '<struct name="S"><member name="y" type="u8"/><member name="z" type="u32"/></struct>'
    layouts = []
    for order, body in (('S first', Sx + T), ('T first', T + Sx)):
        xml = '<x xmlns:xi="http://www.xyz.com/1984/XInclude"><xi:include href="S.xml"/>%s</x>' % body
        base = 'a' + order[0]
        casej = {'files': {'S.xml': '<x><constant name="K" value="3"/></x>', base + '.xml': xml}, 'rule': 'include named like a definition'}
        chk.count(('include-named', order), order == 'T first')
        chk.bump('directed:include named like a definition')
        src = os.path.join(d, base + '.xml')
        with open(src, 'w') as f:
            f.write(xml)
        try:
            res, _ = py_impl.run_prophyc(['--isar', '-I', d, '--python_out', d, os.path.join(d, 'S.xml')])
            res, _ = py_impl.run_prophyc(['--isar', '-I', d, '--python_out', d, src])
            nodes = res[base]
        except Exception as ex:  # noqa
            chk.property_violation(casej, {'what': 'prophyc failed on an acyclic definition set: %s: %s' % (type(ex).__name__, str(ex)[:300])})
            continue
        got = [n.name for n in nodes if hasattr(n, 'members') and not type(n).__name__ == 'Include']
        if got != ['S', 'T']:
            chk.property_violation(casej, {'what': "definitions are listed as %s: 'T' needs 'S' before it" % got})
        layouts.append({n.name: (n.byte_size, n.alignment) for n in nodes if hasattr(n, 'byte_size') and hasattr(n, 'members')})
        try:
            from harness.checks import files as F
            F.import_package(d, ['S', base])
        except Exception as ex:  # noqa
            chk.property_violation(casej, {'what': 'generated Python module does not import: %s: %s' % (type(ex).__name__, str(ex)[:200])})
    if len(layouts) == 2 and layouts[0] != layouts[1]:
        chk.property_violation({'rule': 'include named like a definition'}, {'what': 'layout differs between the two orders', 'layouts': layouts})


def classify_c15(case, detail):
    """D79: `--prophy_out` (SchemaTranslator has no translate_typedef) lists no typedef;
    D172: the isar front-end drops a struct / union / enum / message element that has no child elements"""
    if case.get('rule') == '--prophy_out lists every definition' and detail.get('missing_kinds') == ['Typedef']:
        return 'D79'
    if case.get('rule') == 'isar definitions without child elements' and detail.get('missing') and set(detail['missing']) <= set(case.get('childless', [])):
        return 'D172'
    return None


def childless_definitions(chk, workdir):
    """every definition of the input is in the output: also a struct / message / union / enum element without child elements
    (dropped by the isar front-end: known finding D172); the same struct emptied by a patch rule is kept"""
    d = os.path.join(workdir, 'childless')
    os.makedirs(d)
    other = '<struct name="Other"><member name="a" type="u8"/></struct>'
    for note, body, childless, patch in [
        ('childless struct and message', '<struct name="Empty"/>' + other + '<message name="Ping"/>', ['Empty', 'Ping'], None),
        ('childless enum and union', '<enum name="E"/>' + other + '<union name="U"/>', ['E', 'U'], None),
        ('struct emptied by a patch rule', '<struct name="Empty"><member name="dummy" type="u8"/></struct>' + other, [], 'Empty remove dummy\n'),
    ]:
        base = 'c%d' % len(os.listdir(d))
        src = os.path.join(d, base + '.xml')
        with open(src, 'w') as f:
            f.write('<x>%s</x>' % body)
        args = ['--isar', '--python_out', d]
        if patch:
            with open(src + '.patch', 'w') as f:
                f.write(patch)
            args += ['--patch', src + '.patch']
        casej = {'xml': '<x>%s</x>' % body, 'rule': 'isar definitions without child elements', 'childless': childless, 'patch': patch}
        chk.count(('childless', note), True)
        chk.bump('directed:childless definitions')
        try:
            res, _ = py_impl.run_prophyc(args + [src])
        except Exception as ex:  # noqa
            if py_impl.exc_class(ex) != 'ProphycError':
                chk.property_violation(casej, {'what': 'prophyc failed: %s: %s' % (type(ex).__name__, str(ex)[:300])})
            continue             # refusing such an element with a diagnostic is fine
        import re
        defined = re.findall(r'<(?:struct|message|union|enum) name="(\w+)"', body)
        listed = [n.name for n in res[base]]
        missing = [n for n in defined if listed.count(n) != 1]
        if missing:
            chk.property_violation(casej, {'what': 'accepted without a diagnostic, but %s of the input are not in the output' % missing, 'missing': missing,
                                           'output': listed}, classify_c15)


def prophy_out_lists_everything(chk, workdir):
    """the schema generator is an output of prophyc too: every definition exactly once (typedefs are dropped: known finding D79)"""
    import re
    d = os.path.join(workdir, 'pout')
    os.makedirs(d)
    xml = ('<x><struct name="S"><member name="a" type="T"/><member name="b" type="TS"/><member name="e" type="E"/></struct><typedef name="TS" type="Inner"/>'
           '<typedef name="T" type="u16"/><struct name="Inner"><member name="i" type="u8"/></struct><enum name="E"><enum-member name="E_A" value="1"/></enum>'
           '<union name="U"><member name="x" type="u8" discriminatorValue="1"/></union><constant name="K" value="3"/></x>')
    src = os.path.join(d, 'f.xml')
    with open(src, 'w') as f:
        f.write(xml)
    casej = {'xml': xml, 'rule': '--prophy_out lists every definition'}
    chk.count(('prophy_out',), True)
    chk.bump('directed:--prophy_out')
    try:
        res, _ = py_impl.run_prophyc(['--isar', '--prophy_out', d, src])
        text = open(os.path.join(d, 'f.prophy')).read()
    except Exception as ex:  # noqa
        chk.property_violation(casej, {'what': 'prophyc --prophy_out failed: %s: %s' % (type(ex).__name__, str(ex)[:300])})
        return
    nodes = res['f']
    missing = [n for n in nodes if len(re.findall(r'(?<![\w])%s(?![\w])\s*(=|\{|;)' % re.escape(n.name), text)) != 1]
    if missing:
        chk.property_violation(casej, {'what': '--prophy_out does not list %s exactly once' % [n.name for n in missing], 'output': text,
                                       'missing_kinds': sorted(set(type(n).__name__ for n in missing))}, classify_c15)


def run_c15(tier):
    chk = core.Check('C15', tier)
    chk.rule = ('random acyclic definition sets (constants with expressions over constants/enumerators, enums, typedefs, structs with '
                'array sizes by name, unions with enumerator discriminators) x random permutations of the definitions inside the '
                'isar XML, compiled by the real prophyc --isar; a case = (definition set, permutation); non-trivial = the permutation '
                'is not already dependency-ordered. Observed: order of nodes returned by prophyc.main(), import of the generated '
                'module, byte_size/alignment of every struct/union across permutations.')
    chk.lean = core.lean_obligations('C15', thorough=(tier == 'thorough'))
    workdir = tempfile.mkdtemp(prefix='prophy-verif-')
    try:
        reqs, rows = [], []
        directed = dag.directed_sets()
        for i in INCLUDED:
            compile_isar(INCLUDED_XML % (i.upper(), i.upper()), workdir, i)
        for gi in range(chk.scale(120, 1200)):
            sc = directed[gi] if gi < len(directed) else dag.gen_dag(chk.rng, n=chk.rng.randint(4, 12), enum_heavy=(gi % 3 == 0))
            deps = dag.true_deps(sc)
            names = [d.name for d in sc.decls]
            baseline = None
            for pi in range(chk.scale(4, 6)):
                order = list(range(len(sc.decls)))
                if pi:
                    chk.rng.shuffle(order)
                else:
                    order.reverse()
                # every third definition set also includes 1..3 files (Include nodes stand in the sorted list without being definitions)
                incs = INCLUDED[:1 + (gi // 3) % 3] if gi % 3 == 1 else []
                xml = isar.to_isar(sc, order, includes=[i + '.xml' for i in incs])
                base = 'g%dp%d' % (gi, pi)
                casej = {'xml': xml}
                if incs:
                    casej['included_files'] = dict((i + '.xml', INCLUDED_XML % (i.upper(), i.upper())) for i in incs)
                    chk.bump('with-%d-includes' % len(incs))
                try:
                    nodes = compile_isar(xml, workdir, base)
                except Exception as ex:  # noqa
                    chk.count((gi, pi))
                    chk.property_violation(casej, {'what': 'prophyc failed on an acyclic definition set: %s: %s' % (type(ex).__name__, str(ex)[:300])})
                    continue
                got = [n.name for n in nodes if type(n).__name__ != 'Include']
                if [n.name for n in nodes if type(n).__name__ == 'Include'] != incs:
                    chk.property_violation(casej, {'what': 'the included files are not listed once each, in the order they are written',
                                                   'output': [n.name for n in nodes]})
                # was the input order already fine?
                parser_order = [d['name'] for d in isar.topo_decls(sc, order)]
                seen, trivial = set(), True
                for n in parser_order:
                    if not deps[n] <= seen:
                        trivial = False
                    seen.add(n)
                chk.count((xml,), not trivial)
                chk.sample({'input_order': parser_order, 'output_order': got, 'xml': xml if len(xml) < 1500 else xml[:1500] + '...'})
                # property: permutation + dependency order
                if sorted(got) != sorted(names):
                    chk.property_violation(casej, {'what': 'output is not a permutation of the definitions', 'output': got, 'defined': names})
                else:
                    seen = set()
                    for n in got:
                        missing = deps[n] - seen
                        if missing:
                            chk.property_violation(casej, {'what': "'%s' is listed before %s which it depends on" % (n, sorted(missing)), 'output': got})
                            break
                        seen.add(n)
                # property: the generated module imports
                try:
                    if incs:
                        from harness.checks import files as F
                        F.import_package(workdir, incs + [base])
                    else:
                        py_impl.import_file(os.path.join(workdir, base + '.py'))
                except Exception as ex:  # noqa
                    chk.property_violation(casej, {'what': 'generated Python module does not import: %s: %s' % (type(ex).__name__, str(ex)[:200]), 'output': got})
                # property: same layout across permutations
                layout = {n.name: (n.byte_size, n.alignment, n.kind) for n in nodes if hasattr(n, 'byte_size') and hasattr(n, 'members')}
                if baseline is None:
                    baseline = layout
                elif layout != baseline:
                    chk.property_violation(casej, {'what': 'layout differs between permutations of the same definitions', 'this': layout, 'first': baseline})
                # correspondence: the model of topological_sort
                reqs.append({'op': 'prophyc_topo', 'decls': isar.topo_decls(sc, order, includes=incs)})
                rows.append((casej, got))
        include_named_like_a_definition(chk, workdir)
        prophy_out_lists_everything(chk, workdir)
        childless_definitions(chk, workdir)
        ans = client.batch(reqs)
        for (casej, got), a in zip(rows, ans):
            chk.corr_compared += 1
            if a != {'order': got}:
                chk.correspondence_mismatch('Topo.sortDecls = order of prophyc.main() nodes', casej, got, a)
    finally:
        shutil.rmtree(workdir, ignore_errors=True)
    return chk.finish()

"""
C10: the Python message API keeps every reachable message state valid.
Random histories of public API operations (valid, out-of-range and wrongly typed arguments) on
real message objects, observed after every operation (attribute reads, exception class, str(),
encode()), against the Lean reference model `Api.run` (correspondence, step by step) and the
property oracle (allowed exception classes, rejected operation changes nothing, every state is
well typed - Lean `hasType` - and encodes unless arrays sharing a sizer differ in length).
"""
import json

from harness import core
from harness.gen import values as V
from harness.impl import py_impl
from harness.model import client
from harness.checks.pycorpus import Corpus

ALLOWED = ('ProphyError', 'IndexError', 'ValueError')


# ----------------------------------------------------------------------------- arguments

def py_arg(a, mod):
    if a is None or a is True:
        return a
    if a == 'flt':
        return 0.5
    if a == 'other':
        return object()
    if 'int' in a:
        return a['int']
    if 'str' in a:
        return a['str']
    if 'bytes' in a:
        return bytes.fromhex(a['bytes'])
    if 'list' in a:
        return [py_arg(x, mod) for x in a['list']]
    if 'iter' in a:
        return iter([py_arg(x, mod) for x in a['iter']])
    if 'msg' in a:
        tname, val, tree = a['msg'][0], a['msg'][1], a['_tree']
        m = getattr(mod, tname)()
        V.apply(m, tree, val)
        return m
    raise ValueError(a)


def strip(a):
    """the argument as the driver reads it (without harness-only keys)"""
    if isinstance(a, dict):
        return {k: ([strip(x) for x in v] if isinstance(v, list) and k in ('list', 'iter') else v) for k, v in a.items() if k != '_tree'}
    return a


def scalar_arg(rng, t):
    """an argument for a field / element of scalar type `t`: mostly valid, sometimes out of range or wrongly typed"""
    r = rng.random()
    if r < 0.70:
        if t['k'] == 'enum':
            e = rng.choice(t['es'])
            return {'str': e[0]} if rng.random() < 0.3 else {'int': e[1]}
        if t['k'] == 'prim':
            return {'int': V.gen_int(rng, t['p'])}
        return {'int': rng.randint(0, 255)}
    if r < 0.82:
        lo, hi = V.INT_RANGE.get(t.get('p', 'u8'), (0, 255))
        if t['k'] == 'enum':
            return {'int': rng.choice([1, 2, 77, -1, 2**32])}
        return {'int': rng.choice([lo - 1, hi + 1, -2**70, 2**70])}
    return rng.choice(['flt', {'str': 'zz'}, None, True, 'other', {'bytes': '01'}, {'list': [{'int': 1}]}])


def collection_arg(rng, t, n=None):
    n = rng.randint(0, 3) if n is None else n
    items = [scalar_arg(rng, t) if rng.random() < 0.1 else
             ({'int': rng.choice(t['es'])[1]} if t['k'] == 'enum' else {'int': V.gen_int(rng, t['p'])} if t['k'] == 'prim' else {'int': 7})
             for _ in range(n)]
    r = rng.random()
    if r < 0.70:
        return {'list': items}
    if r < 0.85:
        return {'iter': items}
    return rng.choice([{'int': 1}, None, 'other', {'str': 'ab'}, {'bytes': '0102'}])


# ----------------------------------------------------------------------------- op generation on the current state

def targets(tree, state, path, out):
    """all (path, tree, state) composites reachable from `state` through present fields"""
    out.append((path, tree, state))
    if tree['k'] == 'struct':
        for i, (m, v) in enumerate(zip(tree['ms'], state['s'])):
            mt = m['t']
            if mt['k'] not in ('struct', 'union'):
                continue
            if m['mk'] == 'plain':
                targets(mt, v, path + [['f', i]], out)
            elif m['mk'] == 'optional' and v is not None:
                targets(mt, v['p'], path + [['f', i]], out)
            elif m['mk'] in ('fixed', 'dyn', 'limited', 'greedy'):
                for j, ev in enumerate(v):
                    targets(mt, ev, path + [['f', i], ['e', j if j % 2 == 0 else j - len(v)]], out)
    elif tree['k'] == 'union':
        arm = tree['arms'][state['u']]
        if arm['t']['k'] in ('struct', 'union'):
            targets(arm['t'], state['v'], path + [['f', state['u']]], out)


def sizer_cap(t, m):
    """what the sizer of array member `m` can count (its type's maximum minus the shift), when that is small"""
    if 'sizer' not in m:
        return None
    sm = next((x for x in t['ms'] if x['n'] == m['sizer']), None)
    if sm is None or sm['t'].get('k') != 'prim':
        return None
    hi = V.INT_RANGE.get(sm['t']['p'], (0, 0))[1]
    cap = hi - m.get('shift', 0)
    if m['mk'] == 'limited':
        cap = min(cap, m['size'])
    return cap if cap <= 300 else None


def gen_op(rng, tree, state):
    tg = []
    targets(tree, state, [], tg)
    path, t, st = rng.choice(tg)
    if t['k'] == 'union':
        r = rng.random()
        if r < 0.4:
            arm = rng.choice(t['arms'])
            a = rng.choice([{'int': arm['d']}, {'str': arm['n']}, {'int': 12345}, {'str': 'nope'}, None, 'flt'])
            return {'op': 'setDisc', 'path': path, 'a': a}
        i = st['u'] if rng.random() < 0.8 else rng.randrange(len(t['arms']))
        return {'op': 'set', 'path': path, 'i': i, 'a': scalar_arg(rng, t['arms'][i]['t']) if t['arms'][i]['t']['k'] not in ('struct', 'union') else rng.choice([True, None, {'int': 1}])}
    sizers = V.sizer_names(t)
    cands = [i for i, m in enumerate(t['ms']) if m['n'] not in sizers]
    if not cands:
        return None
    arrays = [i for i in cands if t['ms'][i]['mk'] in ('fixed', 'dyn', 'limited', 'greedy') and t['ms'][i]['t']['k'] != 'byte']
    i = rng.choice(arrays) if arrays and rng.random() < 0.55 else rng.choice(cands)
    m, v = t['ms'][i], st['s'][i]
    mt, mk = m['t'], m['mk']
    comp = mt['k'] in ('struct', 'union')
    if mk == 'plain':
        if comp:
            return {'op': 'set', 'path': path, 'i': i, 'a': rng.choice([True, None, {'int': 1}, 'other'])}
        return {'op': 'set', 'path': path, 'i': i, 'a': scalar_arg(rng, mt)}
    if mk == 'optional':
        if comp:
            return {'op': 'set', 'path': path, 'i': i, 'a': rng.choice([True, True, None, {'int': 1}, 'other', {'str': 'x'}])}
        return {'op': 'set', 'path': path, 'i': i, 'a': None if rng.random() < 0.25 else scalar_arg(rng, mt)}
    cap = sizer_cap(t, m)
    if mt['k'] == 'byte':
        n = rng.choice([0, 1, 2, 3, 4, 5, 6, 300])
        if cap is not None and rng.random() < 0.3:
            n = max(0, cap + rng.choice([-1, 0, 1]))
        a = {'bytes': ''.join('%02x' % rng.randrange(256) for _ in range(n))} if rng.random() < 0.85 else rng.choice([{'str': 'ab'}, {'int': 1}, None, {'list': []}])
        return {'op': 'set', 'path': path, 'i': i, 'a': a}
    # arrays
    ln = len(v)
    idx = rng.choice([0, -1, 1, ln - 1, ln, -ln - 1, 5]) if ln else rng.choice([0, -1, 1])
    if rng.random() < 0.06:
        return {'op': 'set', 'path': path, 'i': i, 'a': {'list': []}}          # assignment to the array attribute
    if comp:
        if mk == 'fixed':
            return None
        if cap is not None and rng.random() < 0.2:
            # grow to the edge of what the sizer can count
            n = max(0, cap - ln + rng.choice([-1, 0, 1]))
            return {'op': 'extend', 'path': path, 'i': i, 'a': {'list': [{'msg': [mt['name'], V.gen_value(rng, mt, max_len=1)], '_tree': mt} for _ in range(n)]}}
        r = rng.random()
        if r < 0.45:
            return {'op': 'add', 'path': path, 'i': i}
        if r < 0.70:
            k = rng.randint(0, 2)
            elems = [{'msg': [mt['name'], V.gen_value(rng, mt, max_len=2)], '_tree': mt} for _ in range(k)]
            if rng.random() < 0.12:
                elems.append(rng.choice([{'int': 1}, None]))
            a = ({'list': elems} if rng.random() < 0.7 else {'iter': elems}) if rng.random() < 0.9 else rng.choice([{'int': 1}, None])
            return {'op': 'extend', 'path': path, 'i': i, 'a': a}
        if r < 0.85:
            return {'op': 'delItem', 'path': path, 'i': i, 'idx': idx}
        return {'op': 'delSlice', 'path': path, 'i': i, 'lo': rng.choice([None, 0, 1, -1]), 'hi': rng.choice([None, 1, -1, 9])}
    if mk == 'fixed':
        r = rng.random()
        if r < 0.6:
            return {'op': 'setItem', 'path': path, 'i': i, 'idx': idx, 'a': scalar_arg(rng, mt)}
        lo, hi = rng.choice([None, 0, 1]), rng.choice([None, 1, 2, -1])
        return {'op': 'setSlice', 'path': path, 'i': i, 'lo': lo, 'hi': hi, 'step': rng.choice([None, None, None, 1, 2]),
                'a': collection_arg(rng, mt, n=rng.choice([None, ln]))}
    if cap is not None and ln >= cap - 1 and rng.random() < 0.35:
        # at (or one below) the limit: insertions in the middle, slices that grow and stop before the end
        lo = rng.choice([0, 1, -1, None])
        hi = lo if rng.random() < 0.6 else rng.choice([0, 1, lo])
        return {'op': 'setSlice', 'path': path, 'i': i, 'lo': lo, 'hi': hi, 'step': None, 'a': collection_arg(rng, mt, n=rng.choice([1, 2, 3]))}
    if cap is not None and rng.random() < 0.2:
        # grow to the edge of what the sizer can count
        n = max(0, cap - ln + rng.choice([-1, -1, 0, 1]))
        return {'op': 'extend', 'path': path, 'i': i, 'a': collection_arg(rng, mt, n=n)}
    r = rng.random()
    if r < 0.22:
        return {'op': 'append', 'path': path, 'i': i, 'a': scalar_arg(rng, mt)}
    if r < 0.34:
        return {'op': 'insert', 'path': path, 'i': i, 'idx': idx, 'a': scalar_arg(rng, mt)}
    if r < 0.50:
        return {'op': 'extend', 'path': path, 'i': i, 'a': collection_arg(rng, mt)}
    if r < 0.62:
        return {'op': 'setItem', 'path': path, 'i': i, 'idx': idx, 'a': scalar_arg(rng, mt)}
    if r < 0.76:
        return {'op': 'setSlice', 'path': path, 'i': i, 'lo': rng.choice([None, 0, 1, -1, 7]), 'hi': rng.choice([None, 0, 1, -1, 9]),
                'step': rng.choice([None, None, None, 1, 2, -1]), 'a': collection_arg(rng, mt)}
    if r < 0.86:
        return {'op': 'delItem', 'path': path, 'i': i, 'idx': idx}
    if r < 0.93:
        return {'op': 'delSlice', 'path': path, 'i': i, 'lo': rng.choice([None, 0, 1, -1]), 'hi': rng.choice([None, 1, -1, 9])}
    present = [x for x in v if isinstance(x, int)]
    a = {'int': rng.choice(present)} if present and rng.random() < 0.6 else rng.choice([{'int': 424242}, {'str': 'a'}, 'flt', None])
    return {'op': 'remove', 'path': path, 'i': i, 'a': a}


def edge_arrays(tree):
    return [i for i, m in enumerate(tree.get('ms', [])) if m['mk'] in ('dyn', 'limited') and m['t']['k'] != 'byte' and sizer_cap(tree, m) is not None]


def edge_op(rng, tree, state, i, k):
    """the k-th operation of a history that walks the sizer-limited array member `i` of the message to the edge of what its
    counter can count and tries to step over it in every way the API offers"""
    m, v = tree['ms'][i], state['s'][i]
    mt, cap, ln = m['t'], sizer_cap(tree, m), len(state['s'][i])
    comp = mt['k'] in ('struct', 'union')

    def elems(n):
        if comp:
            return {'list': [{'msg': [mt['name'], V.gen_value(rng, mt, max_len=1)], '_tree': mt} for _ in range(n)]}
        return collection_arg(rng, mt, n=n)
    one = {'op': 'add', 'path': [], 'i': i} if comp else {'op': 'append', 'path': [], 'i': i, 'a': scalar_arg(rng, mt)}
    if k == 0:
        return {'op': 'extend', 'path': [], 'i': i, 'a': elems(max(0, cap - 1 - ln))}
    if k in (1, 2, 8):
        return one                                      # reaches the limit, then one too many
    if k == 3:
        return {'op': 'extend', 'path': [], 'i': i, 'a': elems(1)} if comp else {'op': 'insert', 'path': [], 'i': i, 'idx': 0, 'a': scalar_arg(rng, mt)}
    if k == 4:
        return {'op': 'delItem', 'path': [], 'i': i, 'idx': 0} if comp else \
            {'op': 'setSlice', 'path': [], 'i': i, 'lo': 1, 'hi': 1, 'step': None, 'a': collection_arg(rng, mt, n=1)}
    if k == 5:
        return {'op': 'delItem', 'path': [], 'i': i, 'idx': -1}
    if k == 6:
        return {'op': 'extend', 'path': [], 'i': i, 'a': elems(3)}
    if k == 7:
        return {'op': 'extend', 'path': [], 'i': i, 'a': elems(1)}
    return None


# ----------------------------------------------------------------------------- running on real objects

def navigate(msg, tree, path):
    t = tree
    k = 0
    while k < len(path):
        kind, i = path[k]
        if t['k'] == 'union':
            arm = t['arms'][i]
            msg = getattr(msg, arm['n'])
            t = arm['t']
            k += 1
        else:
            m = t['ms'][i]
            msg = getattr(msg, m['n'])
            t = m['t']
            k += 1
            if m['mk'] in ('fixed', 'dyn', 'limited', 'greedy'):
                msg = msg[path[k][1]]
                k += 1
    return msg, t


LIST_ORACLE = []       # (kind, op, elements before, the array object, module) of the scalar-array operation being run


def list_verdict():
    """the property's own oracle for scalar arrays, independent of the Lean model: "the observable state always equals that of a
    plain reference model of those operations" - what a Python list does with the same call.  An operation a list refuses
    (not a collection, bad index, missing element) must be refused; returns a description of the deviation or None"""
    if not LIST_ORACLE:
        return None
    kind, op, before, arr, mod = LIST_ORACLE.pop()
    del LIST_ORACLE[:]
    ref = list(before)
    try:
        if kind == 'append':
            ref.append(py_arg(op['a'], mod))
        elif kind == 'insert':
            ref.insert(op['idx'], py_arg(op['a'], mod))
        elif kind == 'extend':
            ref.extend(py_arg(op['a'], mod))
        elif kind == 'setItem':
            ref[op['idx']] = py_arg(op['a'], mod)
        elif kind == 'setSlice':
            ref[slice(op['lo'], op['hi'], op['step'])] = py_arg(op['a'], mod)
        elif kind == 'delItem':
            del ref[op['idx']]
        elif kind == 'delSlice':
            del ref[op['lo']:op['hi']]
        elif kind == 'remove':
            ref.remove(py_arg(op['a'], mod))
        refused = None
    except (TypeError, IndexError, ValueError) as ex:
        refused = type(ex).__name__
    after = list(arr)
    if refused is not None:
        return 'a plain list refuses this call (%s); the message accepted it (elements before %r, after %r)' % (refused, before[:8], after[:8])
    return None


def run_op(msg, tree, op, mod):
    """apply the operation through the public API; returns the canonical exception class or None"""
    try:
        target, t = navigate(msg, tree, op['path'])
        kind = op['op']
        if kind == 'setDisc':
            target.discriminator = py_arg(op['a'], mod)
            return None
        name = (t['arms'] if t['k'] == 'union' else t['ms'])[op['i']]['n']
        if kind == 'set':
            setattr(target, name, py_arg(op['a'], mod))
            return None
        arr = getattr(target, name)
        member = t['ms'][op['i']] if t['k'] == 'struct' else None
        if member is not None and member['t']['k'] == 'prim' and kind != 'add':
            LIST_ORACLE.append((kind, op, list(arr), arr, mod))
        if kind == 'append':
            arr.append(py_arg(op['a'], mod))
        elif kind == 'insert':
            arr.insert(op['idx'], py_arg(op['a'], mod))
        elif kind == 'extend':
            arr.extend(py_arg(op['a'], mod))
        elif kind == 'setItem':
            arr[op['idx']] = py_arg(op['a'], mod)
        elif kind == 'setSlice':
            arr[slice(op['lo'], op['hi'], op['step'])] = py_arg(op['a'], mod)
        elif kind == 'delItem':
            del arr[op['idx']]
        elif kind == 'delSlice':
            del arr[op['lo']:op['hi']]
        elif kind == 'remove':
            arr.remove(py_arg(op['a'], mod))
        elif kind == 'add':
            arr.add()
        else:
            raise ValueError(kind)
        return None
    except Exception as ex:  # noqa
        return py_impl.exc_class(ex)


def shared_sizer_mismatch(tree, state):
    """does any struct in the state hold arrays bound to one sizer with different lengths?"""
    if tree['k'] == 'union':
        return shared_sizer_mismatch(tree['arms'][state['u']]['t'], state['v']) if tree['arms'][state['u']]['t']['k'] in ('struct', 'union') else False
    if tree['k'] != 'struct':
        return False
    lens = {}
    for m, v in zip(tree['ms'], state['s']):
        if 'sizer' in m:
            n = len(v['b']) // 2 if isinstance(v, dict) and 'b' in v else len(v)
            lens.setdefault(m['sizer'], set()).add(n)
    if any(len(s) > 1 for s in lens.values()):
        return True
    for m, v in zip(tree['ms'], state['s']):
        mt = m['t']
        if mt['k'] in ('struct', 'union'):
            if m['mk'] == 'plain' and shared_sizer_mismatch(mt, v):
                return True
            if m['mk'] == 'optional' and v is not None and shared_sizer_mismatch(mt, v['p']):
                return True
            if m['mk'] in ('fixed', 'dyn', 'limited', 'greedy') and any(shared_sizer_mismatch(mt, e) for e in v):
                return True
    return False


def classify_c10(case, detail):
    """D33: TypeError pinned by the repository's own tests for a non-collection argument of
    extend()/slice assignment and for composite extend() with elements of another class;
    D77: one prophy.array / prophy.bytes type object used by fields of two structs whose sizers differ in width"""
    if case.get('directed') == 'D77':
        return 'D77'
    op = detail.get('op') or {}
    if detail.get('exc') == 'TypeError' and op.get('op') in ('extend', 'setSlice') and not detail.get('state_changed'):
        return 'D33'
    return None


def shift_declarations(chk, root):
    """descriptor sets with shifted counters (hand-written Python only): a class whose default message could not be
    encoded, or whose arrays could reach a length the sizer cannot count, must be refused when it is created"""
    import os
    from harness.gen import schema as S
    M = S.Member
    decls = [
        ('u8 sizer, shift 255', [M('n', 'u8'), M('x', 'u8', 'dynext', sizer='n', shift=255)]),
        ('u8 sizer, shift 300', [M('n', 'u8'), M('x', 'u8', 'dynext', sizer='n', shift=300)]),
        ('i8 sizer, shift 127', [M('n', 'i8'), M('x', 'u16', 'dynext', sizer='n', shift=127)]),
        ('i8 sizer, shift 126', [M('n', 'i8'), M('x', 'u16', 'dynext', sizer='n', shift=126)]),
        ('u8 sizer, bytes, shift 255', [M('n', 'u8'), M('x', 'byte', 'dynext', sizer='n', shift=255)]),
        ('shared sizer, different shifts', [M('n', 'u8'), M('x', 'u8', 'dynext', sizer='n', shift=1), M('y', 'u8', 'dynext', sizer='n', shift=2)]),
        ('shared sizer, same shift', [M('n', 'u8'), M('x', 'u8', 'dynext', sizer='n', shift=2), M('y', 'u16', 'dynext', sizer='n', shift=2)]),
        ('u16 sizer, shift 65535', [M('n', 'u16'), M('x', 'u8', 'dynext', sizer='n', shift=65535)]),
    ]
    reqs, rows = [], []
    for i, (note, members) in enumerate(decls):
        sc = S.Schema()
        sc.decls.append(S.Struct('D', members))
        casej = {'declaration': note, 'schema': S.to_prophy(sc) + '// shifts: ' + ', '.join('%s=%d' % (m.name, m.shift) for m in members if m.shift)}
        chk.count(('decl', note), True)
        chk.bump('shift-declaration')
        try:
            _, mod = py_impl.compile_prophy(S.to_prophy(sc), os.path.join(root, 'd%d' % i), 'd', patch=lambda src, sc=sc: S.apply_shifts(sc, src))
            created = True
        except Exception as ex:  # noqa
            created = False
            if py_impl.exc_class(ex) != 'ProphyError':
                chk.property_violation(casej, {'what': 'class creation failed outside ProphyError: %s' % py_impl.exc_class(ex)})
        if created:
            try:
                mod.D().encode('<')
            except Exception as ex:  # noqa
                chk.property_violation(casej, {'what': 'the default message of an accepted class does not encode: %s' % py_impl.exc_class(ex)})
        rows.append((casej, created))
        reqs.append({'op': 'accepts', 't': S.tree(sc, 'D')})
    for (casej, created), a in zip(rows, client.batch(reqs)):
        chk.corr_compared += 1
        if a['pyrt'] != created:
            chk.correspondence_mismatch('Accept.pyRt = the runtime creates the class', casej, created, a)


def shared_container_types(chk):
    """hand-written descriptors: one container type object shared by two structs (an alias), sizers of different widths;
    every reachable message must still be encodable and no array may be refused below its own sizer's range (known finding D77)"""
    import prophy
    from harness.checks.pycodec import handwritten
    for kind, elem in (('bytes', 'prophy.bytes(bound="len")'), ('array', 'prophy.array(prophy.u8, bound="len")')):
        import prophy as P
        shared = eval(elem, {'prophy': P})   # noqa: S307
        base = prophy.with_metaclass(prophy.struct_generator, prophy.struct)
        Small = type(base)('Small', (base,), {'_descriptor': [('len', prophy.u8), ('data', shared)]})
        Big = type(base)('Big', (base,), {'_descriptor': [('len', prophy.u32), ('data', shared)]})
        for cls, n, fits in ((Small, 300, False), (Big, 300, True), (Small, 255, True)):
            casej = {'schema': 'hand-written: D = %s; Small{u8 len; D data}; Big{u32 len; D data}' % elem, 'type': cls.__name__,
                     'operation': 'assign / extend %d elements' % n, 'directed': 'D77'}
            chk.count(('shared', kind, cls.__name__, n), True)
            chk.bump('directed:shared container type')
            x = cls()
            try:
                if kind == 'bytes':
                    x.data = b'x' * n
                else:
                    x.data.extend([1] * n)
                accepted = True
            except prophy.ProphyError:
                accepted = False
            if accepted != fits:
                chk.property_violation(casej, {'what': '%d elements were %s although the sizer of %s counts up to %d' % (
                    n, 'accepted' if accepted else 'refused', cls.__name__, 255 if cls is Small else 2 ** 32 - 1)}, classify_c10)
            if accepted:
                try:
                    x.encode('<')
                except Exception as ex:  # noqa
                    chk.property_violation(casej, {'what': 'a reachable message does not encode: %s' % py_impl.exc_class(ex)}, classify_c10)
    # a bool is an int for the API: the stored value must read and print as the integer (fixed: D97)
    base = prophy.with_metaclass(prophy.struct_generator, prophy.struct)
    B = type(base)('B', (base,), {'_descriptor': [('a', prophy.u8), ('n', prophy.u8), ('v', prophy.array(prophy.u16, bound='n'))]})
    import re
    x = B()
    x.a = True
    x.v[:] = [True, 2, re.IGNORECASE]
    chk.count(('bool',), True)
    # floats: out-of-range and huge numbers are refused with ProphyError, a bool is stored as the float (D10a, D144, D145)
    F = type(base)('F', (base,), {'_descriptor': [('f', prophy.r32), ('d', prophy.r64), ('i', prophy.u8)]})
    y = F()
    for field, value in (('f', 1e300), ('f', 10 ** 4400), ('d', 10 ** 4400), ('i', 10 ** 4400), ('i', -10 ** 4400), ('i', 256)):
        shown = repr(value) if isinstance(value, float) or abs(value) < 10 ** 30 else 'a number of %d bits' % value.bit_length()
        chk.count(('range', field, shown), True)
        try:
            setattr(y, field, value)
            chk.property_violation({'schema': 'hand-written F{r32 f; r64 d; u8 i}', 'operation': '%s = %s' % (field, shown)},
                                   {'what': 'an out-of-range number was accepted'})
        except prophy.ProphyError:
            pass
        except Exception as ex:  # noqa
            chk.property_violation({'schema': 'hand-written F{r32 f; r64 d; u8 i}', 'operation': '%s = %s' % (field, shown)},
                                   {'what': 'a rejected assignment raised %s instead of ProphyError' % py_impl.exc_class(ex)})
    y.f = True
    if str(y) != 'f: 1.0\nd: 0.0\ni: 0\n':
        chk.property_violation({'schema': 'hand-written F{r32 f; r64 d; u8 i}', 'operation': 'f = True'}, {'what': 'a bool assigned to a float field is not stored as the float', 'str': str(y)})
    # re-selecting the discriminated arm of a deeply nested union is cheap (D146)
    import time
    ub = prophy.with_metaclass(prophy.union_generator, prophy.union)
    U = type(ub)('U0', (ub,), {'_descriptor': [('a', prophy.u8, 0), ('b', prophy.u16, 1)]})
    for k in range(1, 25):
        U = type(ub)('U%d' % k, (ub,), {'_descriptor': [('a', U, 0), ('b', U, 1)]})
    u = U()
    t0 = time.process_time()
    u.discriminator = 0
    dt = time.process_time() - t0
    chk.count(('union-reselect',), True)
    if dt > 2.0:
        chk.property_violation({'schema': 'hand-written unions nested 24 deep', 'operation': 'discriminator = 0 (already selected)'},
                               {'what': 're-selecting the discriminated arm took %.1f s' % dt})
    if str(x) != 'a: 1\nv: 1\nv: 2\nv: 2\n' or type(x.a) is bool or type(x.v[2]) is not int:
        chk.property_violation({'schema': 'hand-written B{u8 a; u8 n; u16 v<@n>}', 'operation': 'a = True; v[:] = [True, 2, re.IGNORECASE]'},
                               {'what': 'a bool / int subclass assigned to an integer field is not stored as the plain integer', 'str': str(x)})


def audit5_cases(chk):
    """operations outside the generated histories (audit round 5): number subclasses in float fields (D162), a sort whose key
    function fails (D163), the arm a decode leaves behind (D164), descriptors and discriminator assignments with numbers that
    are not integers (D165)"""
    import decimal
    import fractions
    import re
    import prophy
    sb = prophy.with_metaclass(prophy.struct_generator, prophy.struct)
    ub = prophy.with_metaclass(prophy.union_generator, prophy.union)

    def violation(schema, operation, what, **more):
        chk.property_violation({'schema': schema, 'operation': operation}, dict({'what': what}, **more))

    def case(key):
        chk.count(('audit5',) + key, True)
        chk.bump('directed:audit round 5')

    # D162: what is stored is what a decoded message shows
    schema = 'hand-written F{r32 f; r64 d; u8 n; r32 a<@n>; r64* o}'
    F = type(sb)('F5', (sb,), {'_descriptor': [('f', prophy.r32), ('d', prophy.r64), ('n', prophy.u8), ('a', prophy.array(prophy.r32, bound='n')),
                                              ('o', prophy.optional(prophy.r64))]})

    class MyFloat(float):
        pass
    for name, value in (('re.IGNORECASE', re.IGNORECASE), ('True', True), ('a float subclass', MyFloat(2.5)), ('7', 7)):
        case(('float-subclass', name))
        x = F()
        x.f = value
        x.d = value
        x.a.append(value)
        x.o = value
        y = F()
        y.decode(x.encode('<'), '<')
        pairs = [(x.f, y.f), (x.d, y.d), (x.a[0], y.a[0]), (x.o, y.o)]
        # an int stays the int it is (known finding D58: the assigned number is read back), a subclass does not survive
        if any(type(a) not in (int, float) or float(a) != b for a, b in pairs):
            violation(schema, 'f = d = o = %s; a.append(%s)' % (name, name), 'the message prints differently from the message decoded from its encoding',
                      sent=str(x), decoded=str(y))
    # D163: a rejected sort leaves the array as it was
    schema = 'hand-written A{u8 n; u16 a<@n>; u16 b[4]}'
    A = type(sb)('A5', (sb,), {'_descriptor': [('n', prophy.u8), ('a', prophy.array(prophy.u16, bound='n')), ('b', prophy.array(prophy.u16, size=4))]})
    # keys 3, 1, 2, then None: list.sort has already reordered the first three elements when the comparison with None fails
    for field, values in (('a', [30, 10, 20, 99, 5, 7]), ('b', [30, 10, 20, 99]), ('a', list(range(10)) + [200, 100])):
        case(('sort', field, len(values)))
        x = A()
        getattr(x, field)[:] = values
        before, enc = list(getattr(x, field)), x.encode('<')
        rank = {30: 3, 10: 1, 20: 2, 5: 5, 7: 7} if values[0] == 30 else dict((v, i) for i, v in enumerate(reversed(values[:-1])))
        try:
            getattr(x, field).sort(rank.get)          # None for the last element: the comparison fails
            violation(schema, '%s.sort(key)' % field, 'a key function returning None for one element was accepted')
        except TypeError:
            if list(getattr(x, field)) != before or x.encode('<') != enc:
                violation(schema, '%s[:] = %s; %s.sort(key returning None for %d)' % (field, values, field, values[-1]),
                          'a rejected sort changed the message', before=before, after=list(getattr(x, field)))
        getattr(x, field).sort()
        if list(getattr(x, field)) != sorted(values):
            violation(schema, '%s.sort()' % field, 'sort() did not sort', after=list(getattr(x, field)))
    # D164: only the arm the last decode selected is exposed, whatever the union held before
    schema = 'hand-written U{0: u32 a; 1: u16 b}; X{u32 i; U u}'
    U = type(ub)('U5', (ub,), {'_descriptor': [('a', prophy.u32, 0), ('b', prophy.u16, 1)]})
    X = type(sb)('X5', (sb,), {'_descriptor': [('i', prophy.u32), ('u', U)]})
    case(('stale-arm',))
    x = X()
    x.u.discriminator = 'b'
    x.u.b = 9
    x.decode(bytes.fromhex('01000000' '00000000' '07000000'), '<')        # arm a = 7
    try:
        x.decode(bytes.fromhex('02000000' '01000000' '00'), '<')          # arm b, truncated
        violation(schema, 'decode of a truncated message', 'accepted')
    except prophy.ProphyError:
        if x.u.discriminator == 1 and x.u.b == 9:
            violation(schema, 'u.b = 9; decode(arm a = 7); decode(arm b, truncated) refused',
                      'the value a dead arm held before is readable again', state=str(x))
    x.decode(bytes.fromhex('01000000' '01000000' '05000000'), '<')
    if str(x) != 'i: 1\nu {\n  b: 5\n}\n':
        violation(schema, 'decode(arm b = 5)', 'the decoded arm is not what is exposed', state=str(x))
    # D165: numbers that are not integers
    for what, build in (
        ('union discriminator 1.5', lambda: type(ub)('Ud', (ub,), {'_descriptor': [('a', prophy.u32, 0), ('b', prophy.u16, 1.5)]})),
        ('union discriminator 1.0', lambda: type(ub)('Ud', (ub,), {'_descriptor': [('a', prophy.u32, 0), ('b', prophy.u16, 1.0)]})),
        ('array shift=1.0', lambda: type(sb)('Sd', (sb,), {'_descriptor': [('n', prophy.u8), ('a', prophy.array(prophy.u8, bound='n', shift=1.0))]})),
        ('array shift=0.5', lambda: type(sb)('Sd', (sb,), {'_descriptor': [('n', prophy.u8), ('a', prophy.array(prophy.u8, bound='n', shift=0.5))]})),
        ('bytes shift=2.5', lambda: type(sb)('Sd', (sb,), {'_descriptor': [('n', prophy.u8), ('a', prophy.bytes(bound='n', shift=2.5))]})),
        ('array size=2.0', lambda: type(sb)('Sd', (sb,), {'_descriptor': [('a', prophy.array(prophy.u8, size=2.0))]})),
        ('bytes size=2.5', lambda: type(sb)('Sd', (sb,), {'_descriptor': [('a', prophy.bytes(size=2.5))]})),
    ):
        case(('non-integer', what))
        try:
            cls = build()
        except prophy.ProphyError:
            continue
        except Exception as ex:  # noqa
            violation('hand-written descriptor with ' + what, 'class creation', 'refused with %s instead of ProphyError' % py_impl.exc_class(ex))
            continue
        try:
            cls().encode('<')
        except Exception as ex:  # noqa
            violation('hand-written descriptor with ' + what, 'encode of the default message',
                      'the class was accepted and its default message does not encode: %s' % py_impl.exc_class(ex))
    Ux = type(ub)('Ux', (ub,), {'_descriptor': [('a', prophy.u32, 0), ('b', prophy.u16, 1)]})
    for name, value in (('1.0', 1.0), ('Fraction(1)', fractions.Fraction(1)), ('Decimal(1)', decimal.Decimal(1)), ('1+0j', 1 + 0j)):
        case(('discriminator', name))
        u = Ux()
        u.a = 42
        try:
            u.discriminator = value
            violation('hand-written U{0: u32 a; 1: u16 b}', 'a = 42; discriminator = ' + name,
                      'a number that is not an integer switched the arm (integer and enum fields refuse it)', state=str(u))
        except prophy.ProphyError:
            if str(u) != 'a: 42\n':
                violation('hand-written U{0: u32 a; 1: u16 b}', 'discriminator = ' + name, 'a rejected assignment changed the union', state=str(u))
        except Exception as ex:  # noqa
            violation('hand-written U{0: u32 a; 1: u16 b}', 'discriminator = ' + name, 'rejected with %s instead of ProphyError' % py_impl.exc_class(ex))
    # D184: a rejected discriminator whose repr cannot be written
    u = Ux()
    for how, call in (('discriminator = Fraction(10**5000, 3)', lambda: setattr(u, 'discriminator', fractions.Fraction(10 ** 5000, 3))),):
        case(('discriminator-repr', how))
        try:
            call()
            violation('hand-written U{0: u32 a; 1: u16 b}', how, 'accepted')
        except prophy.ProphyError:
            pass
        except Exception as ex:  # noqa
            violation('hand-written U{0: u32 a; 1: u16 b}', how, 'rejected with %s instead of ProphyError' % py_impl.exc_class(ex))
    # D183: add(**fields) takes field names only
    I = type(sb)('I5', (sb,), {'_descriptor': [('x', prophy.u8)]})
    O = type(sb)('O5', (sb,), {'_descriptor': [('x', prophy.u32), ('y', prophy.u32)]})
    H = type(sb)('H5', (sb,), {'_descriptor': [('n', prophy.u8), ('items', prophy.array(I, bound='n')), ('us', prophy.array(Ux, bound='n'))]})
    for how, arr, kw in (("items.add(_fields={'x': 999})", 'items', {'_fields': {'x': 999}}), ('items.add(_fields=3)', 'items', {'_fields': 3}),
                         ('items.add(__class__=Other)', 'items', {'__class__': O}), ('us.add(_discriminated=None)', 'us', {'_discriminated': None}),
                         ('items.add(discriminator=1)', 'items', {'discriminator': 1}), ('items.add(nope=1)', 'items', {'nope': 1})):
        case(('add-keyword', how))
        h = H()
        try:
            getattr(h, arr).add(**kw)
            try:
                h.encode('<')
                ok = all(type(e) in (I, Ux) for e in list(h.items) + list(h.us))
            except Exception:  # noqa
                ok = False
            if not ok:
                violation('hand-written I{u8 x}; H{u8 n; I items<@n>; U us<@n>}', how, 'accepted: the message does not encode any more or holds an element of another class')
        except (prophy.ProphyError, AttributeError):
            if len(h.items) or len(h.us):
                violation('hand-written I{u8 x}; H{u8 n; I items<@n>; U us<@n>}', how, 'a rejected add() left an element in the array')
    # D192: a struct with a field named discriminator; the limit is checked after the values were computed; counters and arrays
    # of messages given as keywords are refused with ProphyError
    Sd = type(sb)('Sd5', (sb,), {'_descriptor': [('discriminator', prophy.u8), ('b', prophy.u8)]})
    Xd = type(sb)('Xd5', (sb,), {'_descriptor': [('n', prophy.u8), ('ss', prophy.array(Sd, bound='n'))]})
    case(('add-keyword', 'field named discriminator'))
    xd = Xd()
    try:
        xd.ss.add(discriminator=3, b=4)
        if str(xd) != 'ss {\n  discriminator: 3\n  b: 4\n}\n':
            violation('hand-written S{u8 discriminator; u8 b}; X{u8 n; S ss<@n>}', 'ss.add(discriminator=3, b=4)', 'the fields are not set', state=str(xd))
    except Exception as ex:  # noqa
        violation('hand-written S{u8 discriminator; u8 b}; X{u8 n; S ss<@n>}', 'ss.add(discriminator=3, b=4)', 'refused: %s' % py_impl.exc_class(ex))
    E2 = type(sb)('E25', (sb,), {'_descriptor': [('xs', prophy.array(prophy.u8, size=2))]})
    L2 = type(sb)('L25', (sb,), {'_descriptor': [('n', prophy.u8), ('items', prophy.array(E2, bound='n', size=2))]})
    case(('add-keyword', 'values computed by code that adds to the array'))
    l2 = L2()
    l2.items.add()

    def sneaky():
        l2.items.add()
        yield 1
        yield 2
    try:
        l2.items.add(xs=sneaky())
    except prophy.ProphyError:
        pass
    try:
        ok = len(l2.items) <= 2 and L2().decode(l2.encode('<'), '<') == len(l2.encode('<'))
    except Exception:  # noqa
        ok = False
    if not ok:
        violation('hand-written E{u8 xs[2]}; L{u8 n; E items<2>@n}', 'items.add(); items.add(xs=<generator that calls items.add()>)',
                  'the array holds %d elements, its limit is 2 (or its own encoding is refused)' % len(l2.items))
    K = type(sb)('K5', (sb,), {'_descriptor': [('n', prophy.u8), ('bs', prophy.array(prophy.u8, bound='n')), ('fix', prophy.array(I, size=2)),
                                              ('dyn', prophy.array(I, bound='n'))]})
    Hk = type(sb)('Hk5', (sb,), {'_descriptor': [('m', prophy.u8), ('ks', prophy.array(K, bound='m'))]})
    for how, kw in (('ks.add(n=1)', {'n': 1}), ('ks.add(fix=[I(), I()])', {'fix': [I(), I()]}), ('ks.add(dyn=[])', {'dyn': []})):
        case(('add-keyword', how))
        hk = Hk()
        try:
            hk.ks.add(**kw)
        except prophy.ProphyError:
            if len(hk.ks):
                violation('hand-written K{u8 n; u8 bs<@n>; I fix[2]; I dyn<@n>}', how, 'a rejected add() left an element')
        except Exception as ex:  # noqa
            violation('hand-written K{u8 n; u8 bs<@n>; I fix[2]; I dyn<@n>}', how, 'rejected with %s instead of ProphyError' % py_impl.exc_class(ex))
    # a value whose conversion itself adds to the array (an int subclass with its own __int__): the limit holds afterwards,
    # whichever operation stored it (seeded round 7: insert validated the value after it had looked at the limit)
    R = type(sb)('R5', (sb,), {'_descriptor': [('n', prophy.u8), ('a', prophy.array(prophy.u8, bound='n', size=3))]})
    for how in ('insert', 'append', 'extend', 'slice', 'add-front'):
        case(('re-entrant value', how))
        r5 = R()
        r5.a[:] = [1, 2]

        class Sneaky(int):
            fired = False

            def __int__(self):
                if not Sneaky.fired:
                    Sneaky.fired = True
                    r5.a.append(9)
                return 7

            __index__ = __int__
        try:
            if how == 'insert':
                r5.a.insert(1, Sneaky(7))
            elif how == 'append':
                r5.a.append(Sneaky(7))
            elif how == 'extend':
                r5.a.extend([Sneaky(7)])
            elif how == 'slice':
                r5.a[2:] = [Sneaky(7)]
            else:
                r5.a.insert(-100, Sneaky(7))
        except prophy.ProphyError:
            pass
        except Exception as ex:  # noqa
            violation('hand-written R{u8 n; u8 a<3>@n}', 'a[:] = [1, 2]; a.%s(<int subclass whose __int__ appends to a>)' % how,
                      'raised %s instead of ProphyError' % py_impl.exc_class(ex))
            continue
        try:
            ok = len(r5.a) <= 3 and R().decode(r5.encode('<'), '<') == len(r5.encode('<'))
        except Exception:  # noqa
            ok = False
        if not ok:
            violation('hand-written R{u8 n; u8 a<3>@n}', 'a[:] = [1, 2]; a.%s(<int subclass whose __int__ appends to a>)' % how,
                      'the array holds %d elements, its limit is 3 (or its own encoding is refused)' % len(r5.a))
    # audit round 8 (D199, D200): objects that answer differently each time they are asked - subclasses of int / float / bytes with
    # their own __int__, __float__, __len__, comparisons and hash, index objects with a moving __index__, objects that claim a
    # class through __class__ - never take a message out of its valid states: whatever is accepted encodes, and its encoding decodes
    from unittest import mock
    EH = type(prophy.with_metaclass(prophy.enum_generator, prophy.enum))('EH5', (prophy.with_metaclass(prophy.enum_generator, prophy.enum),),
                                                                          {'_enumerators': [('EH_One', 1), ('EH_Two', 2)]})
    UH = type(ub)('UH5', (ub,), {'_descriptor': [('a', prophy.u8, 0), ('bb', prophy.bytes(size=2), 1)]})
    Hh = type(sb)('Hh5', (sb,), {'_descriptor': [('a', prophy.u8), ('f', prophy.r32), ('d', prophy.r64), ('e', EH), ('o', prophy.optional(prophy.u8)),
                                                 ('fx', prophy.array(prophy.u8, size=4)), ('n', prophy.u8), ('lim', prophy.array(prophy.u8, bound='n', size=3)),
                                                 ('es_n', prophy.u8), ('es', prophy.array(EH, bound='es_n')), ('b4', prophy.bytes(size=4)),
                                                 ('m', prophy.u8), ('bl', prophy.bytes(size=3, bound='m')), ('k', prophy.u8), ('bd', prophy.bytes(bound='k')),
                                                 ('u', UH)]})

    class OtherInt(int):
        def __int__(self):
            return 300
        __index__ = __int__

    class AlwaysInRange(int):
        def __le__(self, other):
            return True
        __ge__ = __lt__ = __gt__ = __le__

    class OtherFloat(float):
        def __float__(self):
            return 1e300

    class SmallAsFloat(int):
        def __float__(self):
            return 0.0

    class LooksLikeOne(int):
        def __hash__(self):
            return hash(1)

        def __eq__(self, other):
            return other == 1

    class Short(bytes):
        def __len__(self):
            return 0

    class Cursor(object):
        def __init__(self, *answers):
            self.answers = list(answers)

        def __index__(self):
            return self.answers.pop(0) if len(self.answers) > 1 else self.answers[0]

    def appending_index(x):
        class Idx(object):
            def __index__(self):
                x.lim.append(9)
                return 0
        return Idx()

    def nested(depth):
        v = []
        for _ in range(depth):
            v = [v]
        return v
    hostile = [
        ('a = <int subclass whose __int__ answers 300>(5)', lambda x: setattr(x, 'a', OtherInt(5))),
        ('a = <int subclass whose comparisons answer True>(300)', lambda x: setattr(x, 'a', AlwaysInRange(300))),
        ('o = <int subclass whose __int__ answers 300>(5)', lambda x: setattr(x, 'o', OtherInt(5))),
        ('fx[1] = <int subclass whose comparisons answer True>(300)', lambda x: x.fx.__setitem__(1, AlwaysInRange(300))),
        ('lim.append / insert / extend / slice of such numbers', lambda x: (x.lim.append(OtherInt(5)), x.lim.insert(0, OtherInt(6)), x.lim.__setitem__(slice(0, 1), [OtherInt(7)]))),
        ('lim.extend([<comparisons answer True>(300)])', lambda x: x.lim.extend([AlwaysInRange(300)])),
        ('u.a = <int subclass whose __int__ answers 300>(5)', lambda x: setattr(x.u, 'a', OtherInt(5))),
        ('f = <float subclass whose __float__ answers 1e300>(1.0)', lambda x: setattr(x, 'f', OtherFloat(1.0))),
        ('d = <int subclass whose __float__ answers 0.0>(10**400)', lambda x: setattr(x, 'd', SmallAsFloat(10 ** 400))),
        ('e = <int subclass whose __int__ answers 300>(1)', lambda x: setattr(x, 'e', OtherInt(1))),
        ('e = <int subclass that hashes and compares like 1>(77)', lambda x: setattr(x, 'e', LooksLikeOne(77))),
        ('es.append(<int subclass whose __int__ answers 300>(2))', lambda x: x.es.append(OtherInt(2))),
        ('f = 1 << 130 (an int no r32 can hold, a double can)', lambda x: setattr(x, 'f', 1 << 130)),
        ('f = 2**128 - 2**103 (rounds beyond the largest r32)', lambda x: setattr(x, 'f', 2 ** 128 - 2 ** 103)),
        ('f = -(1 << 200)', lambda x: setattr(x, 'f', -(1 << 200))),
        ('f = 2**127 (an int an r32 holds)', lambda x: setattr(x, 'f', 2 ** 127)),
        ('d = 1 << 1023; d = (1 << 1024) - 1', lambda x: (setattr(x, 'd', 1 << 1023), setattr(x, 'd', (1 << 1024) - 1))),
        ('f = 1e39; f = True; f = <IntEnum>', lambda x: (setattr(x, 'f', True), setattr(x, 'f', 1e39))),
        ('b4 = <bytes subclass whose __len__ answers 0>(8 bytes)', lambda x: setattr(x, 'b4', Short(b'abcdefgh'))),
        ('bl = <bytes subclass whose __len__ answers 0>(8 bytes)', lambda x: setattr(x, 'bl', Short(b'abcdefgh'))),
        ('bd = <bytes subclass whose __len__ answers 0>(300 bytes)', lambda x: setattr(x, 'bd', Short(b'x' * 300))),
        ('u.discriminator = 1; u.bb = <bytes subclass whose __len__ answers 0>(8 bytes)', lambda x: (setattr(x.u, 'discriminator', 1), setattr(x.u, 'bb', Short(b'abcdefgh')))),
        ('fx[<index answering 2, then 0>:] = [1, 2]', lambda x: x.fx.__setitem__(slice(Cursor(2, 0), None), [1, 2])),
        ('lim[<index answering 0, then 3>:] = [7, 8, 9]', lambda x: (x.lim.extend([1, 2, 3]), x.lim.__setitem__(slice(Cursor(0, 3), None), [7, 8, 9]))),
        ('lim.insert(<index whose __index__ appends to lim>, 5)', lambda x: (x.lim.extend([1, 2]), x.lim.insert(appending_index(x), 5))),
        ('u.discriminator = <list nested 3000 deep>', lambda x: setattr(x.u, 'discriminator', nested(3000))),
        ('a = Mock(spec=int)', lambda x: setattr(x, 'a', mock.Mock(spec=int))),
        ('lim.append(MagicMock(spec=int))', lambda x: x.lim.append(mock.MagicMock(spec=int))),
        ('u.discriminator = Mock(spec=int)', lambda x: setattr(x.u, 'discriminator', mock.Mock(spec=int))),
        ('b4 = MagicMock(spec=bytes)', lambda x: setattr(x, 'b4', mock.MagicMock(spec=bytes))),
        ('f = MagicMock(spec=float)', lambda x: setattr(x, 'f', mock.MagicMock(spec=float))),
    ]
    hschema = ('hand-written EH{EH_One=1, EH_Two=2}; UH{0: u8 a; 1: bytes bb[2]}; H{u8 a; r32 f; r64 d; EH e; u8* o; u8 fx[4]; u8 n; u8 lim<3>@n; '
               'u8 es_n; EH es<@es_n>; bytes b4[4]; u8 m; bytes bl<3>@m; u8 k; bytes bd<@k>; UH u}')
    for how, act in hostile:
        case(('hostile object', how))
        x = Hh()
        try:
            act(x)
        except prophy.ProphyError:
            pass
        except Exception as ex:  # noqa
            violation(hschema, how, 'raised %s instead of ProphyError' % py_impl.exc_class(ex))
            continue
        try:
            enc = x.encode('<')
            str(x)
            back = Hh()
            # (the texts are not compared: a float field reads back the number that was assigned, not the one it encodes - D58)
            ok = back.decode(enc, '<') == len(enc) and back.encode('<') == enc
            why = 'its own encoding decodes to another message'
        except Exception as ex:  # noqa
            ok, why = False, 'the message no longer encodes / prints / decodes its own encoding: %s' % py_impl.exc_class(ex)
        if not ok:
            violation(hschema, how, why)
    # D192: an index beyond the machine word is an index beyond the ends
    case(('insert', 'huge index'))
    a5 = A()
    a5.a[:] = [1, 2]
    for idx, want in ((2 ** 64, [1, 2, 5]), (-2 ** 64, [5, 1, 2, 5]), (2 ** 62, [5, 1, 2, 5, 5])):
        try:
            a5.a.insert(idx, 5)
        except Exception as ex:  # noqa
            violation('hand-written A{u8 n; u16 a<@n>; u16 b[4]}', 'a.insert(%d, 5)' % idx, 'raised %s (any other index beyond the ends is clamped)' % py_impl.exc_class(ex))
            break
        if list(a5.a) != want:
            violation('hand-written A{u8 n; u16 a<@n>; u16 b[4]}', 'a.insert(%d, 5)' % idx, 'the array is %r, a list gives %r' % (list(a5.a), want))
            break
    h = H()
    h.us.add(discriminator=1, b=7)
    h.items.add(x=5)
    if str(h) != 'items {\n  x: 5\n}\nus {\n  b: 7\n}\n':
        violation('hand-written H', 'us.add(discriminator=1, b=7); items.add(x=5)', 'add() with field names does not set them', state=str(h))
    u = Ux()
    u.discriminator = True                                   # a bool is the integer 1
    if u.discriminator != 1:
        violation('hand-written U{0: u32 a; 1: u16 b}', 'discriminator = True', 'not the arm 1', state=str(u))


def run_c10(tier):
    chk = core.Check('C10', tier)
    chk.rule = ('schemas without floating-point fields; per message type several histories of public API operations generated against the '
                'current state of the real object (scalar / enum / bytes assignment, optional set and clear, union discriminator switch '
                'by value and by name, append / insert / extend / item and slice assignment / deletion / remove / add at any nesting '
                'depth; valid, out-of-range and wrongly typed arguments, iterators); a case = one operation in its history; after every '
                'operation: exception class, all attribute reads, str(), encode(); non-trivial = operation that changed the state or was rejected.')
    chk.lean = core.lean_obligations('C10', thorough=(tier == 'thorough'))
    corpus = Corpus(chk, chk.scale(40, 400), dict(n_decls=8, floats=False, shifts=True))
    try:
        shift_declarations(chk, corpus.workdir)
        shared_container_types(chk)
        audit5_cases(chk)
        reqs = corpus.deft_requests()
        nd = len(reqs)
        rows = []
        followups = []
        n_hist, n_ops = chk.scale(3, 6), chk.scale(12, 40)
        for c in corpus.types:
            if '"r32"' in json.dumps(c.tree) or '"r64"' in json.dumps(c.tree):
                continue        # floating-point fields are outside this model (their range check is exercised by C01/C02 values)
            mod = corpus.mods[c.sidx]
            edges = edge_arrays(c.tree)
            for h in range(n_hist + len(edges)):
                msg = c.cls()
                state = V.readback(msg, c.tree)
                ops, obs = [], []
                for k in range(n_ops):
                    # one more history per sizer-limited array: to the edge of the counter's range and over it
                    op = edge_op(chk.rng, c.tree, state, edges[h - n_hist], k) if h >= n_hist else None
                    if op is None:
                        op = gen_op(chk.rng, c.tree, state)
                    if op is None:
                        continue
                    exc = run_op(msg, c.tree, op, mod)
                    deviation = list_verdict()
                    if deviation and exc is None:
                        chk.property_violation({'schema': c.text, 'type': c.name, 'history': [strip(dict(x, a=strip(x.get('a')))) for x in ops + [op]]},
                                               {'what': deviation})
                    try:
                        new_state = V.readback(msg, c.tree)
                        text_ok = isinstance(str(msg), str)
                    except Exception as ex:  # noqa
                        new_state, text_ok = {'unreadable': py_impl.exc_class(ex)}, False
                    try:
                        msg.encode('<')
                        enc = None
                    except Exception as ex:  # noqa
                        enc = py_impl.exc_class(ex)
                    ops.append(op)
                    obs.append({'exc': exc, 'state': new_state, 'before': state, 'encode_exc': enc, 'str_ok': text_ok})
                    if 'unreadable' in new_state:
                        break
                    state = new_state
                rows.append((c, ops, obs))
                reqs.append({'op': 'api_run', 't': c.tid, 'ops': [strip(dict(o, a=strip(o.get('a')))) for o in ops]})
        ans = client.batch(reqs, timeout=1800)[nd:]
        for (c, ops, obs), a in zip(rows, ans):
            for k, (op, o, m) in enumerate(zip(ops, obs, a['steps'])):
                casej = {'schema': c.text, 'type': c.name, 'history': [strip(dict(x, a=strip(x.get('a')))) for x in ops[:k + 1]]}
                changed = o['state'] != o['before']
                chk.count((c.tree, json.dumps(casej['history'], sort_keys=True, default=str)), changed or o['exc'] is not None)
                chk.bump('op:' + op['op'])
                chk.bump('outcome:' + (o['exc'] or 'ok'))
                if k == len(ops) - 1:
                    chk.sample({'type': c.name, 'history': casej['history'], 'final_state': o['state']}, limit=3)
                sop = strip(dict(op, a=strip(op.get('a'))))
                if 'unreadable' in o['state'] or not o['str_ok']:
                    chk.property_violation(casej, {'what': 'message state can no longer be read / printed', 'state': o['state']})
                    break
                if o['exc'] is not None:
                    if o['exc'] not in ALLOWED:
                        chk.property_violation(casej, {'what': 'rejected operation raised %s' % o['exc'], 'exc': o['exc'], 'op': sop,
                                                       'state_changed': changed}, classify_c10)
                    if changed:
                        chk.property_violation(casej, {'what': 'rejected operation (%s) changed the message' % o['exc'], 'before': o['before'], 'after': o['state'], 'op': sop})
                if not m['typed'] and o['state'] == m['state']:
                    chk.property_violation(casej, {'what': 'reachable state is not well typed (range / limit / arm)', 'state': o['state']})
                mismatch = shared_sizer_mismatch(c.tree, o['state'])
                if o['encode_exc'] is not None and not (o['encode_exc'] == 'ProphyError' and mismatch):
                    chk.property_violation(casej, {'what': 'reachable message does not encode: %s' % o['encode_exc'], 'state': o['state']})
                # correspondence with the reference model
                chk.corr_compared += 1
                if (o['exc'], o['state']) != (m['exc'], m['state']):
                    chk.correspondence_mismatch('Api.step = public API operation', casej, {'exc': o['exc'], 'state': o['state']}, {'exc': m['exc'], 'state': m['state']})
                    if 'unreadable' not in o['state']:
                        followups.append((c, casej, o['state']))
                    break
        # a state the implementation reached and the reference model did not: is it a valid message state at all?
        if followups:
            fans = client.batch(corpus.deft_requests() + [{'op': 'has_type', 't': c.tid, 'v': st} for c, _, st in followups])[len(corpus.types):]
            for (c, casej, st), a in zip(followups, fans):
                if not a.get('typed'):
                    chk.property_violation(casej, {'what': 'the operation led to a state that is not well typed (range / limit / arm) and that the reference model does not reach', 'state': st})
    finally:
        corpus.close()
    return chk.finish()

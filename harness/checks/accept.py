"""
C12: whatever prophyc accepts, every back-end can realise; rule breakers are rejected.

(a) valid generated schemas: prophyc must succeed with all three back-ends, the Python module must
    import, the C++ full and raw sources must compile (g++ -fsyntax-only against the shipped headers);
(b) one rule-breaking edit per documented composability rule applied to valid schemas: prophyc must
    reject each with a diagnostic (and if it accepts, the back-ends are tried to show the consequence);
(c) the accept / reject decision of the real front-end vs the Lean model `Accept.front`, and - for
    accepted schemas - the import of the generated module vs `Accept.pyRt`.
"""
import copy
import os
import re
import shutil
import subprocess
import tempfile

from harness import core
from harness.gen import schema as S
from harness.impl import py_impl
from harness.model import client

REPO = py_impl.REPO


def compile_all(text, d, base='a'):
    """(outcome, message): 'ok' | 'ProphycError' | other exception class"""
    import prophyc
    os.makedirs(d, exist_ok=True)
    src = os.path.join(d, base + '.prophy')
    with open(src, 'w') as f:
        f.write(text)
    try:
        py_impl.run_prophyc(['--python_out', d, '--cpp_full_out', d, '--cpp_out', d, src])
        return 'ok', ''
    except prophyc.ProphycError as e:
        return 'ProphycError', str(e)
    except Exception as e:  # noqa
        return type(e).__name__, str(e)[:300]


def backends(d, base='a'):
    """{'python': None | error, 'cpp_full': None | error, 'cpp_raw': None | error}"""
    out = {}
    try:
        py_impl.import_file(os.path.join(d, base + '.py'))
        out['python'] = None
    except Exception as e:  # noqa
        out['python'] = '%s: %s' % (type(e).__name__, str(e)[:200])
    for key, src in (('cpp_full', base + '.ppf.cpp'), ('cpp_raw', base + '.pp.cpp')):
        p = subprocess.run(['g++', '-std=c++11', '-fsyntax-only', '-I' + os.path.join(REPO, 'prophy_cpp', 'include'), '-I' + d, os.path.join(d, src)],
                           stdout=subprocess.PIPE, stderr=subprocess.STDOUT, timeout=300)
        out[key] = None if p.returncode == 0 else p.stdout.decode(errors='replace')[:400]
    return out


# ----------------------------------------------------------------------------- rule-breaking edits

def compile_isar_all(sc, d, base='a'):
    """the same schema through the isar front-end (+ the patch rules for what the XML cannot say): (outcome, message)"""
    import prophyc
    from harness.gen import isar
    os.makedirs(d, exist_ok=True)
    src = os.path.join(d, base + '.xml')
    with open(src, 'w') as f:
        f.write(isar.to_isar(sc))
    args = ['--isar']
    lines = isar.patch_lines(sc)
    if lines:
        with open(os.path.join(d, base + '.patch'), 'w') as f:
            f.write('\n'.join(lines) + '\n')
        args += ['--patch', os.path.join(d, base + '.patch')]
    try:
        py_impl.run_prophyc(args + ['--python_out', d, '--cpp_full_out', d, '--cpp_out', d, src])
        return 'ok', ''
    except prophyc.ProphycError as e:
        return 'ProphycError', str(e)
    except Exception as e:  # noqa
        return type(e).__name__, str(e)[:300]


def find_struct(sc, pred):
    c = [d for d in sc.decls if isinstance(d, S.Struct) and pred(d)]
    return c


def edits(rng, sc):
    """yield (rule, edited schema) - each derived from the valid schema by one rule-breaking edit"""
    structs = [d for d in sc.decls if isinstance(d, S.Struct)]
    unions = [d for d in sc.decls if isinstance(d, S.Union)]
    enums = [d for d in sc.decls if isinstance(d, S.Enum)]
    dyn_types = [d.name for d in structs if S.struct_kind(sc, d) == S.DYNAMIC]
    unl_types = [d.name for d in structs if S.struct_kind(sc, d) == S.UNLIMITED]

    def with_struct(name, members, at_end=True):
        e = copy.deepcopy(sc)
        e.decls.append(S.Struct(name, members))
        return e

    if dyn_types:
        t = rng.choice(dyn_types)
        yield 'dynamic type in fixed array', with_struct('Brk', [S.Member('x', t, 'fixed', size=2)])
        yield 'dynamic type in limited array', with_struct('Brk', [S.Member('x', t, 'limited', size=2)])
        yield 'dynamic type optional', with_struct('Brk', [S.Member('x', t, 'optional')])
        e = copy.deepcopy(sc)
        e.decls.append(S.Union('BrkU', [('a', 1, t)]))
        yield 'dynamic type in union arm', e
    if unl_types:
        t = rng.choice(unl_types)
        yield 'unlimited type not last', with_struct('Brk', [S.Member('x', t), S.Member('y', 'u8')])
        yield 'unlimited type in dynamic array', with_struct('Brk', [S.Member('x', t, 'dyn')])
        yield 'unlimited type in greedy array', with_struct('Brk', [S.Member('x', t, 'greedy')])
        yield 'unlimited type in fixed array', with_struct('Brk', [S.Member('x', t, 'fixed', size=2)])
        yield 'unlimited type optional', with_struct('Brk', [S.Member('x', t, 'optional')])
        e = copy.deepcopy(sc)
        e.decls.append(S.Union('BrkU', [('a', 1, t)]))
        yield 'unlimited type in union arm', e
    yield 'greedy array not last', with_struct('Brk', [S.Member('g', 'u8', 'greedy'), S.Member('t', 'u16')])
    yield 'sizer missing', with_struct('Brk', [S.Member('x', 'u8', 'dynext', sizer='nope')])
    yield 'sizer after its array', with_struct('Brk', [S.Member('x', 'u8', 'dynext', sizer='n'), S.Member('n', 'u32')])
    yield 'sizer optional', with_struct('Brk', [S.Member('n', 'u32', 'optional'), S.Member('x', 'u8', 'dynext', sizer='n')])
    yield 'sizer not an integer', with_struct('Brk', [S.Member('n', 'r32'), S.Member('x', 'u8', 'dynext', sizer='n')])
    yield 'sizer is an array', with_struct('Brk', [S.Member('n', 'u8', 'fixed', size=2), S.Member('x', 'u8', 'dynext', sizer='n')])
    yield 'sizer is a dynamic array', with_struct('Brk', [S.Member('k', 'u8'), S.Member('n', 'u8', 'dynext', sizer='k'), S.Member('x', 'u16', 'dynext', sizer='n')])
    yield 'sizer is a limited array', with_struct('Brk', [S.Member('n', 'u8', 'limited', size=2), S.Member('x', 'u16', 'dynext', sizer='n')])
    yield 'sizer is an implicitly counted array', with_struct('Brk', [S.Member('n', 'u8', 'dyn'), S.Member('x', 'u16', 'dynext', sizer='n')])
    yield 'sizer is a greedy array', with_struct('Brk', [S.Member('x', 'u16', 'dynext', sizer='n'), S.Member('n', 'u8', 'greedy')])
    yield 'sizer is bytes', with_struct('Brk', [S.Member('n', 'byte', 'fixed', size=2), S.Member('x', 'u16', 'dynext', sizer='n')])
    yield 'sizer is an enum', with_struct('Brk', [S.Member('n', enums[0].name if enums else 'u8') if enums else S.Member('n', 'r64'), S.Member('x', 'u16', 'dynext', sizer='n')])
    if structs:
        st = rng.choice(structs)
        yield 'sizer is a struct', with_struct('Brk', [S.Member('n', st.name), S.Member('x', 'u8', 'dynext', sizer='n')]) if S.struct_kind(sc, st) == S.FIXED else with_struct('Brk', [S.Member('n', 'r64'), S.Member('x', 'u8', 'dynext', sizer='n')])
        # duplicate field name inside an existing struct
        e = copy.deepcopy(sc)
        tgt = next(d for d in e.decls if d.name == st.name)
        tgt.members.insert(0, S.Member(tgt.members[-1].name, 'u8'))
        yield 'duplicate field name', e
        e = copy.deepcopy(sc)
        e.decls.append(S.Struct(st.name, [S.Member('z', 'u8')]))
        yield 'duplicate type name', e
    yield 'non-positive array size', with_struct('Brk', [S.Member('x', 'u8', 'fixed', size=0)])
    yield 'non-positive array limit', with_struct('Brk', [S.Member('x', 'u8', 'limited', size=0)])
    e = copy.deepcopy(sc)
    e.decls.append(S.Union('BrkU', [('a', 1, 'u8'), ('b', 1, 'u16')]))
    yield 'duplicate discriminator', e
    e = copy.deepcopy(sc)
    e.decls.append(S.Union('BrkU', [('a', 1, 'u8'), ('a', 2, 'u16')]))
    yield 'duplicate arm name', e
    e = copy.deepcopy(sc)
    e.decls.append(S.Union('BrkU', [('a', 2 ** 32, 'u8')]))
    yield 'discriminator outside 32 bits', e
    e = copy.deepcopy(sc)
    e.decls.append(S.Enum('BrkE', [('BrkE_a', 2 ** 32)]))
    yield 'enumerator outside 32 bits', e
    e = copy.deepcopy(sc)
    e.decls.append(S.Enum('BrkE', [('BrkE_a', 1), ('BrkE_a', 2)]))
    yield 'duplicate enumerator name', e
    if enums:
        e = copy.deepcopy(sc)
        e.decls.append(S.Enum('BrkE', [(enums[0].members[0][0], 3)]))
        yield 'enumerator name used twice across enums', e


ISAR_INEXPRESSIBLE = set()     # edits the XML rendering cannot carry (none so far)


def classify_isar(case, detail):
    """D117: the isar front-end refuses enumerators sharing one value (spelled alike)"""
    if 'Duplicate Enum value' in detail.get('what', ''):
        return 'D117'
    return None


RESERVED = ['class', 'delete', 'new', 'template', 'namespace', 'E', 'None', 'def', 'import', 'lambda']


CPP_KEYWORDS = set('''alignas alignof and and_eq asm auto bitand bitor bool break case catch char char16_t char32_t class compl const constexpr const_cast
continue decltype default delete do double dynamic_cast else enum explicit export extern false float for friend goto if inline int long mutable namespace new
noexcept not not_eq nullptr operator or or_eq private protected public register reinterpret_cast return short signed sizeof static static_assert static_cast
struct switch template this thread_local throw true try typedef typeid typename union unsigned using virtual void volatile wchar_t while xor xor_eq
final override'''.split())


def header_identifiers():
    """every identifier the shipped C++ headers use (comments and strings dropped; no keywords, no macros): the names a schema name can
    collide with when the generated sources use them unqualified"""
    import glob
    import keyword
    names = set()
    for path in glob.glob(os.path.join(REPO, 'prophy_cpp', 'include', 'prophy', '**', '*.hpp'), recursive=True):
        text = re.sub(r'//[^\n]*|/\*.*?\*/|"[^"\n]*"', ' ', open(path).read(), flags=re.S)
        names |= set(re.findall(r'(?<![0-9A-Za-z_])[A-Za-z_]\w*', text))
    return sorted(n for n in names if n not in CPP_KEYWORDS and not keyword.iskeyword(n) and not n.isupper() and not n.startswith('__') and len(n) > 1)


def declared_by_the_c_library(name, d):
    """D40 (widened in round 8): is `name` a declaration of the C library at global scope (memcpy, ptrdiff_t, uintptr_t)?"""
    os.makedirs(d, exist_ok=True)
    src = os.path.join(d, 'probe.cpp')
    with open(src, 'w') as f:
        f.write('#include <cstring>\n#include <cstddef>\n#include <stdint.h>\n#include <cstdlib>\n#include <ctime>\nnamespace probe { using ::%s; }\n' % name)
    return subprocess.run(['g++', '-std=c++11', '-fsyntax-only', src], stdout=subprocess.PIPE, stderr=subprocess.STDOUT, timeout=120).returncode == 0


def classify_c12(case, detail):
    """D40: identifiers that are reserved in a target language (or `E`, the template parameter of the generated C++);
    D59: isar text naming an enumerator of an xi:include'd file (the Python output does not import it)"""
    if case.get('rule') == 'identifier reserved in a target language':
        return 'D40'
    if case.get('rule') == 'identifier of the C++ runtime headers' and case.get('c_library'):
        return 'D40'
    if case.get('rule') in ('schema without definitions', 'array extent no C++ object can have') and 'python' not in detail.get('backends', {}):
        return 'D118'
    if case.get('rule') == 'python only: isar member of an unknown type' and 'NameError' in detail.get('backends', {}).get('python', ''):
        return 'D116'
    if case.get('rule') == 'patch: remove leaving a struct without members' and set(detail.get('backends', {})) == {'cpp_full'}:
        return 'D56'
    if case.get('rule') == 'isar: enumerator of an included file used by name' and set(detail.get('backends', {})) == {'python'} \
            and 'NameError' in detail['backends']['python']:
        return 'D59'
    return None


ISAR = '<x xmlns:xi="http://www.xyz.com/1984/XInclude">%s</x>'

# (rule, front-end option, {file: text}, main file, expected: 'reject' | 'usable')
DIRECTED = [
    ('definition named like a built-in type (struct r32)', None,
     {'a.prophy': 'struct r32 { u64 a; u64 b; };\nstruct X { r32 f; u8 t; };\n'}, 'a.prophy', 'reject'),
    ('definition named like a built-in type (typedef r64)', None,
     {'a.prophy': 'typedef u8 r64;\nstruct X { r64 f; u8 t; };\n'}, 'a.prophy', 'reject'),
    ('definition named like a built-in type (enum byte)', None,
     {'a.prophy': 'enum byte { byte_A = 7 };\nstruct X { byte h; byte k[3]; };\n'}, 'a.prophy', 'reject'),
    ('definition named like a built-in type (isar struct u16)', '--isar',
     {'a.xml': ISAR % '<struct name="u16"><member name="a" type="u64"/></struct><struct name="X"><member name="f" type="u16"/></struct>'},
     'a.xml', 'reject'),
    ('one name defined differently by two included files', None,
     {'p.prophy': 'struct S { u8 v; };\n', 'q.prophy': 'struct S { u64 v; u64 w; };\n',
      'a.prophy': '#include "p.prophy"\n#include "q.prophy"\nstruct M { u8 h; S s; };\n'}, 'a.prophy', 'reject'),
    ('one constant defined differently by two included files', None,
     {'p.prophy': 'const K = 1;\n', 'q.prophy': 'const K = 2;\n',
      'a.prophy': '#include "p.prophy"\n#include "q.prophy"\nstruct M { u8 h[K]; };\n'}, 'a.prophy', 'reject'),
    ('isar: negative discriminator', '--isar',
     {'a.xml': ISAR % '<union name="U"><member name="a" type="u8" discriminatorValue="-1"/><member name="b" type="u8" discriminatorValue="2"/></union>'},
     'a.xml', 'reject'),
    ('isar: discriminator beyond 32 bits', '--isar',
     {'a.xml': ISAR % '<union name="U"><member name="a" type="u8" discriminatorValue="1"/><member name="b" type="u8" discriminatorValue="4294967296"/></union>'},
     'a.xml', 'reject'),
    ('isar: enumerator beyond 32 bits', '--isar',
     {'a.xml': ISAR % '<enum name="E"><enum-member name="E_A" value="1"/><enum-member name="E_B" value="0x1FFFFFFFF"/></enum>'},
     'a.xml', 'reject'),
    ('isar: enumerator expression below zero', '--isar',
     {'a.xml': ISAR % '<constant name="K" value="3"/><enum name="E"><enum-member name="E_A" value="K-4"/></enum>'},
     'a.xml', 'reject'),
    ('isar: union arm of dynamic type', '--isar',
     {'a.xml': ISAR % ('<struct name="D"><member name="n" type="u8"/><member name="x" type="u8"><dimension variableSizeFieldName="@n"/></member></struct>'
                       '<union name="U"><member name="a" type="u32" discriminatorValue="1"/><member name="d" type="D" discriminatorValue="2"/></union>')},
     'a.xml', 'reject'),
    ('isar: optional / fixed array of dynamic type', '--isar',
     {'a.xml': ISAR % ('<struct name="D"><member name="n" type="u8"/><member name="x" type="u8"><dimension variableSizeFieldName="@n"/></member></struct>'
                       '<struct name="S"><member name="d" type="D"><dimension size="2"/></member></struct>')},
     'a.xml', 'reject'),
    ('isar: sizer declared after its array', '--isar',
     {'a.xml': ISAR % ('<struct name="S"><member name="a" type="u8"><dimension variableSizeFieldName="@n"/></member><member name="n" type="u32"/>'
                       '<member name="m" type="u32"/><member name="b" type="u8"><dimension variableSizeFieldName="@m"/></member></struct>')},
     'a.xml', 'reject'),
    ('isar: negative size of a limited array', '--isar',
     {'a.xml': ISAR % '<struct name="S"><member name="k" type="u32"/><member name="a" type="u8"><dimension size="-2" isVariableSize="true"/></member></struct>'},
     'a.xml', 'reject'),
    ('isar: array size zero', '--isar',
     {'a.xml': ISAR % '<struct name="S"><member name="t" type="u8"/><member name="x" type="u32"><dimension size="0"/></member></struct>'},
     'a.xml', 'reject'),
    ('isar: array size expression below one', '--isar',
     {'a.xml': ISAR % '<constant name="K" value="2"/><struct name="S"><member name="x" type="u32"><dimension size="K-3"/></member><member name="t" type="u8"/></struct>'},
     'a.xml', 'reject'),
    ('patch: type rule making a greedy array of an unlimited struct', ['--patch', 'a.patch'],
     {'a.prophy': 'struct Chunk { u8 data<...>; };\nstruct Item { u8 x; };\nstruct Msg { Item items<...>; };\n', 'a.patch': 'Msg type items Chunk\n'},
     'a.prophy', 'reject'),
    ('patch: member inserted behind a greedy array', ['--patch', 'a.patch'],
     {'a.prophy': 'struct X { u32 a; u8 g[2]; };\nstruct Y { X x; u8 z; };\n', 'a.patch': 'X greedy g\nX insert 2 t u8\n'},
     'a.prophy', 'reject'),
    ('patch: dynamic rule making a union arm / fixed array / optional dynamic', ['--patch', 'a.patch'],
     {'a.prophy': 'struct A { u32 n; u8 x[3]; };\nunion U { 1: A a; };\n', 'a.patch': 'A dynamic x n\n'},
     'a.prophy', 'reject'),
    ('patch: greedy then static leaves an ordinary fixed array', ['--patch', 'a.patch'],
     {'a.prophy': 'struct G { u8 x; };\nstruct T { G g; u32 t; };\nstruct H { G g[2]; G* o; };\n', 'a.patch': 'G greedy x\nG static x 3\n'},
     'a.prophy', 'usable'),
    ('enumerators sharing one value', None,
     {'a.prophy': 'enum E { E_First = 1, E_Default = 1, E_Other = 2 };\nstruct S { E e; };\n'}, 'a.prophy', 'usable'),
    ('discriminator and enumerator above 0x7fffffff', None,
     {'a.prophy': 'enum E { E_A = 0x80000000, E_B = 0xFFFFFFFF };\nunion U { 1: u8 a; 0x80000000: u32 b; 0xFFFFFFFF: E c; };\nstruct S { U u; E e; };\n'},
     'a.prophy', 'usable'),
    ('patch: remove leaving a struct without members', ['--patch', 'a.patch'],
     {'a.prophy': 'struct S { u8 a; };\nstruct T { S s; u8 t; };\n', 'a.patch': 'S remove a\n'}, 'a.prophy', 'usable'),
    ('enumerator named like its own enum', None, {'a.prophy': 'enum A { A = 1 };\nstruct S { A a; };\n'}, 'a.prophy', 'reject'),
    ('name of a transitively included file defined again', None,
     {'c.prophy': 'struct X { u8 a; };\nconst K = 5;\n', 'b.prophy': '#include "c.prophy"\nstruct B { X x; };\n',
      'a.prophy': '#include "b.prophy"\nstruct X { u16 a; };\nstruct A { B b; X x; };\n'}, 'a.prophy', 'reject'),
    ('names of a transitively included file are visible', None,
     {'c.prophy': 'struct C { u8 a; };\nconst K = 5;\nenum EC { EC_A = 2 };\n', 'b.prophy': '#include "c.prophy"\nstruct B { C c; };\n',
      'a.prophy': '#include "b.prophy"\nstruct A { B b; C c[K]; u8 x[EC_A]; EC e; };\n'}, 'a.prophy', 'usable'),
    ('isar: one struct name twice', '--isar',
     {'a.xml': ISAR % '<struct name="S"><member name="a" type="u8"/></struct><struct name="S"><member name="b" type="u16"/></struct><struct name="H"><member name="s" type="S"/></struct>'},
     'a.xml', 'reject'),
    ('isar: a constant and a struct of one name', '--isar',
     {'a.xml': ISAR % '<constant name="S" value="3"/><struct name="S"><member name="a" type="u8"/></struct>'}, 'a.xml', 'reject'),
    ('isar: one enumerator name in two enums', '--isar',
     {'a.xml': ISAR % '<enum name="E"><enum-member name="A" value="1"/></enum><enum name="F"><enum-member name="A" value="2"/></enum>'}, 'a.xml', 'reject'),
    ('isar: one constant defined differently by two included files', '--isar',
     {'p.xml': ISAR % '<constant name="K" value="1"/>', 'q.xml': ISAR % '<constant name="K" value="2"/>',
      'a.xml': ISAR % '<xi:include href="p.xml"/><xi:include href="q.xml"/><struct name="A"><member name="x" type="u8"><dimension size="K"/></member></struct>'},
     'a.xml', 'reject'),
    ('patch: rename onto an existing definition', ['--patch', 'a.patch'],
     {'a.prophy': 'struct S { u8 a; };\nstruct T { u16 b; };\nstruct H { S s; T t; };\n', 'a.patch': 'T rename S\n'}, 'a.prophy', 'reject'),
    ('patch: rename making two members of one name', ['--patch', 'a.patch'],
     {'a.prophy': 'struct S { u8 a; u32 b; };\n', 'a.patch': 'S rename b a\n'}, 'a.prophy', 'reject'),
    ('patch: insert making two members of one name', ['--patch', 'a.patch'],
     {'a.prophy': 'struct S { u8 a; u32 b; };\n', 'a.patch': 'S insert 0 b u16\n'}, 'a.prophy', 'reject'),
    ('patch: rule named like an included file', ['--patch', 'a.patch'],
     {'Foo.prophy': 'struct Foo { u32 n; u8 x[3]; };\n', 'a.prophy': '#include "Foo.prophy"\nstruct A { Foo f; };\n', 'a.patch': 'Zoo rename Zar\n'},
     'a.prophy', 'usable'),
    ('isar: discriminators equal through an enumerator', '--isar',
     {'a.xml': ISAR % ('<enum name="E"><enum-member name="E_A" value="1"/></enum><union name="U"><member name="a" type="u8" discriminatorValue="E_A"/>'
                       '<member name="b" type="u16" discriminatorValue="1"/></union>')}, 'a.xml', 'reject'),
    ('isar: discriminators 1 and 0x1', '--isar',
     {'a.xml': ISAR % '<union name="U"><member name="a" type="u8" discriminatorValue="1"/><member name="b" type="u16" discriminatorValue="0x1"/></union>'},
     'a.xml', 'reject'),
    ('isar: name that is not an identifier', '--isar',
     {'a.xml': ISAR % '<struct name="a-b"><member name="x y" type="u8"/></struct>'}, 'a.xml', 'reject'),
    ('isar: name ending in a line break', '--isar',
     {'a.xml': ISAR % '<struct name="S"><member name="a&#10;" type="u8"/></struct><enum name="E"><enum-member name="E_A&#10;" value="1"/></enum>'}, 'a.xml', 'reject'),
    ('included file named like a Python keyword', None,
     {'global.prophy': 'struct G { u8 x; };\n', 'a.prophy': '#include "global.prophy"\nstruct C { G g; };\n'}, 'a.prophy', 'reject'),
    ('file ending in a line comment without a newline, file starting with a byte order mark', None,
     {'b.prophy': '\ufeffstruct B { u8 x; };\n', 'a.prophy': '#include "b.prophy"\nstruct C { B b; }; // the end'}, 'a.prophy', 'usable'),
    ('file including another file of its own base name', None,
     {'common/types.prophy': 'struct P { u64 p; };\n', 'types.prophy': '#include "common/types.prophy"\nstruct T { P p; };\n'}, 'types.prophy', 'reject'),
    ('isar: equal copies of one definition in two included files', '--isar',
     {'p.xml': ISAR % '<struct name="P"><member name="a" type="u8"/></struct>', 'q.xml': ISAR % '<struct name="P"><member name="a" type="u8"/></struct>',
      'a.xml': ISAR % '<xi:include href="p.xml"/><xi:include href="q.xml"/><struct name="A"><member name="p" type="P"/></struct>'}, 'a.xml', 'reject'),
    ('isar: enumerator naming nothing', '--isar', {'a.xml': ISAR % '<enum name="E"><enum-member name="E_A" value="NOPE"/></enum>'}, 'a.xml', 'reject'),
    ('isar: constant dividing by zero', '--isar', {'a.xml': ISAR % '<constant name="K" value="1/0"/>'}, 'a.xml', 'reject'),
    ('isar: constant holding Python text', '--isar', {'a.xml': ISAR % '<constant name="K" value="__import__(\'os\').getpid()"/>'}, 'a.xml', 'reject'),
    ('isar: unfinished expression as discriminator', '--isar',
     {'a.xml': ISAR % '<union name="U"><member name="a" type="u8" discriminatorValue="1 +"/></union>'}, 'a.xml', 'reject'),
    ('isar: constant beyond 64 bits', '--isar', {'a.xml': ISAR % '<constant name="K" value="18446744073709551617"/>'}, 'a.xml', 'reject'),
    ('isar: include name with a line break', '--isar', {'a.xml': ISAR % '<xi:include href="types&#10;v2.xml"/><struct name="A"><member name="a" type="u8"/></struct>'}, 'a.xml', 'reject'),
    ('type larger than 64 bits can count', None, {'a.prophy': 'struct S0 { u64 a[4294967295]; };\nstruct S1 { S0 a[4294967295]; };\nstruct S2 { S1 a[4294967295]; };\n'},
     'a.prophy', 'reject'),
    ('isar: enumerator referring to a later enumerator of its enum', '--isar',
     {'a.xml': ISAR % '<enum name="E"><enum-member name="E_A" value="E_B + 1"/><enum-member name="E_B" value="1"/></enum><struct name="S"><member name="e" type="E"/></struct>'},
     'a.xml', 'reject'),
    ('isar: enumerator referring to an earlier enumerator of its enum', '--isar',
     {'a.xml': ISAR % '<enum name="E"><enum-member name="E_B" value="1"/><enum-member name="E_A" value="E_B + 1"/></enum><struct name="S"><member name="e" type="E"/></struct>'},
     'a.xml', 'usable'),
    ('enumerators named like the byte orders of the C++ runtime', None,
     {'a.prophy': 'enum Endian { little = 0, big = 1, middle = 5 };\nstruct X { Endian e; };\n'}, 'a.prophy', 'reject'),
    ('typedef named like a <stdint.h> type', None, {'a.prophy': 'typedef u32 int8_t;\nstruct X { i8 a; u8 b; };\n'}, 'a.prophy', 'reject'),
    ('isar: array size naming a constant called big', '--isar',
     {'a.xml': ISAR % '<constant name="big" value="1"/><struct name="X"><member name="a" type="u64"><dimension size="big"/></member></struct>'}, 'a.xml', 'reject'),
    ('member named like a type of its struct', None, {'a.prophy': 'struct I { u8 x; };\nstruct S { I I; };\n'}, 'a.prophy', 'reject'),
    ('member named like the first enumerator of an enum field', None, {'a.prophy': 'enum En { A = 1, B = 2 };\nstruct S { u8 A; En e; };\n'}, 'a.prophy', 'reject'),
    ('member named like its struct', None, {'a.prophy': 'struct S { u8 S; };\n'}, 'a.prophy', 'reject'),
    ('isar: name starting with two underscores', '--isar',
     {'a.xml': ISAR % '<typedef name="__T" type="u8"/><struct name="S"><member name="a" type="__T"/></struct>'}, 'a.xml', 'reject'),
    ('isar: number with an underscore', '--isar', {'a.xml': ISAR % '<constant name="K" value="1_0"/>'}, 'a.xml', 'reject'),
    ('isar: number in digits of another script', '--isar', {'a.xml': ISAR % '<constant name="K" value="\u0663+1"/>'}, 'a.xml', 'reject'),
    ('isar: value holding a line break', '--isar', {'a.xml': ISAR % '<constant name="K" value="1&#10;+2"/><struct name="X"><member name="a" type="u8"><dimension size="K"/></member></struct>'},
     'a.xml', 'reject'),
    ('isar: array size with a double minus', '--isar', {'a.xml': ISAR % '<struct name="X"><member name="a" type="u8"><dimension size="3--1"/></member></struct>'}, 'a.xml', 'reject'),
    ('isar: array size with a shift', '--isar', {'a.xml': ISAR % '<constant name="K" value="16"/><struct name="X"><member name="a" type="u8"><dimension size="K>>1"/></member></struct>'},
     'a.xml', 'usable'),
    ('definition named sys in an included file', None,
     {'b.prophy': 'const sys = 2;\nstruct B { u8 x[sys]; };\n', 'c.prophy': 'struct C { u16 y; };\n', 'a.prophy': '#include "b.prophy"\n#include "c.prophy"\nstruct A { B b; C c; };\n'},
     'a.prophy', 'reject'),
    ('file with carriage returns only', None, {'a.prophy': 'struct A { u8 a; }; // first\rstruct B { A a; u16 b; };\r'}, 'a.prophy', 'usable'),
    ('isar: enumerator below -2^31', '--isar',
     {'a.xml': ISAR % '<enum name="E"><enum-member name="E_A" value="-4294967295"/></enum>'}, 'a.xml', 'reject'),
    ('isar: negative enumerator within 32 bits', '--isar',
     {'a.xml': ISAR % '<enum name="E"><enum-member name="E_A" value="-1"/><enum-member name="E_B" value="-2147483648"/></enum><struct name="S"><member name="e" type="E"/></struct>'},
     'a.xml', 'usable'),
    ('isar: enumerators equal by value, spelled differently', '--isar',
     {'a.xml': ISAR % ('<constant name="K" value="2"/><enum name="E"><enum-member name="E_A" value="1"/><enum-member name="E_B" value="0x1"/>'
                       '<enum-member name="E_C" value="K"/><enum-member name="E_D" value="2"/><enum-member name="E_L" value="E_A"/></enum>'
                       '<struct name="S"><member name="e" type="E"/></struct>')}, 'a.xml', 'usable'),
    ('isar: comment with a backslash and a quote', '--isar',
     {'a.xml': ISAR % '<constant name="K" value="3" comment="see C:\\users\\doc and the user\'"/><struct name="S"><member name="a" type="u8"><dimension size="K"/></member></struct>'},
     'a.xml', 'usable'),
    ('isar: isVariableSize="false"', '--isar',
     {'a.xml': ISAR % '<struct name="S"><member name="a" type="u8"><dimension size="3" isVariableSize="false"/></member></struct>'}, 'a.xml', 'usable'),
    ('isar: shiftLeft in a size and a discriminator', '--isar',
     {'a.xml': ISAR % ('<struct name="S"><member name="a" type="u8"><dimension size="shiftLeft(1,2)"/></member></struct>'
                       '<union name="U"><member name="a" type="u8" discriminatorValue="bitMaskOr(1,2)"/></union>')}, 'a.xml', 'usable'),
    ('included file whose name is not a module name', None,
     {'my-a.prophy': 'struct A { u8 x; };\n', 'a.prophy': '#include "my-a.prophy"\nstruct C { A a; };\n'}, 'a.prophy', 'reject'),
    ('isar: literal with white space', '--isar', {'a.xml': ISAR % '<constant name="K" value="5 "/><struct name="S"><member name="a" type="u8"><dimension size="K"/></member></struct>'},
     'a.xml', 'usable'),
    ('schema without definitions', None, {'a.prophy': '\n'}, 'a.prophy', 'usable'),
    ('array extent no C++ object can have', None, {'a.prophy': 'struct X { u8 a[1 << 63]; };\n'}, 'a.prophy', 'usable'),
    ('isar: member of an unknown type', '--isar', {'a.xml': ISAR % '<struct name="S"><member name="a" type="Nope"/></struct>'}, 'a.xml', 'reject'),
    ('python only: isar member of an unknown type', '--isar', {'a.xml': ISAR % '<struct name="S"><member name="a" type="Nope"/></struct>'}, 'a.xml', 'usable'),
    ('isar: typedef and union arm of type byte', '--isar',
     {'a.xml': ISAR % ('<typedef name="TB" type="byte"/><union name="U"><member name="d" type="byte" discriminatorValue="1"/>'
                       '<member name="e" type="TB" discriminatorValue="2"/></union><struct name="S"><member name="b" type="TB"/><member name="u" type="U"/></struct>')},
     'a.xml', 'usable'),
    ('isar: the same diamond include seen twice', '--isar',
     {'c.xml': ISAR % '<struct name="C"><member name="a" type="u8"/></struct>',
      'p.xml': ISAR % '<xi:include href="c.xml"/><struct name="P"><member name="c" type="C"/></struct>',
      'a.xml': ISAR % '<xi:include href="c.xml"/><xi:include href="p.xml"/><struct name="A"><member name="c" type="C"/><member name="p" type="P"/></struct>'},
     'a.xml', 'usable'),
    ('the same diamond include seen twice', None,
     {'c.prophy': 'struct C { u8 a; };\nconst KC = 2;\nenum EC { EC_A = 1 };\n', 'p.prophy': '#include "c.prophy"\nstruct P { C c[KC]; };\n',
      'a.prophy': '#include "c.prophy"\n#include "p.prophy"\n#include "c.prophy"\nstruct A { C c; P p; EC e; };\n'}, 'a.prophy', 'usable'),
    ('isar: enumerator of an included file used by name', '--isar',
     {'b.xml': ISAR % '<enum name="EB"><enum-member name="EB_X" value="1"/><enum-member name="EB_Y" value="3"/></enum>',
      'a.xml': ISAR % '<xi:include href="b.xml"/><struct name="S"><member name="e" type="EB"/><member name="m" type="u8"><dimension size="EB_Y"/></member></struct>'},
     'a.xml', 'usable'),
    # audit round 5
    ('isar: array size that divides by zero (D166)', '--isar',
     {'a.xml': ISAR % '<constant name="K" value="4"/><struct name="S"><member name="a" type="u8"><dimension size="K/(K-4)"/></member></struct>'}, 'a.xml', 'reject'),
    ('isar: array size that is an unfinished expression (D166)', '--isar',
     {'a.xml': ISAR % '<constant name="K" value="4"/><struct name="S"><member name="a" type="u8"><dimension size="K +"/></member></struct>'}, 'a.xml', 'reject'),
    ('isar: array size that is Python code (D166)', '--isar',
     {'a.xml': ISAR % '<struct name="S"><member name="a" type="u8"><dimension size="__import__(\'os\').getpid() or 3"/></member></struct>'}, 'a.xml', 'reject'),
    ('patch: static size that divides by zero (D166)', ['--patch', 'a.patch'],
     {'a.prophy': 'const K = 4;\nstruct S { u8 a[2]; };\n', 'a.patch': 'S static a K/(K-4)\n'}, 'a.prophy', 'reject'),
    ('isar: array size with a parenthesised product of known constants', '--isar',
     {'a.xml': ISAR % '<constant name="K" value="4"/><struct name="S"><member name="a" type="u8"><dimension size="(K+1)*2"/></member></struct>'}, 'a.xml', 'usable'),
    ('isar: constant named encoded_byte_size used as discriminator and size (D173)', '--isar',
     {'a.xml': ISAR % ('<constant name="encoded_byte_size" value="1"/><union name="U"><member name="a" type="u32" discriminatorValue="encoded_byte_size"/>'
                       '<member name="b" type="u64" discriminatorValue="2"/></union><struct name="S"><member name="x" type="u8"><dimension size="encoded_byte_size"/></member></struct>')},
     'a.xml', 'reject'),
    ('isar: hexadecimal literal ending in e followed by + (one number for a C++ compiler, D175)', '--isar',
     {'a.xml': ISAR % '<constant name="A" value="0xE+1"/><struct name="S"><member name="x" type="u8"><dimension size="0xFE+1"/></member></struct>'}, 'a.xml', 'reject'),
    ('isar: the same with blanks', '--isar',
     {'a.xml': ISAR % '<constant name="A" value="0xE + 1"/><struct name="S"><member name="x" type="u8"><dimension size="0xFE + 1"/></member></struct>'}, 'a.xml', 'usable'),
    ('member named like the first enumerator of its neighbour\'s enum type (direct)', None,
     {'a.prophy': 'enum E { E_First = 1, E_Second = 2 };\nstruct Y { E a; u32 E_First; };\n'}, 'a.prophy', 'reject'),
    ('the same behind one typedef', None,
     {'a.prophy': 'enum E { E_First = 1, E_Second = 2 };\ntypedef E T;\nstruct Y { T a; u32 E_First; };\n'}, 'a.prophy', 'reject'),
    ('the same behind two typedefs', None,
     {'a.prophy': 'enum E { E_First = 1, E_Second = 2 };\ntypedef E T;\ntypedef T TT;\nstruct Y { TT a; u32 E_First; };\n'}, 'a.prophy', 'reject'),
    ('the same behind three typedefs, in a union', None,
     {'a.prophy': 'enum E { E_First = 1, E_Second = 2 };\ntypedef E T;\ntypedef T TT;\ntypedef TT TTT;\nunion U { 1: TTT a; 2: u32 E_First; };\n'}, 'a.prophy', 'reject'),
    ('enum field behind two typedefs, no clash', None,
     {'a.prophy': 'enum E { E_First = 1, E_Second = 2 };\ntypedef E T;\ntypedef T TT;\nstruct Y { TT a; u32 b; TT c[2]; };\n'}, 'a.prophy', 'usable'),
    ('struct named like a block of the raw C++ header (D177)', None,
     {'a.prophy': 'struct part2 { u32 v; u32 w; };\nstruct X { u8 a<>; u8 b; u8 c<>; part2 d; u8 e; };\n'}, 'a.prophy', 'reject'),
    ('struct named like the tenth block of the raw C++ header (seeded C08-r9: part1x fell out of the pattern)', None,
     {'a.prophy': 'struct part10 { u32 a; u32 b; u32 c; };\nstruct X { ' + ' '.join('u8 x%d<>;' % i for i in range(1, 11)) + ' part10 p; u32 tail; };\n'}, 'a.prophy', 'reject'),
    ('struct named like the hundredth block', None,
     {'a.prophy': 'struct part100 { u32 a; u32 b; u32 c; };\nstruct X { ' + ' '.join('u8 x%d<>;' % i for i in range(1, 101)) + ' part100 p; u32 tail; };\n'}, 'a.prophy', 'reject'),
    ('a type named part1 beside a struct of several blocks (no block is called part1)', None,
     {'a.prophy': 'struct part1 { u32 a; u32 b; u32 c; };\nstruct X { u8 x1<>; u8 x2<>; part1 p; u32 tail; };\n'}, 'a.prophy', 'usable'),
    ('isar: struct named _discriminator used as a union arm (D177)', '--isar',
     {'a.xml': ISAR % ('<struct name="_discriminator"><member name="a" type="u64"/><member name="b" type="u64"/></struct>'
                       '<union name="U"><member name="x" type="_discriminator" discriminatorValue="1"/></union>')}, 'a.xml', 'reject'),
    ('enum named like a C++ runtime name', None, {'a.prophy': 'enum size_t { size_t_First = 1 };\nstruct S { u8 k; size_t x; };\n'}, 'a.prophy', 'reject'),
    ('enum named native', None, {'a.prophy': 'enum native { native_A = 1 };\nstruct S { native x; };\n'}, 'a.prophy', 'reject'),
    ('enum named uint8_t', None, {'a.prophy': 'enum uint8_t { U_A = 1 };\nstruct S { uint8_t x; u8 y; };\n'}, 'a.prophy', 'reject'),
    ('typedef named std', None, {'a.prophy': 'typedef u16 std;\nstruct S { std x; };\n'}, 'a.prophy', 'reject'),
    ('union named encoded_byte_size', None, {'a.prophy': 'union encoded_byte_size { 1: u8 a; };\nstruct S { encoded_byte_size x; };\n'}, 'a.prophy', 'reject'),
    ('struct named big', None, {'a.prophy': 'struct big { u8 a; };\nstruct S { big x; };\n'}, 'a.prophy', 'reject'),
    ('enumerator named little', None, {'a.prophy': 'enum E { little = 1, other = 2 };\nstruct S { E x; };\n'}, 'a.prophy', 'reject'),
    ('fields named like runtime names nothing captures (D187)', None,
     {'a.prophy': 'struct Style { u32 indent; u32 width; u8 big; u16 little; u8 native; };\nunion V { 1: u8 big; 2: u16 little; };\n'}, 'a.prophy', 'usable'),
    ('constants and enumerators named like blocks of the raw header (D187)', None,
     {'a.prophy': 'const part3 = 3;\nenum Parts { part1 = 1, part2 = 2 };\nstruct P { u8 a<>; u8 b<>; Parts p; u8 c[part3]; };\n'}, 'a.prophy', 'usable'),
    ('a field named part2 in a struct of several blocks (D187)', None,
     {'a.prophy': 'struct Address { u32 part1; u32 part2; bytes street<>; bytes city<>; };\n'}, 'a.prophy', 'reject'),
    ('a field named part1 in a struct of several blocks', None,
     {'a.prophy': 'struct Address { u32 part1; u32 second; bytes street<>; bytes city<>; };\n'}, 'a.prophy', 'usable'),
    ('isar: constant named discriminator_a used in a discriminator expression (D187)', '--isar',
     {'a.xml': ISAR % ('<constant name="discriminator_a" value="7"/><union name="U"><member name="a" type="u8" discriminatorValue="1"/>'
                       '<member name="b" type="u16" discriminatorValue="discriminator_a + 1"/></union>')}, 'a.xml', 'reject'),
    ('struct named array (D195)', None, {'a.prophy': 'struct array { u8 a; };\nstruct X { array k; u8 f[3]; };\n'}, 'a.prophy', 'reject'),
    ('field named optional next to an optional field (D195)', None, {'a.prophy': 'struct X { u32 optional; u8* o; };\n'}, 'a.prophy', 'reject'),
    ('typedef named message (D195)', None, {'a.prophy': 'typedef u16 message;\nstruct X { message m; };\n'}, 'a.prophy', 'reject'),
    ('enumerator named array (D195)', None, {'a.prophy': 'enum Kind { array = 1, other = 2 };\nstruct X { Kind k; u8 f[3]; };\n'}, 'a.prophy', 'reject'),
    ('struct named swap (D195)', None, {'a.prophy': 'struct swap { u8 a; };\nstruct X { swap s; };\n'}, 'a.prophy', 'reject'),
    ('struct named alignment (D195)', None, {'a.prophy': 'struct alignment { u8 a; };\nstruct X { alignment s; u64 b; };\n'}, 'a.prophy', 'reject'),
    ('struct named bool_t (D195)', None, {'a.prophy': 'struct bool_t { u8 a; };\nstruct X { bool_t s; u8* o; };\n'}, 'a.prophy', 'reject'),
    ('fields named like runtime names nothing captures in a member (D195)', None,
     {'a.prophy': 'struct X { u8 swap; u16 align; u32 message; u8 detail; u8 cast; u8 nearest; };\n'}, 'a.prophy', 'usable'),
    ('union arms time and time_t (D195)', None, {'a.prophy': 'union Stamp { 1: u32 time; 2: u64 time_t; };\n'}, 'a.prophy', 'reject'),
    ('union arms time and time_s', None, {'a.prophy': 'union Stamp { 1: u32 time; 2: u64 time_s; };\n'}, 'a.prophy', 'usable'),
    ('isar: member named like the constant its neighbour\'s size uses (D195)', '--isar',
     {'a.xml': ISAR % ('<constant name="MAX_ITEMS" value="3"/><struct name="X"><member name="MAX_ITEMS" type="u8"/>'
                       '<member name="items" type="u16"><dimension size="MAX_ITEMS"/></member></struct>')}, 'a.xml', 'reject'),
    ('isar: member declared after the array whose size uses a constant of its name (D195)', '--isar',
     {'a.xml': ISAR % ('<constant name="MAX_ITEMS" value="3"/><struct name="X"><member name="items" type="u16"><dimension size="MAX_ITEMS"/></member>'
                       '<member name="MAX_ITEMS" type="u32"/></struct>')}, 'a.xml', 'reject'),
    ('isar: array named like the constant its own size uses (D195)', '--isar',
     {'a.xml': ISAR % ('<constant name="LEN" value="3"/><struct name="X"><member name="LEN" type="u16"><dimension size="LEN"/></member></struct>')}, 'a.xml', 'reject'),
    ('isar: limited array whose limit uses a constant named like a later member (D195)', '--isar',
     {'a.xml': ISAR % ('<constant name="ROWS" value="3"/><struct name="G"><member name="n" type="u32"/><member name="cells" type="u16">'
                       '<dimension size="ROWS" isVariableSize="true" variableSizeFieldName="n"/></member><member name="ROWS" type="u16"/></struct>')}, 'a.xml', 'reject'),
    ('isar: union arm named like the constant an earlier arm\'s discriminator uses (D195)', '--isar',
     {'a.xml': ISAR % ('<constant name="KIND_A" value="1"/><union name="U"><member name="a" type="u8" discriminatorValue="KIND_A"/>'
                       '<member name="KIND_A" type="u16" discriminatorValue="2"/></union>')}, 'a.xml', 'reject'),
    ('isar: constant named part2 used as a size in a struct of several blocks (D195)', '--isar',
     {'a.xml': ISAR % ('<constant name="part2" value="3"/><struct name="X"><member name="a" type="u8"><dimension isVariableSize="true"/></member>'
                       '<member name="g" type="u16"><dimension size="part2"/></member></struct>')}, 'a.xml', 'reject'),
    ('isar: constant named _discriminator used as a discriminator value (D195)', '--isar',
     {'a.xml': ISAR % ('<constant name="_discriminator" value="3"/><union name="U"><member name="a" type="u8" discriminatorValue="_discriminator"/>'
                       '<member name="b" type="u16" discriminatorValue="4"/></union>')}, 'a.xml', 'reject'),
    ('isar: constant named part2 that no size uses', '--isar',
     {'a.xml': ISAR % ('<constant name="part2" value="3"/><constant name="LEN" value="part2 + 1"/><struct name="X"><member name="a" type="u8"><dimension isVariableSize="true"/></member>'
                       '<member name="g" type="u16"><dimension size="LEN"/></member></struct>')}, 'a.xml', 'usable'),
    ('isar: included file with a double quote in its name (D196)', '--isar',
     {'a.xml': ISAR % ('<xi:include href=\'b"c.xml\'/><struct name="A"><member name="b" type="B"/></struct>'), 'b"c.xml': ISAR % '<struct name="B"><member name="x" type="u8"/></struct>'},
     'a.xml', 'reject'),
    ('struct named do_decode_resize (D202)', None, {'a.prophy': 'struct do_decode_resize { u8 a; };\nstruct X { do_decode_resize k; u8 f<>; };\n'}, 'a.prophy', 'reject'),
    ('enum named to_literal (D202)', None, {'a.prophy': 'enum to_literal { TL_A = 1 };\nstruct X { to_literal k; };\n'}, 'a.prophy', 'reject'),
    ('enumerator named heap_value (D202)', None, {'a.prophy': 'enum E { heap_value = 1, other = 2 };\nstruct X { E k; u8* o; };\n'}, 'a.prophy', 'reject'),
    ('struct named encode_int (D202)', None, {'a.prophy': 'struct encode_int { u8 a; };\nstruct X { encode_int k; u32 v; };\n'}, 'a.prophy', 'reject'),
    ('union arm named discriminator_a beside arm a (D202)', None, {'a.prophy': 'union U { 1: u8 a; 2: u16 discriminator_a; };\n'}, 'a.prophy', 'reject'),
    ('union arm named discriminator (D202)', None, {'a.prophy': 'union U { 1: u8 discriminator; 2: u16 b; };\n'}, 'a.prophy', 'reject'),
    ('field named get_byte_size (D202)', None, {'a.prophy': 'struct S { u32 get_byte_size; };\n'}, 'a.prophy', 'reject'),
    ('isar: member x10 beside an array of size 0x10 (D202: a hexadecimal literal is not a name)', '--isar',
     {'a.xml': ISAR % ('<struct name="S"><member name="x10" type="u8"/><member name="a" type="u8"><dimension size="0x10"/></member></struct>'
                       '<union name="U"><member name="x1" type="u8" discriminatorValue="0x1"/><member name="b" type="u16" discriminatorValue="0x2"/></union>')},
     'a.xml', 'usable'),
    ('isar: member named like a constant whose name holds 0x10, used as a size (seeded C12-r8)', '--isar',
     {'a.xml': ISAR % ('<constant name="LEN_0x10" value="16"/><struct name="Frame"><member name="LEN_0x10" type="u8"/>'
                       '<member name="data" type="u8"><dimension size="LEN_0x10"/></member></struct>')}, 'a.xml', 'reject'),
    ('isar: union arm named like a constant whose name holds 0x7, used as a discriminator (seeded C12-r8)', '--isar',
     {'a.xml': ISAR % ('<constant name="ID_0x7" value="7"/><union name="U"><member name="a" type="u8" discriminatorValue="ID_0x7"/>'
                       '<member name="ID_0x7" type="u16" discriminatorValue="8"/></union>')}, 'a.xml', 'reject'),
    ('isar: constant MASK0XFF used as a size beside a member of another name', '--isar',
     {'a.xml': ISAR % ('<constant name="MASK0XFF" value="3"/><struct name="S"><member name="XFF" type="u8"/>'
                       '<member name="data" type="u8"><dimension size="MASK0XFF"/></member></struct>')}, 'a.xml', 'usable'),
    ('isar: union arm with a dimension (D201)', '--isar',
     {'a.xml': ISAR % '<union name="U"><member name="a" type="u8" discriminatorValue="1"><dimension size="8"/></member><member name="b" type="u16" discriminatorValue="2"/></union>'},
     'a.xml', 'reject'),
    ('isar: optional union arm (D201)', '--isar',
     {'a.xml': ISAR % '<union name="U"><member name="a" type="u8" discriminatorValue="1"/><member name="b" type="u16" discriminatorValue="2" optional="true"/></union>'},
     'a.xml', 'reject'),
    ('isar: size2 without size (D201)', '--isar',
     {'a.xml': ISAR % '<struct name="S"><member name="a" type="u8"><dimension size2="3"/></member></struct>'}, 'a.xml', 'reject'),
    ('isar: optional="yes" (D201)', '--isar', {'a.xml': ISAR % '<struct name="S"><member name="a" type="u8" optional="yes"/></struct>'}, 'a.xml', 'reject'),
    ('isar: isVariableSize="" (D201)', '--isar',
     {'a.xml': ISAR % '<struct name="S"><member name="a" type="u8"><dimension size="3" isVariableSize=""/></member></struct>'}, 'a.xml', 'reject'),
    ('isar: optional="0" and isVariableSize="FALSE" (D201)', '--isar',
     {'a.xml': ISAR % '<struct name="S"><member name="a" type="u8" optional="0"/><member name="b" type="u8"><dimension size="3" isVariableSize=" FALSE "/></member></struct>'},
     'a.xml', 'usable'),
    ('isar: 0x..E+ inside a name (D188)', '--isar',
     {'a.xml': ISAR % '<constant name="OFFSET_0xE" value="14"/><constant name="NEXT" value="OFFSET_0xE+1"/><struct name="S"><member name="a" type="u8"><dimension size="NEXT"/></member></struct>'},
     'a.xml', 'usable'),
    ('isar: 201 nested parentheses (D188)', '--isar', {'a.xml': ISAR % ('<constant name="K" value="%s3%s"/>' % ('(' * 201, ')' * 201))}, 'a.xml', 'reject'),
    ('isar: 60 nested parentheses', '--isar',
     {'a.xml': ISAR % ('<constant name="K" value="%s3%s"/><struct name="S"><member name="a" type="u8"><dimension size="K"/></member></struct>' % ('(' * 60, ')' * 60))},
     'a.xml', 'usable'),
    ('isar: a sum of 3000 terms (D188)', '--isar', {'a.xml': ISAR % ('<constant name="K" value="%s"/>' % '+'.join(['1'] * 3000))}, 'a.xml', 'reject'),
    ('isar: a tab inside expression text (D181)', '--isar',
     {'a.xml': ISAR % '<constant name="K" value="1&#9;+ 2"/><struct name="S"><member name="x" type="u8"><dimension size="K&#9;+1"/></member></struct>'}, 'a.xml', 'usable'),
    ('isar: a form feed inside expression text', '--isar',
     {'a.xml': ISAR % '<constant name="K" value="1&#12;+ 2"/>'}, 'a.xml', 'reject'),
    ('constant written with a digit of another script (D176)', None, {'a.prophy': 'const A = 1\u0663;\nstruct S { u8 x[A]; };\n'}, 'a.prophy', 'reject'),
    ('constant written with fullwidth digits (D176)', None, {'a.prophy': 'const A = \uff11\uff12;\nstruct S { u8 x[A]; };\n'}, 'a.prophy', 'reject'),
    ('isar: negative enumerator with an underscore (D176)', '--isar',
     {'a.xml': ISAR % '<enum name="E"><enum-member name="E_A" value="-1_0"/></enum>'}, 'a.xml', 'reject'),
    ('isar: negative binary enumerator (D176)', '--isar',
     {'a.xml': ISAR % '<enum name="E"><enum-member name="E_A" value="-0b11"/></enum>'}, 'a.xml', 'reject'),
    ('isar: negative enumerator (kept: two\'s complement)', '--isar',
     {'a.xml': ISAR % '<enum name="E"><enum-member name="E_A" value="-1"/><enum-member name="E_B" value="-0x10"/></enum><struct name="S"><member name="e" type="E"/></struct>'},
     'a.xml', 'usable'),
]


RUNTIME_ILLEGAL = [
    ('discriminator 1.5', ('union', [('a', 'prophy.u8', 0), ('b', 'prophy.u16', 1.5)])),
    ('discriminator 1.0', ('union', [('a', 'prophy.u8', 0), ('b', 'prophy.u16', 1.0)])),
    ('array shift 0.5', ('struct', [('S', [('n', 'prophy.u8'), ('a', 'prophy.array(prophy.u8, bound="n", shift=0.5)')])])),
    ('bytes shift 2.5', ('struct', [('S', [('n', 'prophy.u8'), ('a', 'prophy.bytes(bound="n", shift=2.5)')])])),
    ('array size 2.0', ('struct', [('S', [('a', 'prophy.array(prophy.u8, size=2.0)')])])),
    ('duplicate field names', ('struct', [('S', [('a', 'prophy.u8'), ('a', 'prophy.u16')])])),
    ('duplicate arm names', ('union', [('a', 'prophy.u8', 1), ('a', 'prophy.u16', 2)])),
    ('duplicate discriminators', ('union', [('a', 'prophy.u8', 1), ('b', 'prophy.u16', 1)])),
    ('discriminator above 32 bits', ('union', [('a', 'prophy.u8', 2 ** 32)])),
    ('negative discriminator', ('union', [('a', 'prophy.u8', -1)])),
    ('negative array size', ('struct', [('S', [('a', 'prophy.array(prophy.u8, size=-3)')])])),
    ('negative bytes size', ('struct', [('S', [('a', 'prophy.bytes(size=-3)')])])),
    ('negative shift', ('struct', [('S', [('n', 'prophy.u8'), ('a', 'prophy.array(prophy.u8, bound="n", shift=-1)')])])),
    ('optional of optional', ('struct', [('S', [('o', 'prophy.optional(prophy.optional(prophy.u8))')])])),
]


def directed_case(root, k, opt, files, main):
    """(outcome, message, unusable back-ends) of one directed multi-file / isar case"""
    import prophyc
    from harness.checks import files as F
    d = os.path.join(root, 'd%d' % k)
    os.makedirs(d)
    python_only = bool(files.pop('__python_only__', None))
    for name, text in files.items():
        os.makedirs(os.path.dirname(os.path.join(d, name)), exist_ok=True)
        with open(os.path.join(d, name), 'w') as f:
            f.write(text)
    out = os.path.join(d, 'out')
    os.makedirs(out)
    if isinstance(opt, list):
        opt = [opt[0], os.path.join(d, opt[1])]
    args = (opt if isinstance(opt, list) else [opt] if opt else []) + ['-I', d, '--python_out', out] + ([] if python_only else ['--cpp_full_out', out, '--cpp_out', out])
    sources = [n for n in files if not n.endswith('.patch') and '/' not in n]
    leaves = [os.path.splitext(n)[0] for n in sources]
    try:
        for name in sources:
            py_impl.run_prophyc(args + [os.path.join(d, name)])
    except prophyc.ProphycError as e:
        return 'ProphycError', str(e), {}
    except Exception as e:  # noqa
        return type(e).__name__, str(e)[:300], {}
    bad = {}
    try:
        F.import_package(out, leaves)
    except Exception as e:  # noqa
        bad['python'] = '%s: %s' % (type(e).__name__, str(e)[:200])
    base = os.path.splitext(main)[0]
    for key, src in (() if python_only else (('cpp_full', base + '.ppf.cpp'), ('cpp_raw', base + '.pp.cpp'))):
        p = subprocess.run(['g++', '-std=c++11', '-fsyntax-only', '-I' + os.path.join(REPO, 'prophy_cpp', 'include'), '-I' + out, os.path.join(out, src)],
                           stdout=subprocess.PIPE, stderr=subprocess.STDOUT, timeout=300)
        if p.returncode != 0:
            bad[key] = p.stdout.decode(errors='replace')[:400]
    return 'ok', '', bad


def trees_of(sc, isar=False):
    from harness.gen import isar as I
    out = []
    for n in S.type_names(sc) + [d.name for d in sc.decls if isinstance(d, S.Enum)]:
        try:
            out.append(S.tree(sc, n, I.isar_sizer) if isar else S.tree(sc, n))
        except Exception:  # noqa  (a tree cannot be built for e.g. an unresolved reference)
            out.append(None)
    return out


def scan_correspondence(chk):
    """the scan of names in size / discriminator expressions (`check_cpp_names`): the regular expression of the source, applied to
    expression texts, finds what `NameScan.scan` finds (theorem C12_scan_is_calc_names: these are the names calc resolves)"""
    src = open(os.path.join(REPO, 'prophyc', 'generators', 'base.py')).read()
    m = re.search(r'for name in re\.findall\(r"([^"]+)", " "\.join\(', src)
    if not m:
        chk.correspondence_mismatch('NameScan.scan = the names check_cpp_names collects', {'source': 'prophyc/generators/base.py'},
                                    'the re.findall over the expression texts was not found', None)
        return
    pattern = m.group(1)
    rng = chk.rng
    texts = ['0x10', 'LEN_0x10 + x10', '(K+1)*shift_2', 'A', '_a1 + b_2*C3', '0xFF + xFF', 'MASK0XFF|0x0f', '1+K', 'K1 << 2', '(A)', 'a b', '10 + abc', '0xA*xA',
             'E_First - 2', 'numOf_x', 'x', '0x1 + x1', 'ID_0x7', '0X10']
    atoms = ['K', 'x10', 'LEN_0x10', '0x10', '0xAb', '17', '0', 'a_b', '_t', 'MAX', 'xFF', 'MASK0XFF', 'e', '0xe', 'E1']
    for _ in range(chk.scale(150, 1500)):
        parts = [rng.choice(atoms)]
        for _ in range(rng.randint(0, 4)):
            parts.append(rng.choice([' + ', '+', ' - ', '*', ' / ', ' << ', '|', ' * (', ') + ']))
            parts.append(rng.choice(atoms))
        texts.append(''.join(parts))
    ans = client.batch([{'op': 'name_scan', 'text': t} for t in texts])
    for text, a in zip(texts, ans):
        chk.corr_compared += 1
        chk.count(('name-scan', text), bool(re.search(r'0[xX]', text)))
        chk.bump('name-scan')
        impl = re.findall(pattern, text)
        if impl != a['names']:
            chk.correspondence_mismatch('NameScan.scan = the names check_cpp_names collects', {'text': text, 'pattern': pattern}, impl, a['names'])


def run_c12(tier):
    chk = core.Check('C12', tier)
    chk.rule = ('valid generated schemas (all three back-ends requested; Python import; g++ -fsyntax-only on the generated C++ full and raw '
                'sources) and schemas derived from them by ONE rule-breaking edit per documented composability rule (unlimited not last / '
                'in arrays, dynamic or unlimited in fixed or limited arrays, optionals and union arms, sizer missing / after / optional / '
                'non-integer / array, duplicate names and discriminators, non-positive sizes, values outside 32 bits); a case = one schema; '
                'non-trivial = edited schema.')
    chk.lean = core.lean_obligations('C12', thorough=(tier == 'thorough'))
    root = tempfile.mkdtemp(prefix='prophy-verif-')
    try:
        reqs, rows = [], []
        ireqs, irows = [], []
        n = 0
        for si in range(chk.scale(24, 120)):
            sc = S.Gen(chk.rng, n_decls=7, shared_sizers=False).schema()
            text = S.to_prophy(sc)
            d = os.path.join(root, 'v%d' % si)
            outcome, msg = compile_all(text, d)
            casej = {'schema': text, 'rule': None}
            chk.count((text,), False)
            chk.bump('valid')
            if outcome != 'ok':
                chk.property_violation(casej, {'what': 'a valid schema was rejected: %s %s' % (outcome, msg[:300])})
            else:
                be = backends(d)
                bad = {k: v for k, v in be.items() if v}
                if bad:
                    chk.property_violation(casej, {'what': 'prophyc succeeded but a generated artifact is unusable', 'backends': bad})
            trees = trees_of(sc)
            if all(t is not None for t in trees):
                rows.append((casej, outcome == 'ok', None))
                reqs.append([{'op': 'accepts', 't': t} for t in trees])
            # the same valid schema through the isar front-end
            idir = os.path.join(root, 'iv%d' % si)
            ioutcome, imsg = compile_isar_all(sc, idir)
            icase = {'schema': text, 'front_end': 'isar (+patch)', 'rule': None}
            chk.count(('isar', text), False)
            chk.bump('valid:isar')
            itrees = trees_of(sc, isar=True)
            if all(t is not None for t in itrees) and 'Duplicate Enum value' not in imsg:
                irows.append((icase, ioutcome == 'ok'))
                ireqs.append([{'op': 'accepts', 't': t} for t in itrees])
            if ioutcome != 'ok':
                chk.property_violation(icase, {'what': 'a valid schema was rejected by the isar front-end: %s %s' % (ioutcome, imsg[:300])}, classify_isar)
            else:
                bad = {k: v for k, v in backends(idir).items() if v}
                if bad:
                    chk.property_violation(icase, {'what': 'prophyc --isar succeeded but a generated artifact is unusable', 'backends': bad}, classify_isar)
            shutil.rmtree(idir, ignore_errors=True)
            for rule, e in edits(chk.rng, sc):
                etext = S.to_prophy(e)
                ed = os.path.join(root, 'e%d' % n)
                n += 1
                outcome, msg = compile_all(etext, ed)
                ecase = {'schema': etext, 'rule': rule}
                chk.count((etext,), True)
                chk.bump('edit:' + rule)
                chk.sample({'rule': rule, 'schema_tail': etext[-300:], 'outcome': outcome, 'message': msg[:200]}, limit=4)
                if outcome == 'ok':
                    chk.property_violation(ecase, {'what': "rule breaker '%s' was accepted by prophyc" % rule, 'backends': backends(ed)})
                elif outcome != 'ProphycError':
                    chk.property_violation(ecase, {'what': "rule breaker '%s' ended in %s instead of a diagnostic" % (rule, outcome), 'message': msg})
                trees = trees_of(e)
                if all(t is not None for t in trees) and 'duplicate type name' not in rule and 'across enums' not in rule:
                    rows.append((ecase, outcome == 'ok', None))
                    reqs.append([{'op': 'accepts', 't': t} for t in trees])
                shutil.rmtree(ed, ignore_errors=True)
                # the rule breaker through the isar front-end: the model-level validation has to refuse it as well
                if rule not in ISAR_INEXPRESSIBLE:
                    ioutcome, imsg = compile_isar_all(e, ed + 'i')
                    chk.count(('isar', etext), True)
                    chk.bump('edit:isar:' + rule)
                    itrees = trees_of(e, isar=True)
                    if all(t is not None for t in itrees) and 'duplicate type name' not in rule and 'across enums' not in rule and 'Duplicate Enum value' not in imsg:
                        irows.append((dict(ecase, front_end='isar (+patch)'), ioutcome == 'ok'))
                        ireqs.append([{'op': 'accepts', 't': t} for t in itrees])
                    if ioutcome == 'ok':
                        chk.property_violation(dict(ecase, front_end='isar (+patch)'), {'what': "rule breaker '%s' was accepted by prophyc --isar" % rule,
                                                                                          'backends': backends(ed + 'i')})
                    elif ioutcome != 'ProphycError':
                        chk.property_violation(dict(ecase, front_end='isar (+patch)'), {'what': "rule breaker '%s' ended in %s instead of a diagnostic" % (rule, ioutcome), 'message': imsg})
                    shutil.rmtree(ed + 'i', ignore_errors=True)
            shutil.rmtree(d, ignore_errors=True)
        # reserved identifiers (known finding D40)
        for word in chk.scale(RESERVED[:4] + ['has_x', 'parameter_x'], RESERVED + ['has_x', 'parameter_x']):
            text = ('struct %s { u8 a; };\n' % word if word == 'E' else
                    'enum Axis { x = 0, y = 1 };\nstruct Rsv { Axis a; };\n' if word == 'parameter_x' else   # `case x:` in a function with a parameter x

                    'struct Rsv { u8* x; u32 has_x; };\n' if word == 'has_x' else          # collides with the generated flag member
                    'struct Rsv { u8 %s; };\n' % word)
            d = os.path.join(root, 'r' + word)
            outcome, msg = compile_all(text, d)
            rcase = {'schema': text, 'rule': 'identifier reserved in a target language'}
            chk.count((text,), True)
            chk.bump('reserved-identifier')
            if outcome == 'ok':
                bad = {k: v for k, v in backends(d).items() if v}
                if bad:
                    chk.property_violation(rcase, {'what': 'prophyc succeeded but a generated artifact is unusable', 'backends': {k: v[:150] for k, v in bad.items()}}, classify_c12)
        # every identifier of the shipped headers as a type name and as an enumerator: refused, or every back-end is usable (the lists
        # CPP_*_RUNTIME_NAMES were found incomplete three times by auditors; names the C library declares globally are D40)
        idents = header_identifiers()
        picked = idents if tier == 'thorough' else sorted(chk.rng.sample(idents, min(5, len(idents))) + ['memcpy'])
        chk.bump('header identifiers known', len(idents))
        for name in picked:
            for role, text in (('type', 'struct %s { u8 a; };\nstruct X_ { %s k; u8 f<>; };\nstruct Y_ { %s* o; u32 g[2]; };\n' % (name, name, name)),
                               ('enumerator', 'enum E_ { %s = 1, E_other = 2 };\nstruct Y_ { E_ e; u8 f<>; };\nunion U_ { %s: u8 a; E_other: u16 b; };\n' % (name, name))):
                d = os.path.join(root, 'hid_%s_%s' % (name, role))
                outcome, msg = compile_all(text, d)
                chk.count(('header-identifier', name, role), True)
                chk.bump('header-identifier:' + ('accepted' if outcome == 'ok' else 'refused'))
                if outcome == 'ok':
                    bad = {k: v for k, v in backends(d).items() if v}
                    if bad:
                        hcase = {'schema': text, 'rule': 'identifier of the C++ runtime headers', 'name': name, 'c_library': declared_by_the_c_library(name, d)}
                        chk.property_violation(hcase, {'what': 'prophyc succeeded but a generated artifact is unusable', 'backends': {k: v[:150] for k, v in bad.items()}},
                                               classify_c12)
                elif outcome != 'ProphycError':
                    chk.property_violation({'schema': text, 'rule': 'identifier of the C++ runtime headers'}, {'what': 'ended in %s instead of a diagnostic' % outcome, 'message': msg})
                shutil.rmtree(d, ignore_errors=True)
        scan_correspondence(chk)
        # directed multi-file and isar schemas (defects D56..: built-in names, redefinition through includes, isar ranges)
        for k, (rule, opt, files, main, expected) in enumerate(DIRECTED):
            outcome, msg, bad = directed_case(root, k, opt, dict(files, **({'__python_only__': '1'} if rule.startswith('python only:') else {})), main)
            dcase = {'files': files, 'main': main, 'option': opt, 'rule': rule}
            chk.count((rule,), True)
            chk.bump('directed:' + expected)
            if outcome not in ('ok', 'ProphycError'):
                chk.property_violation(dcase, {'what': "'%s' ended in %s instead of outputs or a diagnostic" % (rule, outcome), 'message': msg})
            elif expected == 'reject' and outcome == 'ok':
                chk.property_violation(dcase, {'what': "rule breaker '%s' was accepted by prophyc" % rule, 'backends': bad})
            elif expected == 'usable' and outcome != 'ok':
                chk.property_violation(dcase, {'what': "a valid schema was rejected ('%s'): %s" % (rule, msg[:300])})
            elif bad:
                chk.property_violation(dcase, {'what': 'prophyc succeeded but a generated artifact is unusable', 'backends': bad}, classify_c12)
        # the runtime refuses in hand-written descriptors what prophyc refuses in schemas ("never disagree on legality": D83)
        import prophy
        from harness.checks.pycodec import handwritten
        for rule, desc in RUNTIME_ILLEGAL:
            chk.count(('runtime', rule), True)
            chk.bump('directed:runtime-illegal')
            try:
                if desc[0] == 'union':
                    base = prophy.with_metaclass(prophy.union_generator, prophy.union)
                    type(base)('U', (base,), {'_descriptor': [(n, eval(t, {'prophy': prophy}), dv) for n, t, dv in desc[1]]})    # noqa: S307
                else:
                    handwritten(desc[1])
                chk.property_violation({'rule': rule, 'descriptor': repr(desc)}, {'what': "the Python runtime accepted a descriptor that breaks '%s'" % rule})
            except prophy.ProphyError:
                pass
            except Exception as ex:  # noqa
                chk.property_violation({'rule': rule, 'descriptor': repr(desc)}, {'what': '%s instead of ProphyError: %s' % (type(ex).__name__, str(ex)[:200])})
        flat = [r for group in reqs for r in group]
        ans = client.batch(flat)
        k = 0
        for (casej, accepted, _), group in zip(rows, reqs):
            a = ans[k:k + len(group)]
            k += len(group)
            model_front = all(x['front'] for x in a)
            chk.corr_compared += 1
            if model_front != accepted:
                chk.correspondence_mismatch('Accept.front = prophyc accepts the schema', casej, accepted, {'front': [x['front'] for x in a]})
        # the model-level validation (every front-end): Accept.model of the trees the isar rendering denotes = prophyc --isar accepts
        ians = client.batch([r for group in ireqs for r in group])
        k = 0
        for (casej, accepted), group in zip(irows, ireqs):
            a = ians[k:k + len(group)]
            k += len(group)
            chk.corr_compared += 1
            if all(x['model'] for x in a) != accepted:
                chk.correspondence_mismatch('Accept.model = prophyc --isar accepts the schema', casej, accepted, {'model': [x['model'] for x in a]})
    finally:
        shutil.rmtree(root, ignore_errors=True)
    return chk.finish()

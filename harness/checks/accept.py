"""
C12: whatever prophyc accepts, every back-end can realise; rule breakers are rejected.

(a) valid generated schemas: prophyc must succeed with all three back-ends, the Python module must
    import, the C++ full and raw sources must compile (g++ -fsyntax-only against the shipped headers);
(b) one rule-breaking edit per documented composability rule applied to valid schemas: prophyc must
    reject each with a diagnostic (and if it accepts, the back-ends are tried to show the consequence);
(c) the accept / reject decision of the real front-end vs the Lean model `Accept.front`, and - for
    accepted schemas - the import of the generated module vs `Accept.pyRt`.
"""
import copy
import os
import shutil
import subprocess
import tempfile

from harness import core
from harness.gen import schema as S
from harness.impl import py_impl
from harness.model import client

REPO = py_impl.REPO


def compile_all(text, d, base='a'):
    """(outcome, message): 'ok' | 'ProphycError' | other exception class"""
    import prophyc
    os.makedirs(d, exist_ok=True)
    src = os.path.join(d, base + '.prophy')
    with open(src, 'w') as f:
        f.write(text)
    try:
        py_impl.run_prophyc(['--python_out', d, '--cpp_full_out', d, '--cpp_out', d, src])
        return 'ok', ''
    except prophyc.ProphycError as e:
        return 'ProphycError', str(e)
    except Exception as e:  # noqa
        return type(e).__name__, str(e)[:300]


def backends(d, base='a'):
    """{'python': None | error, 'cpp_full': None | error, 'cpp_raw': None | error}"""
    out = {}
    try:
        py_impl.import_file(os.path.join(d, base + '.py'))
        out['python'] = None
    except Exception as e:  # noqa
        out['python'] = '%s: %s' % (type(e).__name__, str(e)[:200])
    for key, src in (('cpp_full', base + '.ppf.cpp'), ('cpp_raw', base + '.pp.cpp')):
        p = subprocess.run(['g++', '-std=c++11', '-fsyntax-only', '-I' + os.path.join(REPO, 'prophy_cpp', 'include'), '-I' + d, os.path.join(d, src)],
                           stdout=subprocess.PIPE, stderr=subprocess.STDOUT, timeout=300)
        out[key] = None if p.returncode == 0 else p.stdout.decode(errors='replace')[:400]
    return out


# ----------------------------------------------------------------------------- rule-breaking edits

def find_struct(sc, pred):
    c = [d for d in sc.decls if isinstance(d, S.Struct) and pred(d)]
    return c


def edits(rng, sc):
    """yield (rule, edited schema) - each derived from the valid schema by one rule-breaking edit"""
    structs = [d for d in sc.decls if isinstance(d, S.Struct)]
    unions = [d for d in sc.decls if isinstance(d, S.Union)]
    enums = [d for d in sc.decls if isinstance(d, S.Enum)]
    dyn_types = [d.name for d in structs if S.struct_kind(sc, d) == S.DYNAMIC]
    unl_types = [d.name for d in structs if S.struct_kind(sc, d) == S.UNLIMITED]

    def with_struct(name, members, at_end=True):
        e = copy.deepcopy(sc)
        e.decls.append(S.Struct(name, members))
        return e

    if dyn_types:
        t = rng.choice(dyn_types)
        yield 'dynamic type in fixed array', with_struct('Brk', [S.Member('x', t, 'fixed', size=2)])
        yield 'dynamic type in limited array', with_struct('Brk', [S.Member('x', t, 'limited', size=2)])
        yield 'dynamic type optional', with_struct('Brk', [S.Member('x', t, 'optional')])
        e = copy.deepcopy(sc)
        e.decls.append(S.Union('BrkU', [('a', 1, t)]))
        yield 'dynamic type in union arm', e
    if unl_types:
        t = rng.choice(unl_types)
        yield 'unlimited type not last', with_struct('Brk', [S.Member('x', t), S.Member('y', 'u8')])
        yield 'unlimited type in dynamic array', with_struct('Brk', [S.Member('x', t, 'dyn')])
        yield 'unlimited type in greedy array', with_struct('Brk', [S.Member('x', t, 'greedy')])
        yield 'unlimited type in fixed array', with_struct('Brk', [S.Member('x', t, 'fixed', size=2)])
        yield 'unlimited type optional', with_struct('Brk', [S.Member('x', t, 'optional')])
        e = copy.deepcopy(sc)
        e.decls.append(S.Union('BrkU', [('a', 1, t)]))
        yield 'unlimited type in union arm', e
    yield 'greedy array not last', with_struct('Brk', [S.Member('g', 'u8', 'greedy'), S.Member('t', 'u16')])
    yield 'sizer missing', with_struct('Brk', [S.Member('x', 'u8', 'dynext', sizer='nope')])
    yield 'sizer after its array', with_struct('Brk', [S.Member('x', 'u8', 'dynext', sizer='n'), S.Member('n', 'u32')])
    yield 'sizer optional', with_struct('Brk', [S.Member('n', 'u32', 'optional'), S.Member('x', 'u8', 'dynext', sizer='n')])
    yield 'sizer not an integer', with_struct('Brk', [S.Member('n', 'r32'), S.Member('x', 'u8', 'dynext', sizer='n')])
    yield 'sizer is an array', with_struct('Brk', [S.Member('n', 'u8', 'fixed', size=2), S.Member('x', 'u8', 'dynext', sizer='n')])
    yield 'sizer is a dynamic array', with_struct('Brk', [S.Member('k', 'u8'), S.Member('n', 'u8', 'dynext', sizer='k'), S.Member('x', 'u16', 'dynext', sizer='n')])
    yield 'sizer is a limited array', with_struct('Brk', [S.Member('n', 'u8', 'limited', size=2), S.Member('x', 'u16', 'dynext', sizer='n')])
    yield 'sizer is an implicitly counted array', with_struct('Brk', [S.Member('n', 'u8', 'dyn'), S.Member('x', 'u16', 'dynext', sizer='n')])
    yield 'sizer is a greedy array', with_struct('Brk', [S.Member('x', 'u16', 'dynext', sizer='n'), S.Member('n', 'u8', 'greedy')])
    yield 'sizer is bytes', with_struct('Brk', [S.Member('n', 'byte', 'fixed', size=2), S.Member('x', 'u16', 'dynext', sizer='n')])
    yield 'sizer is an enum', with_struct('Brk', [S.Member('n', enums[0].name if enums else 'u8') if enums else S.Member('n', 'r64'), S.Member('x', 'u16', 'dynext', sizer='n')])
    if structs:
        st = rng.choice(structs)
        yield 'sizer is a struct', with_struct('Brk', [S.Member('n', st.name), S.Member('x', 'u8', 'dynext', sizer='n')]) if S.struct_kind(sc, st) == S.FIXED else with_struct('Brk', [S.Member('n', 'r64'), S.Member('x', 'u8', 'dynext', sizer='n')])
        # duplicate field name inside an existing struct
        e = copy.deepcopy(sc)
        tgt = next(d for d in e.decls if d.name == st.name)
        tgt.members.insert(0, S.Member(tgt.members[-1].name, 'u8'))
        yield 'duplicate field name', e
        e = copy.deepcopy(sc)
        e.decls.append(S.Struct(st.name, [S.Member('z', 'u8')]))
        yield 'duplicate type name', e
    yield 'non-positive array size', with_struct('Brk', [S.Member('x', 'u8', 'fixed', size=0)])
    yield 'non-positive array limit', with_struct('Brk', [S.Member('x', 'u8', 'limited', size=0)])
    e = copy.deepcopy(sc)
    e.decls.append(S.Union('BrkU', [('a', 1, 'u8'), ('b', 1, 'u16')]))
    yield 'duplicate discriminator', e
    e = copy.deepcopy(sc)
    e.decls.append(S.Union('BrkU', [('a', 1, 'u8'), ('a', 2, 'u16')]))
    yield 'duplicate arm name', e
    e = copy.deepcopy(sc)
    e.decls.append(S.Union('BrkU', [('a', 2 ** 32, 'u8')]))
    yield 'discriminator outside 32 bits', e
    e = copy.deepcopy(sc)
    e.decls.append(S.Enum('BrkE', [('BrkE_a', 2 ** 32)]))
    yield 'enumerator outside 32 bits', e
    e = copy.deepcopy(sc)
    e.decls.append(S.Enum('BrkE', [('BrkE_a', 1), ('BrkE_a', 2)]))
    yield 'duplicate enumerator name', e
    if enums:
        e = copy.deepcopy(sc)
        e.decls.append(S.Enum('BrkE', [(enums[0].members[0][0], 3)]))
        yield 'enumerator name used twice across enums', e


RESERVED = ['class', 'delete', 'new', 'template', 'namespace', 'E', 'None', 'def', 'import', 'lambda']


def classify_c12(case, detail):
    """D40: identifiers that are reserved in a target language (or `E`, the template parameter of the generated C++)"""
    if case.get('rule') == 'identifier reserved in a target language':
        return 'D40'
    return None


def trees_of(sc):
    out = []
    for n in S.type_names(sc) + [d.name for d in sc.decls if isinstance(d, S.Enum)]:
        try:
            out.append(S.tree(sc, n))
        except Exception:  # noqa  (a tree cannot be built for e.g. an unresolved reference)
            out.append(None)
    return out


def run_c12(tier):
    chk = core.Check('C12', tier)
    chk.rule = ('valid generated schemas (all three back-ends requested; Python import; g++ -fsyntax-only on the generated C++ full and raw '
                'sources) and schemas derived from them by ONE rule-breaking edit per documented composability rule (unlimited not last / '
                'in arrays, dynamic or unlimited in fixed or limited arrays, optionals and union arms, sizer missing / after / optional / '
                'non-integer / array, duplicate names and discriminators, non-positive sizes, values outside 32 bits); a case = one schema; '
                'non-trivial = edited schema.')
    chk.lean = core.lean_obligations('C12', thorough=(tier == 'thorough'))
    root = tempfile.mkdtemp(prefix='prophy-verif-')
    try:
        reqs, rows = [], []
        n = 0
        for si in range(chk.scale(24, 120)):
            sc = S.Gen(chk.rng, n_decls=7, shared_sizers=False, small_discs=True).schema()
            text = S.to_prophy(sc)
            d = os.path.join(root, 'v%d' % si)
            outcome, msg = compile_all(text, d)
            casej = {'schema': text, 'rule': None}
            chk.count((text,), False)
            chk.bump('valid')
            if outcome != 'ok':
                chk.property_violation(casej, {'what': 'a valid schema was rejected: %s %s' % (outcome, msg[:300])})
            else:
                be = backends(d)
                bad = {k: v for k, v in be.items() if v}
                if bad:
                    chk.property_violation(casej, {'what': 'prophyc succeeded but a generated artifact is unusable', 'backends': bad})
            trees = trees_of(sc)
            if all(t is not None for t in trees):
                rows.append((casej, outcome == 'ok', None))
                reqs.append([{'op': 'accepts', 't': t} for t in trees])
            for rule, e in edits(chk.rng, sc):
                etext = S.to_prophy(e)
                ed = os.path.join(root, 'e%d' % n)
                n += 1
                outcome, msg = compile_all(etext, ed)
                ecase = {'schema': etext, 'rule': rule}
                chk.count((etext,), True)
                chk.bump('edit:' + rule)
                chk.sample({'rule': rule, 'schema_tail': etext[-300:], 'outcome': outcome, 'message': msg[:200]}, limit=4)
                if outcome == 'ok':
                    chk.property_violation(ecase, {'what': "rule breaker '%s' was accepted by prophyc" % rule, 'backends': backends(ed)})
                elif outcome != 'ProphycError':
                    chk.property_violation(ecase, {'what': "rule breaker '%s' ended in %s instead of a diagnostic" % (rule, outcome), 'message': msg})
                trees = trees_of(e)
                if all(t is not None for t in trees) and 'duplicate type name' not in rule and 'across enums' not in rule:
                    rows.append((ecase, outcome == 'ok', None))
                    reqs.append([{'op': 'accepts', 't': t} for t in trees])
                shutil.rmtree(ed, ignore_errors=True)
            shutil.rmtree(d, ignore_errors=True)
        # reserved identifiers (known finding D40)
        for word in chk.scale(RESERVED[:4] + ['has_x'], RESERVED + ['has_x']):
            text = ('struct %s { u8 a; };\n' % word if word == 'E' else
                    'struct Rsv { u8* x; u32 has_x; };\n' if word == 'has_x' else          # collides with the generated flag member
                    'struct Rsv { u8 %s; };\n' % word)
            d = os.path.join(root, 'r' + word)
            outcome, msg = compile_all(text, d)
            rcase = {'schema': text, 'rule': 'identifier reserved in a target language'}
            chk.count((text,), True)
            chk.bump('reserved-identifier')
            if outcome == 'ok':
                bad = {k: v for k, v in backends(d).items() if v}
                if bad:
                    chk.property_violation(rcase, {'what': 'prophyc succeeded but a generated artifact is unusable', 'backends': {k: v[:150] for k, v in bad.items()}}, classify_c12)
        flat = [r for group in reqs for r in group]
        ans = client.batch(flat)
        k = 0
        for (casej, accepted, _), group in zip(rows, reqs):
            a = ans[k:k + len(group)]
            k += len(group)
            model_front = all(x['front'] for x in a)
            chk.corr_compared += 1
            if model_front != accepted:
                chk.correspondence_mismatch('Accept.front = prophyc accepts the schema', casej, accepted, {'front': [x['front'] for x in a]})
    finally:
        shutil.rmtree(root, ignore_errors=True)
    return chk.finish()

"""
C04: prophyc's computed layout (real `prophyc.main()` nodes) vs the wire rules (Spec) and vs the
Python runtime's statics; correspondence of the Lean model of prophyc/model.py evaluate_sizes.
"""
from harness import core
from harness.gen import values as V
from harness.model import client
from harness.checks.pycorpus import Corpus
from harness.checks.pycodec import encode_impl, statics_impl, check_statics


def find_node(nodes, name):
    for n in nodes:
        if getattr(n, 'name', None) == name and hasattr(n, 'members') and hasattr(n, 'byte_size'):
            return n
    return None


def node_impl(node):
    out = {'size': node.byte_size, 'align': node.alignment, 'kind': node.kind}
    import prophyc.model as M
    if isinstance(node, M.Struct):
        out['members'] = [{'size': m.byte_size, 'align': m.alignment, 'padding': m.padding} for m in node.members]
    else:
        out['members'] = [{'size': m.byte_size, 'align': m.alignment} for m in node.members]
    return out


def length_by_paddings(lens, paddings):
    """how the C++ generators consume member.padding: >=0 adds bytes, <0 aligns to |p|"""
    off = 0
    for n, p in zip(lens, paddings):
        off += n
        if p < 0:
            off += (-p - off % -p) % -p
        else:
            off += p
    return off


def run_c04(tier):
    chk = core.Check('C04', tier)
    chk.rule = ('every struct/union of the generated schemas (+ hand-made corpus), compiled by the real prophyc: node byte_size / '
                'alignment / kind and per-member byte_size / alignment / padding from prophyc.main(); _SIZE/_ALIGNMENT/_DYNAMIC/'
                '_UNLIMITED of the generated Python class; Spec layout from the Lean driver; for random values the message length '
                'implied by the signed paddings vs the length of the canonical encoding; len(encode()) of fixed types. '
                'A case = one type (layout) or one (type, value) (lengths); non-trivial = type with >= 2 members or a value with a dynamic part.')
    chk.lean = core.lean_obligations('C04', thorough=(tier == 'thorough'))
    corpus = Corpus(chk, chk.scale(250, 2500), dict(n_decls=8))
    try:
        check_statics(chk, corpus)
        reqs = corpus.deft_requests()
        nd = len(reqs)
        rows = []
        for c in corpus.types:
            node = find_node(corpus.nodes[c.sidx], c.name)
            if node is None:
                raise core.Infra('node %s not found in prophyc output' % c.name)
            vals = [V.default_value(c.tree)] + [V.gen_value(chk.rng, c.tree) for _ in range(chk.scale(2, 4))]
            rows.append((c, node_impl(node), vals))
            reqs.append({'op': 'prophyc_layout', 't': c.tid})
            reqs.append({'op': 'spec_layout', 't': c.tid})
            for v in vals:
                reqs.append({'op': 'spec_member_lens', 't': c.tid, 'v': v})
        ans = client.batch(reqs)[nd:]
        k = 0
        for c, impl, vals in rows:
            model, spec = ans[k], ans[k + 1]
            k += 2
            casej = {'schema': c.text, 'type': c.name}
            chk.count(('layout', c.tree), len(c.tree.get('ms', c.tree.get('arms', []))) >= 2)
            chk.sample({'type': c.name, 'prophyc': impl, 'spec': spec, 'python': statics_impl(c.cls)})
            # correspondence: model of evaluate_sizes
            chk.corr_compared += 1
            if impl != model:
                chk.correspondence_mismatch('PL.nodeTy/structMembers = prophyc.main() node attributes', casej, impl, model)
            # property: prophyc vs wire rules
            spec_kind = 2 if spec['unl'] else 1 if spec['dyn'] else 0
            if (impl['size'], impl['align'], impl['kind']) != (spec['size'], spec['align'], spec_kind):
                chk.property_violation(casej, {'what': 'prophyc (byte_size, alignment, kind) differs from the documented layout rules',
                                               'prophyc': [impl['size'], impl['align'], impl['kind']],
                                               'spec': [spec['size'], spec['align'], spec_kind]})
            # property: Python statics vs wire rules
            py = statics_impl(c.cls)
            py_kind = 2 if py['unl'] else 1 if py['dyn'] else 0
            if py['align'] != spec['align'] or py_kind != spec_kind or (spec_kind == 0 and py['size'] != spec['size']):
                chk.property_violation(casej, {'what': 'Python _ALIGNMENT/_DYNAMIC/_UNLIMITED (and _SIZE of a fixed type) differ from the documented layout rules',
                                               'python': py, 'spec': spec})
            for v in vals:
                lens = ans[k]
                k += 1
                vcase = dict(casej, value=v)
                chk.count(('len', c.tree, v), spec_kind != 0)
                if c.tree['k'] == 'struct' and any(m['padding'] is None for m in impl['members']):
                    # prophyc left a layout attribute unknown for a type the wire rules size: a violation, not a crash of the check
                    chk.property_violation(vcase, {'what': 'prophyc left the padding of a member unknown (None) for a type the layout rules size',
                                                   'paddings': [m['padding'] for m in impl['members']], 'canonical': lens['total']})
                elif c.tree['k'] == 'struct':
                    got = length_by_paddings(lens['lens'], [m['padding'] for m in impl['members']])
                    if got != lens['total']:
                        chk.property_violation(vcase, {'what': 'length implied by prophyc member paddings differs from the canonical encoding length',
                                                       'by_paddings': got, 'canonical': lens['total'], 'member_lens': lens['lens'],
                                                       'paddings': [m['padding'] for m in impl['members']]})
                if spec_kind == 0:
                    _, enc = encode_impl(c, v, '<')
                    if 'bytes' not in enc or len(enc['bytes']) // 2 != impl['size']:
                        chk.property_violation(vcase, {'what': 'encoding of a fixed type does not have the computed size',
                                                       'encoded': enc, 'byte_size': impl['size']})
    finally:
        corpus.close()
    return chk.finish()

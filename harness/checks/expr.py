"""
C14: constant expressions denote one integer, the same in every back-end.
Random well-formed expression trees rendered in prophy (and isar) syntax, compiled by the real
prophyc: values held by the model nodes, by the generated Python module, and by the generated C++
headers (static_assert under g++), vs. integer arithmetic on the tree (Lean `Expr.eval`, the
property oracle) and vs. the Lean model of the tokenizer/parser/evaluator (correspondence).
"""
import os
import re
import shutil
import subprocess
import tempfile

from harness import core
from harness.gen import exprs
from harness.impl import py_impl
from harness.model import client

REPO = py_impl.REPO


def build_schema(rng, n_consts, ops, octal=True):
    """constants, an enum, array sizes and discriminators, each defined by a random expression"""
    env = {}
    items = []   # (kind, name, tree, text, expected)
    lines = []
    for i in range(n_consts):
        name = 'K%d' % i
        t, v = exprs.gen_tree(rng, env, depth=rng.randint(1, 4), ops=ops, bound=1 << 62)
        text = exprs.render(rng, t, octal=octal)
        lines.append('const %s = %s;' % (name, text))
        items.append(('const', name, t, text, v, dict(env)))
        env[name] = v
    # enumerators: 32-bit unsigned, distinct
    enum_lines, used = [], set()
    for i in range(3):
        name = 'E_%d' % i
        t, v = exprs.gen_tree(rng, env, depth=2, want_nonneg=True, ops=ops, bound=1 << 31)
        if v in used:
            continue
        used.add(v)
        text = exprs.render(rng, t, octal=octal)
        enum_lines.append('    %s = %s' % (name, text))
        items.append(('enumerator', name, t, text, v, dict(env)))
        env[name] = v
    lines.append('enum En\n{\n%s\n};' % ',\n'.join(enum_lines))
    # array sizes
    members = []
    for i in range(3):
        for _ in range(20):
            t, v = exprs.gen_tree(rng, env, depth=2, want_nonneg=True, ops=ops, bound=64)
            if 1 <= v <= 40:
                break
        else:
            t, v = ['num', 3], 3
        text = exprs.render(rng, t, octal=octal)
        members.append('    u8 a%d[%s];' % (i, text))
        items.append(('size', 'a%d' % i, t, text, v, dict(env)))
    lines.append('struct S\n{\n%s\n};' % '\n'.join(members))
    # discriminators
    arms, used = [], set()
    for i in range(3):
        t, v = exprs.gen_tree(rng, env, depth=2, want_nonneg=True, ops=ops, bound=1 << 31)
        if v in used:
            continue
        used.add(v)
        text = exprs.render(rng, t, octal=octal)
        arms.append('    %s: u8 x%d;' % (text, i))
        items.append(('disc', 'x%d' % i, t, text, v, dict(env)))
    lines.append('union U\n{\n%s\n};' % '\n'.join(arms))
    return '\n'.join(lines) + '\n', items


def observe_nodes(nodes):
    import prophyc.model as M
    out = {}
    for n in nodes:
        if isinstance(n, M.Constant):
            out[('const', n.name)] = n.value
        elif isinstance(n, M.Enum):
            for m in n.members:
                out[('enumerator', m.name)] = m.value
        elif isinstance(n, M.Struct):
            for m in n.members:
                out[('size', m.name)] = m.numeric_size
        elif isinstance(n, M.Union):
            for m in n.members:
                out[('disc', m.name)] = m.discriminator
    return out


def observe_python(mod):
    out = {}
    for k in dir(mod):
        v = getattr(mod, k)
        if isinstance(v, (int, float)) and not isinstance(v, bool) and (k.startswith('K') or k.startswith('E_')):
            out[('const' if k.startswith('K') else 'enumerator', k)] = v
    # the enum class's own descriptor (what the codec puts on the wire) must carry the same integers as the module constants
    if hasattr(mod, 'En'):
        for name, value in mod.En._enumerators:
            if out.get(('enumerator', name)) != value:
                out[('enumerator', name)] = {'module_constant': out.get(('enumerator', name)), 'enum_descriptor': value}
    if hasattr(mod, 'S'):
        for f in mod.S._descriptor:
            out[('size', f.name)] = f.type._SIZE
    if hasattr(mod, 'U'):
        for f in mod.U._descriptor:
            out[('disc', f.name)] = f.discriminator
    return out


def cpp_asserts(workdir, base, items, full):
    """static_assert every expected value against the generated header; returns list of failing names"""
    hdr = base + ('.ppf.hpp' if full else '.pp.hpp')
    ns = 'prophy::generated::' if full else ''
    lines = ['#include "%s"' % hdr, '#include <stddef.h>']
    idx = {}
    for i, (kind, name, _, _, v, _) in enumerate(items):
        tag = 'chk_%d' % i
        idx[tag] = (kind, name)
        if kind == 'const' or kind == 'enumerator':
            lines.append('static_assert((long long)%s%s == %dLL, "%s");' % (ns, name, v, tag))
        elif kind == 'size':
            if full:
                lines.append('static_assert(sizeof(((%sS*)0)->%s) == %d, "%s");' % (ns, name, v, tag))
            else:
                lines.append('static_assert(sizeof(((S*)0)->%s) == %d, "%s");' % (name, v, tag))
        elif kind == 'disc':
            lines.append('static_assert((long long)%sU::discriminator_%s == %dLL, "%s");' % (ns, name, v, tag))
    src = os.path.join(workdir, base + ('_full' if full else '_raw') + '_chk.cpp')
    with open(src, 'w') as f:
        f.write('\n'.join(lines) + '\n')
    p = subprocess.run(['g++', '-std=c++11', '-fsyntax-only', '-I' + os.path.join(REPO, 'prophy_cpp', 'include'), '-I' + workdir, src],
                       stdout=subprocess.PIPE, stderr=subprocess.STDOUT, timeout=300)
    out = p.stdout.decode(errors='replace')
    failing = sorted(set(idx[t] for t in idx if ('"%s"' % t) in out or (t + '\n') in out or (' ' + t) in out))
    other = p.returncode != 0 and not failing
    return failing, (out[:1500] if other else None)


def build_isar(rng, n_consts, ops, c_safe):
    """isar XML: constants, enumerators and array sizes given as expression text (read by calc)"""
    from xml.sax.saxutils import quoteattr
    env, items, consts = {}, [], []

    def text_of(t):
        s = exprs.render(rng, t, octal=False, c_safe=c_safe)
        return s

    for i in range(n_consts):
        name = 'K%d' % i
        t, v = exprs.gen_tree(rng, env, depth=rng.randint(1, 3), ops=ops, bound=1 << 62)
        text = text_of(t)
        consts.append('<constant name=%s value=%s/>' % (quoteattr(name), quoteattr(text)))
        items.append(('const', name, t, text, v, dict(env)))
        env[name] = v
    ems, used = [], set()
    for i in range(3):
        name = 'E_%d' % i
        t, v = exprs.gen_tree(rng, env, depth=2, want_nonneg=True, ops=ops, bound=1 << 31)
        prev = [it for it in items if it[0] == 'enumerator' and it[2][0] == 'bin']
        if prev and rng.random() < 0.6:
            # an earlier enumerator of this enum, itself a compound expression, used under a tighter operator
            pn, pv = prev[-1][1], prev[-1][4]
            k = rng.randint(2, 5)
            t, v = rng.choice([(['bin', '*', ['name', pn], ['num', k]], pv * k),
                               (['bin', '-', ['num', pv + k + 7], ['name', pn]], k + 7),
                               (['bin', '*', ['num', k], ['name', pn]], pv * k)])
            if v >= 1 << 31:
                t, v = ['bin', '-', ['num', pv + k], ['name', pn]], k
        if v in used:
            continue
        used.add(v)
        text = text_of(t)
        ems.append('<enum-member name=%s value=%s/>' % (quoteattr(name), quoteattr(text)))
        items.append(('enumerator', name, t, text, v, dict(env)))
        env[name] = v
    members = []
    for i in range(2):
        for _ in range(20):
            t, v = exprs.gen_tree(rng, env, depth=2, want_nonneg=True, ops=ops, bound=64)
            if 1 <= v <= 40:
                break
        else:
            t, v = ['num', 3], 3
        text = text_of(t)
        members.append('<member name="a%d" type="u8"><dimension size=%s/></member>' % (i, quoteattr(text)))
        items.append(('size', 'a%d' % i, t, text, v, dict(env)))
    xml = '<dom>\n%s\n<enum name="En">%s</enum>\n<struct name="S">%s</struct>\n</dom>\n' % (
        '\n'.join(consts), ''.join(ems), ''.join(members))
    return xml, items


def classify_c14(case, detail):
    """known finding D27b: isar expression text with an unparenthesised shift next to another operator is
    evaluated by prophyc (calc: shift binds tightest) and re-evaluated by the back-end language (shift binds loosest)"""
    def mixed(text):
        return ('<<' in text or '>>' in text) and any(o in text.replace('<<', '').replace('>>', '') for o in '+-*/')

    if case.get('syntax') == 'isar-raw-shift' and detail.get('site') == 'python-text' and detail.get('calc_ok'):
        texts = case.get('expressions') or [case.get('expression', '')]
        if any(mixed(t) for t in texts):
            return 'D27b'
    return None


def run_isar_stream(chk, workdir, n_schemas, c_safe):
    import prophyc.model as M
    ops = ('+', '-', '*', '/', '<<', '>>')
    reqs, rows = [], []
    syntax = 'isar' if c_safe else 'isar-raw-shift'
    for si in range(n_schemas):
        xml, items = build_isar(chk.rng, chk.rng.randint(2, 6), ops, c_safe)
        base = ('x%d' if c_safe else 'y%d') % si
        src = os.path.join(workdir, base + '.xml')
        with open(src, 'w') as f:
            f.write(xml)
        casej = {'schema': xml, 'syntax': syntax}
        try:
            res, _ = py_impl.run_prophyc(['--isar', '--python_out', workdir, src])
            nodes = res[base]
            consts = M._collect_constants(nodes)
        except Exception as ex:  # noqa
            chk.count((xml,))
            chk.property_violation(casej, {'what': 'prophyc failed on well-formed isar expressions: %s: %s' % (type(ex).__name__, str(ex)[:300])})
            continue
        try:
            mod = py_impl.import_file(os.path.join(workdir, base + '.py'))
            op = observe_python(mod) if hasattr(mod, 'S') else {}
            for k in dir(mod):
                v = getattr(mod, k)
                if isinstance(v, (int, float)) and not isinstance(v, bool) and (k.startswith('K') or k.startswith('E_')):
                    op.setdefault(('const' if k.startswith('K') else 'enumerator', k), v)
            if hasattr(mod, 'En'):
                for ename, evalue in mod.En._enumerators:
                    if op.get(('enumerator', ename)) != evalue:
                        op[('enumerator', ename)] = {'module_constant': op.get(('enumerator', ename)), 'enum_descriptor': evalue}
            import_error = None
        except Exception as ex:  # noqa
            op, import_error = {}, '%s: %s' % (type(ex).__name__, str(ex)[:200])
        sizes = {m.name: m.numeric_size for n in nodes if isinstance(n, M.Struct) for m in n.members}
        for kind, name, tree, etext, v, env in items:
            icase = dict(casej, item='%s %s' % (kind, name), expression=etext)
            if not c_safe:
                # a wrong value propagates to every later expression that uses the name
                icase['expressions'] = [it[3] for it in items]
            chk.count((syntax, etext, sorted(env.items())), tree[0] in ('bin', 'neg'))
            chk.bump('kind:%s/%s' % (syntax, kind))
            got_calc = sizes.get(name) if kind == 'size' else consts.get(name)
            calc_ok = (got_calc == v and not isinstance(got_calc, float))
            if not calc_ok:
                chk.property_violation(icase, {'what': 'model-time evaluator (calc) gives %r, integer arithmetic gives %d' % (got_calc, v), 'site': 'calc'})
            if import_error:
                pass   # reported once per schema below
            else:
                got_p = op.get((kind, name))
                if got_p != v or isinstance(got_p, float):
                    chk.property_violation(icase, {'what': 'generated Python module holds %r, integer arithmetic gives %d' % (got_p, v),
                                                   'site': 'python-text', 'calc_ok': calc_ok}, classify_c14)
            rows.append((icase, got_calc))
            reqs.append({'op': 'prophyc_eval', 'text': isar_expand(etext), 'env': env, 'octal': False})
        if import_error:
            all_calc_ok = all((sizes.get(n) if k == 'size' else consts.get(n)) == v for k, n, _, _, v, _ in items)
            chk.property_violation(dict(casej, expressions=[it[3] for it in items]),
                                   {'what': 'generated Python module does not import: ' + import_error, 'site': 'python-text',
                                    'calc_ok': all_calc_ok}, classify_c14)
    ans = client.batch(reqs)
    for (icase, got_calc), model in zip(rows, ans):
        chk.corr_compared += 1
        if model != {'value': got_calc}:
            chk.correspondence_mismatch('Expr.evalText (calc) = value computed by prophyc.calc', icase, got_calc, model)


CONST_EDGES = ['18446744073709551615', '18446744073709551616', '-18446744073709551615', '-9223372036854775808', '-9223372036854775809',
               '9223372036854775807 + 1', '0xFFFFFFFFFFFFFFFF', '0x10000000000000000', '-(1 << 63)', '-(1 << 63) - 1', '(1 << 64) - 1', '-0',
               '2 * 9223372036854775807 + 1', '0 - 9223372036854775808', '1 << 64', '-2147483648', '-2147483649', '-4294967295', '-9223372036854775807']


def run_const_edges(chk, workdir):
    """prophy constants at the edges of what 64 bits hold: accepted exactly when the model's `Expr.constText` accepts them,
    and then the same integer in Python and in both C++ headers (compiled)"""
    import prophyc
    reqs = [{'op': 'prophyc_const', 'text': t, 'env': {}} for t in CONST_EDGES]
    ans = client.batch(reqs)
    for i, (text, model) in enumerate(zip(CONST_EDGES, ans)):
        base = 'ce%d' % i
        src = os.path.join(workdir, base + '.prophy')
        with open(src, 'w') as f:
            f.write('const KE = %s;\n' % text)
        icase = {'syntax': 'prophy-constant-edge', 'expression': text, 'schema': 'const KE = %s;' % text}
        chk.count(('const-edge', text), True)
        chk.bump('kind:constant-edge')
        try:
            py_impl.run_prophyc(['--python_out', workdir, '--cpp_full_out', workdir, '--cpp_out', workdir, src])
            accepted = True
        except prophyc.ProphycError:
            accepted = False
        chk.corr_compared += 1
        if accepted != ('value' in model):
            chk.correspondence_mismatch('Expr.constText accepts = prophyc accepts the constant', icase, accepted, model)
        if not accepted:
            continue
        want = eval(text)   # noqa: S307 (literals of CONST_EDGES)
        got = {'python': py_impl.import_file(os.path.join(workdir, base + '.py')).KE}
        for full in (True, False):
            hdr, ns = (base + '.ppf.hpp', 'prophy::generated::') if full else (base + '.pp.hpp', '')
            prog = os.path.join(workdir, base + ('f' if full else 'r') + '_main.cpp')
            with open(prog, 'w') as f:
                f.write('#include <stdio.h>\n#include "%s"\nint main() { if (%sKE < 0) printf("%%lld\\n", (long long)%sKE); else printf("%%llu\\n", (unsigned long long)%sKE); }\n'
                        % (hdr, ns, ns, ns))
            exe = prog[:-4]
            # -pedantic-errors: a literal that only fits an unsigned type, written for a negative value, is an error (defect D150)
            p = subprocess.run(['g++', '-std=c++11', '-pedantic-errors', '-I' + os.path.join(REPO, 'prophy_cpp', 'include'), '-I' + workdir, prog, '-o', exe],
                               stdout=subprocess.PIPE, stderr=subprocess.STDOUT, timeout=300)
            key = 'c++ full' if full else 'c++ raw'
            if p.returncode != 0:
                got[key] = 'does not compile: ' + p.stdout.decode(errors='replace')[:160]
            else:
                got[key] = int(subprocess.run([exe], stdout=subprocess.PIPE, timeout=60).stdout.decode().strip())
        if any(v != want for v in got.values()):
            chk.property_violation(icase, {'what': 'an accepted constant is not the integer %d in every back-end' % want, 'values': got})


HOST_TEXTS = ['12', '0x10', '-0x10', '-3', '7/2', '(9-2)/2+5', '2*(3+4)', '(0-7)/2+5', '10+(1-8)/2', '010', '0010+1', '(1) << (31)', '2147483647 + 1', '65536 * 65536',
              '1 << 30', '32768 * 65535', '-0x80000000', '-0xFFFFFFFF', '-0x7FFFFFFF', '0x80000000', '0xFFFFFFFF', '-2147483648', '-0x8000000000000000',
              '0x7FFFFFFFFFFFFFFF', '-(5)', '- 7', '+7', '- 0x80000000', '-(0x80000000)', '- 9223372036854775808', '-( 9223372036854775808 )', '-  0xFFFFFFFF',
              '(-0x80000000)', '( - 0x80000000 )', '-((0x80000000))', '(-0x8000000000000000)', '(-9223372036854775808)', '(-5)', '((-(7)))',
              '-(0xC0000000)', '( -0xFFFFFFFF )', '- 0x8000000A', '-((0xdeadBEEF))', '-(0XC0000000)', '- 0xabcdef12',
              # grouping: calc's shift binds tightest, the hosts' loosest (D27b); `|` chains group differently and mean the same
              '1 << 2 + 1', '1 + 2 << 3', '16 >> 1 + 1', '2 * 3 << 1', '8 - 1 << 2', '(1 << 2) + 1', '1 << (2 + 1)', '1 | 2 | 4', '(1 | 2) | 4', '1 | 2 + 4',
              '7 - 2 - 1', '24 / 2 / 3', '2 * (3 + 4) - 5', '-(3) + 10', '100 / 7', '(0 - 7) / 2', '7 / (0 - 2)', '(0 - 8) / 2']


HOST_TEXTS_BIG = ['(1) << (31)', '2147483647 + 1', '65536 * 65536', '1 << 30', '32768 * 65535', '-0x80000000', '-0xFFFFFFFF', '-0x7FFFFFFF', '0x80000000', '0xFFFFFFFF',
                  '-2147483648', '-0x8000000000000000', '0x7FFFFFFFFFFFFFFF', '-(5)', '- 7', '- 0x80000000', '-(0x80000000)', '- 9223372036854775808',
                  '-( 9223372036854775808 )', '-  0xFFFFFFFF', '(-0x80000000)', '( - 0x80000000 )', '-((0x80000000))', '(-0x8000000000000000)',
                  '(-9223372036854775808)', '(-5)', '((-(7)))', '-(0xC0000000)', '( -0xFFFFFFFF )', '- 0x8000000A', '-((0xdeadBEEF))', '-(0XC0000000)',
                  '- 0xabcdef12']


LONE_LITERAL = re.compile(r'[\s()]*[-+]?[\s()]*(0[xX][0-9a-fA-F]+|[0-9]+)[\s()]*\Z')


def classify_host_text(case, detail):
    """known finding D63: isar expression text is pasted into the generated Python / C++; a decimal literal with a leading zero
    (calc: decimal; C++: octal; Python 3: a syntax error) and `/` with a negative operand (calc and Python floor, C++ truncates)
    denote different integers there"""
    import re
    text = case.get('expression', '')
    if re.search(r'(?<![\w.])0\d', text):
        return 'D63'
    if LONE_LITERAL.match(text):
        return None       # a lone literal, signed and parenthesised or not, is not pasted: `_to_literal` renders the number (D175, D187, D193)
    m = re.search(r'\(([^()]*)\)\s*/', text)
    if m and '-' in m.group(1):
        return 'D63'
    model = detail.get('model') or {}
    values = detail.get('values', {})
    if model.get('same_tree') is False and isinstance(model.get('py'), int) and values.get('python:constant') == model['py'] != values.get('calc:constant'):
        return 'D27b'     # the host grammar groups the text differently (shift beside + - * /), exactly as the model of the host parser says
    if model.get('prec_safe') and model.get('int32_safe') is False and values.get('python:constant') == values.get('calc:constant'):
        return 'D63'      # same tree, but C++ `int` arithmetic leaves the range / truncates the quotient (`int32Safe` fails)
    calc = values.get('calc:constant')
    if isinstance(calc, int) and calc >= 2 ** 31 and values.get('python:constant') == calc and re.search(r'<<|\*|\+', text):
        return 'D63'      # the C++ compiler evaluates the pasted text in 32-bit int arithmetic
    return None


def run_isar_host_text(chk, workdir):
    """isar expression text as a constant and an array size: prophyc's own value (layout), the Python module and the C++ full
    header (compiled and run) must hold one integer"""
    import prophyc
    import prophyc.model as M
    for i, text in enumerate(HOST_TEXTS):
        base = 'h%d' % i
        src = os.path.join(workdir, base + '.xml')
        small = text not in HOST_TEXTS_BIG        # array sizes only for texts that denote a small number
        with open(src, 'w') as f:
            f.write('<dom><constant name="KH" value="%s"/><struct name="SH"><member name="a" type="u8"><dimension size="%s"/></member>'
                    '<member name="b" type="u8"><dimension size="%s"/></member></struct></dom>' % (text, text if small else '2', 'KH' if small else '2'))
        icase = {'syntax': 'isar-host-text', 'expression': text}
        chk.count(('isar-host-text', text), True)
        chk.bump('kind:isar-host-text')
        try:
            res, _ = py_impl.run_prophyc(['--isar', '--python_out', workdir, '--cpp_full_out', workdir, '--cpp_out', workdir, src])
        except prophyc.ProphycError:
            chk.bump('isar-host-text-rejected')
            continue
        nodes = res[base]
        seen = {'calc:constant': M._collect_constants(nodes).get('KH')}
        for n in nodes:
            if isinstance(n, M.Struct) and small:
                seen['calc:size'] = n.members[0].numeric_size
                seen['calc:struct-size'] = n.byte_size // 2
        try:
            mod = py_impl.import_file(os.path.join(workdir, base + '.py'))
            seen['python:constant'] = mod.KH
            if small:
                seen['python:size'] = len(mod.SH().a)
        except Exception as ex:  # noqa
            seen['python:constant'] = '%s: %s' % (type(ex).__name__, str(ex)[:80])
        prog = os.path.join(workdir, base + '_main.cpp')
        with open(prog, 'w') as f:
            f.write('#include <stdio.h>\n#include "%s.ppf.hpp"\nint main() { prophy::generated::SH x; '
                    'printf("%%lld %%zu %%zu\\n", (long long)prophy::generated::KH, x.a.size(), x.get_byte_size() / 2); }\n' % base)
        exe = os.path.join(workdir, base + '_main')
        p = subprocess.run(['g++', '-std=c++11', '-I' + os.path.join(REPO, 'prophy_cpp', 'include'), '-I' + workdir, prog,
                            os.path.join(workdir, base + '.ppf.cpp'), '-o', exe], stdout=subprocess.PIPE, stderr=subprocess.STDOUT, timeout=300)
        if p.returncode != 0:
            seen['c++:constant'] = 'does not compile: ' + p.stdout.decode(errors='replace')[:120]
        else:
            out = subprocess.run([exe], stdout=subprocess.PIPE, timeout=60).stdout.decode().split()
            seen['c++:constant'] = int(out[0])
            if small:
                seen['c++:size'], seen['c++:byte-size'] = int(out[1]), int(out[2])
        # the raw header (--cpp_out) holds the constant as well
        prog = os.path.join(workdir, base + '_raw.cpp')
        with open(prog, 'w') as f:
            f.write('#include <stdio.h>\n#include "%s.pp.hpp"\nint main() { printf("%%lld\\n", (long long)KH); }\n' % base)
        p = subprocess.run(['g++', '-std=c++11', '-I' + os.path.join(REPO, 'prophy_cpp', 'include'), '-I' + workdir, prog, '-o', exe + '_raw'],
                           stdout=subprocess.PIPE, stderr=subprocess.STDOUT, timeout=300)
        if p.returncode != 0:
            seen['c++ raw:constant'] = 'does not compile: ' + p.stdout.decode(errors='replace')[:120]
        else:
            seen['c++ raw:constant'] = int(subprocess.run([exe + '_raw'], stdout=subprocess.PIPE, timeout=60).stdout.decode().split()[0])
        # what the model of the host languages (Lemmas/ExprHost.lean: host precedence, Python's integers, C++ `int` arithmetic)
        # predicts for this text; `C14_pasted_text_safe`: prec_safe and int32_safe => every back-end computes calc's integer
        m = client.batch([{'op': 'prophyc_host', 'text': isar_expand(text), 'env': {}}])[0]
        chk.corr_compared += 1
        predicted = {}
        if isinstance(m.get('calc'), int):
            predicted['calc:constant'] = m['calc']
        if isinstance(m.get('py'), int):
            predicted['python:constant'] = m['py']
        if isinstance(m.get('cpp'), int) and not LONE_LITERAL.match(text):
            # (a lone literal is not pasted: the generators render it with a suffix / in decimal)
            predicted['c++:constant'] = predicted['c++ raw:constant'] = m['cpp']
        wrong = dict((k, [seen.get(k), v]) for k, v in predicted.items() if k in seen and seen[k] != v and not re.search(r'(?<![\w.])0\d', text))
        if wrong:
            chk.correspondence_mismatch('Expr.parseWith hostInfo / evalPy / evalCpp = what the host language computes from the pasted text',
                                        icase, dict((k, v[0]) for k, v in wrong.items()), dict((k, v[1]) for k, v in wrong.items()))
        if m.get('prec_safe') and m.get('int32_safe') and not re.search(r'(?<![\w.])0\d', text) and len(set(map(str, seen.values()))) != 1:
            # inside the proved safe subset a disagreement is a violation, whatever it looks like
            chk.property_violation(icase, {'what': 'expression text inside the safe subset (no shift beside + - * /, every value within int) denotes different '
                                                   'integers in prophyc and its back-ends', 'values': seen})
        elif len(set(map(str, seen.values()))) != 1:
            chk.property_violation(icase, {'what': 'one isar expression text denotes different integers in prophyc and its back-ends', 'values': seen,
                                           'model': m}, classify_host_text)


def classify_enum_unsigned(case, detail):
    """known finding D190: positive literals carry the suffix `u`, so inside its own enum an earlier enumerator is unsigned in C++,
    and so is every enumerator of an enum that holds a value of 2^31 or more (isar's -1) wherever it is used:
    the C++ value is the one 32-bit unsigned arithmetic gives, prophyc's and Python's the one integer arithmetic gives"""
    v = detail.get('values', {})
    if case.get('syntax') == 'isar-enum-own-reference' and v.get('calc') == v.get('python') == case.get('integer') and \
            v.get('c++ full') == v.get('c++ raw') == case.get('unsigned') != case.get('integer'):
        return 'D190'
    return None


def run_literals(chk, workdir):
    """`_to_literal` of both C++ generators on lone literals in every spelling (blanks and parentheses around the sign or the
    digits, upper and lower case hexadecimal, values at the edges of int, unsigned, long) and on random near-literals: the text
    written is what `CppLit.toLiteral` writes, `int(text, 0)` is `CppLit.pyInt0`, and g++ reads from the written text the integer
    the literal denotes (theorem C14_lone_literal_rendered), which is what `CppLit.cppRead` says it reads"""
    from prophyc.generators import cpp as gcpp, cpp_full as gfull
    rng = chk.rng
    edges = [0, 1, 5, 10, 255, 2 ** 31 - 1, 2 ** 31, 2 ** 31 + 1, 2 ** 32 - 1, 2 ** 32, 2 ** 32 + 1, 2 ** 63 - 1, 2 ** 63, 2 ** 64 - 1, 0xC0000000, 0xdeadbeef, 0x8000000A]
    lone = []
    for _ in range(chk.scale(150, 1500)):
        mag = rng.choice(edges) if rng.random() < 0.7 else rng.randrange(2 ** rng.choice([8, 31, 32, 33, 63, 64]))
        neg = rng.random() < 0.6 and mag <= 2 ** 63
        if rng.random() < 0.5:
            digits = '%s%x' % (rng.choice(['0x', '0x', '0X']), mag)
            digits = ''.join(c.upper() if rng.random() < 0.4 and c not in 'xX' else c for c in digits)
        else:
            digits = str(mag)

        def blanks():
            return rng.choice(['', '', '', ' ', '  ', '\t'])
        pre_sign, post_sign, tail = '', '', ''
        for _ in range(rng.choice([0, 0, 1, 1, 2])):
            pre_sign += blanks() + '('
            tail = ')' + blanks() + tail
        for _ in range(rng.choice([0, 0, 1, 2])):
            post_sign += blanks() + '('
            tail = blanks() + ')' + tail
        sign = '-' if neg else rng.choice(['', '', '', '+'])
        text = blanks() + (pre_sign if sign else '') + sign + blanks() + post_sign + blanks() + digits + tail + blanks() if sign else \
            blanks() + pre_sign + post_sign + blanks() + digits + tail + blanks()
        lone.append((text, -mag if neg else mag))
    noise = []
    for _ in range(chk.scale(300, 3000)):
        noise.append(''.join(rng.choice(' \t()()--+0123456789aAfFxX_u') for _ in range(rng.randint(1, 9))))
    reqs = [{'op': 'cpp_literal', 'text': t} for t, _ in lone] + [{'op': 'cpp_literal', 'text': t} for t in noise]
    ans = client.batch(reqs)
    written = []
    for (text, value), m in zip(lone + [(t, None) for t in noise], ans):
        casej = {'syntax': 'literal', 'text': text, 'value': value}
        chk.count(('literal', text), value is not None)
        chk.bump('kind:literal ' + ('lone' if value is not None else 'noise'))
        got = {}
        for name, fn in (('cpp', gcpp._to_literal), ('cpp_full', gfull._to_literal)):
            try:
                got[name] = fn(text)
            except Exception as ex:  # noqa
                got[name] = '%s: %s' % (type(ex).__name__, str(ex)[:80])
        try:
            py = int(text, 0)
        except ValueError:
            py = None
        chk.corr_compared += 1
        if got['cpp'] != m['literal'] or got['cpp_full'] != m['literal'] or (py != m['py'] and text.isascii()):
            chk.correspondence_mismatch('CppLit.toLiteral = _to_literal, CppLit.pyInt0 = int(text, 0)', casej, {'literal': got, 'py': py},
                                        {'literal': m['literal'], 'py': m['py']})
            continue
        if value is not None:
            if m['lone'] != value:
                chk.correspondence_mismatch('CppLit.loneValue = the integer of a lone literal', casej, value, m['lone'])
            elif -2 ** 63 <= value < 2 ** 64:
                written.append((casej, got['cpp'], value, m))
    # what g++ reads from the written texts: one translation unit, every literal as an enumerator of its own enum
    for start in range(0, len(written), 200):
        part = written[start:start + 200]
        src = os.path.join(workdir, 'lit%d.cpp' % start)
        with open(src, 'w') as f:
            f.write('#include <stdio.h>\n')
            for k, (_, lit, _, _) in enumerate(part):
                f.write('enum { K%d = %s };\n' % (k, lit))
            f.write('int main() {\n')
            for k in range(len(part)):
                f.write(' printf("%%d %%llu\\n", (int)(K%d < 0), (unsigned long long)K%d);\n' % (k, k))
            f.write('}\n')
        p = subprocess.run(['g++', '-std=c++11', '-w', src, '-o', src[:-4]], stdout=subprocess.PIPE, stderr=subprocess.STDOUT, timeout=600)
        if p.returncode != 0:
            bad = sorted(set(int(x) for x in re.findall(r'lit\d+\.cpp:(\d+):', p.stdout.decode(errors='replace'))))
            for line in bad[:5]:
                if 2 <= line < 2 + len(part):
                    casej, lit, value, m = part[line - 2]
                    chk.property_violation(casej, {'what': 'the literal written into the C++ headers does not compile', 'written': lit,
                                                   'compiler': [x for x in p.stdout.decode(errors='replace').splitlines() if ':%d:' % line in x][:2]})
            if not bad:
                raise core.Infra('g++ failed on the literal file: ' + p.stdout.decode(errors='replace')[:300])
            continue
        lines = subprocess.run([src[:-4]], stdout=subprocess.PIPE, timeout=60).stdout.decode().split('\n')
        for (casej, lit, value, m), line in zip(part, lines):
            negative, magnitude = line.split()
            seen = int(magnitude) - (2 ** 64 if negative == '1' else 0)
            chk.bump('literal read by g++')
            if seen != value:
                chk.property_violation(casej, {'what': 'the literal written into the C++ headers is read as another integer', 'written': lit,
                                               'c++': seen, 'prophyc': value})
            if m['rendered']:       # the reader of the model covers the rendered forms; a pasted parenthesised text is the compiler's alone
                chk.corr_compared += 1
                chk.bump('literal rendered')
                if m['read'] != seen:
                    chk.correspondence_mismatch('CppLit.cppRead = what g++ reads from the written literal', dict(casej, written=lit), seen, m['read'])
            else:
                chk.bump('literal pasted')


def run_enum_negative(chk, workdir):
    """isar enumerators written as negative literals: -2^31 .. -1 are kept as two's complement in 32 bits (pinned by the repository's
    tests), anything below cannot be held by an enumerator: it is refused, not wrapped into another integer"""
    import prophyc
    import prophyc.model as M
    texts = ['-1', '-10', '-0x10', '- 3', '-2147483648', '-0x80000000', '-2147483649', '-0x80000001', '-3000000000', '-4294967294', '-4294967295',
             '-0xFFFFFFFF', '-4294967296', '-4294967297', '-9223372036854775808', '4294967295', '4294967296']
    for i, text in enumerate(texts):
        base = 'en%d' % i
        src = os.path.join(workdir, base + '.xml')
        with open(src, 'w') as f:
            f.write('<dom><enum name="EN"><enum-member name="EN_A" value="%s"/><enum-member name="EN_B" value="2"/></enum>'
                    '<struct name="SN"><member name="e" type="EN"/></struct></dom>' % text)
        value = int(text.replace(' ', ''), 0)
        icase = {'syntax': 'isar-enumerator-literal', 'expression': text, 'integer': value}
        chk.count(('enum-literal', text), True)
        chk.bump('kind:enum-literal')
        try:
            res, _ = py_impl.run_prophyc(['--isar', '--python_out', workdir, src])
        except prophyc.ProphycError:
            chk.bump('enum-literal refused')      # (a refusal is always allowed: `- 3` with a blank is refused, `-3` is not)
            continue
        got = M._collect_constants(res[base]).get('EN_A')
        try:
            module = dict(py_impl.import_file(os.path.join(workdir, base + '.py')).EN._enumerators)['EN_A']
        except Exception as ex:  # noqa
            module = '%s: %s' % (type(ex).__name__, str(ex)[:80])
        want = value + 2 ** 32 if -2 ** 31 <= value < 0 else value
        if not (-2 ** 31 <= value < 2 ** 32) or got != want or module != want:
            chk.property_violation(icase, {'what': 'an enumerator literal denotes %s for prophyc and %s in the Python module; integer arithmetic gives %d%s'
                                                   % (got, module, value, '' if -2 ** 31 <= value < 2 ** 32 else ', which no enumerator can hold')})


def run_enum_own_reference(chk, workdir):
    """isar enumerators that refer to earlier enumerators of their own enum: one integer in the layout, the Python module and both
    C++ headers (an expression with a negative intermediate result is known finding D190)"""
    import prophyc
    import prophyc.model as M
    cases = [('E_A + 1', 2, 2, None), ('(E_A + 3) * 2', 8, 8, None), ('((E_A - 3) >> 30) + 2', 1, 5, None), ('(E_A - 2) / 2 + 3', 2, 2147483650, None),
             ('E_A - 1', 0, 0, None),
             # outside its enum an enumerator is unsigned in C++ when the enum holds a value of 2^31 or more (isar's -1 is 0xFFFFFFFF)
             ('E_A - 2', -1, 4294967295, '-1'), ('E_A - 2', -1, 4294967295, '0x80000000'), ('E_A - 2', -1, -1, '3'), ('E_A + 2', 3, 3, '-1')]
    for i, (text, integer, unsigned, other) in enumerate(cases):
        base = 'eo%d' % i
        src = os.path.join(workdir, base + '.xml')
        with open(src, 'w') as f:
            if other is None:
                f.write('<dom><enum name="EO"><enum-member name="E_A" value="1"/><enum-member name="E_B" value="%s"/></enum>'
                        '<struct name="SO"><member name="e" type="EO"/></struct></dom>' % text.replace('>', '&gt;'))
            else:
                f.write('<dom><enum name="EO"><enum-member name="E_A" value="1"/><enum-member name="E_Other" value="%s"/></enum>'
                        '<constant name="E_B" value="%s"/><struct name="SO"><member name="e" type="EO"/></struct></dom>' % (other, text.replace('>', '&gt;')))
        icase = {'syntax': 'isar-enum-own-reference', 'expression': text, 'integer': integer, 'unsigned': unsigned, 'other_enumerator': other}
        chk.count(('enum-own', text), True)
        chk.bump('kind:enum-own-reference')
        try:
            res, _ = py_impl.run_prophyc(['--isar', '--python_out', workdir, '--cpp_full_out', workdir, '--cpp_out', workdir, src])
        except prophyc.ProphycError as ex:
            chk.property_violation(icase, {'what': 'prophyc refuses a well-formed enumerator expression: %s' % str(ex)[:200]})
            continue
        seen = {'calc': M._collect_constants(res[base]).get('E_B')}
        try:
            module = py_impl.import_file(os.path.join(workdir, base + '.py'))
            seen['python'] = dict(module.EO._enumerators)['E_B'] if other is None else module.E_B
        except Exception as ex:  # noqa
            seen['python'] = '%s: %s' % (type(ex).__name__, str(ex)[:80])
        for key, hdr, ns in (('c++ full', base + '.ppf.hpp', 'prophy::generated::'), ('c++ raw', base + '.pp.hpp', '')):
            prog = os.path.join(workdir, base + key[-3:].strip() + '_eo.cpp')
            with open(prog, 'w') as f:
                f.write('#include <stdio.h>\n#include "%s"\nint main() { printf("%%lld\\n", (long long)%s%sE_B); }\n' % (hdr, '(unsigned)' if other is None else '', ns))
            p = subprocess.run(['g++', '-std=c++11', '-I' + os.path.join(REPO, 'prophy_cpp', 'include'), '-I' + workdir, prog, '-o', prog[:-4]],
                               stdout=subprocess.PIPE, stderr=subprocess.STDOUT, timeout=300)
            seen[key] = int(subprocess.run([prog[:-4]], stdout=subprocess.PIPE, timeout=60).stdout.decode().split()[0]) if p.returncode == 0 else \
                'does not compile: ' + p.stdout.decode(errors='replace')[:120]
        if len(set(map(str, seen.values()))) != 1:
            chk.property_violation(icase, {'what': 'an enumerator expression over its own enum denotes different integers in prophyc and its back-ends', 'values': seen},
                                   classify_enum_unsigned)


def isar_expand(text):
    import prophyc.parsers.isar as I
    return I.expand_operators(text)


def run_c14(tier):
    chk = core.Check('C14', tier)
    chk.rule = ('random expression trees (decimal / hex / octal literals, + - * / << >>, unary minus, names of earlier constants and '
                'enumerators; division with non-negative operands and non-zero divisor) rendered with minimal + random redundant '
                'parentheses and spacing as constants, enumerator values, array sizes and union discriminators of prophy-language '
                'schemas; a case = one expression; non-trivial = tree with at least one operator. Observed: value in the nodes of '
                'prophyc.main(), in the imported Python module, and (static_assert, g++ -fsyntax-only) in the generated C++ full and raw headers.')
    chk.lean = core.lean_obligations('C14', thorough=(tier == 'thorough'))
    workdir = tempfile.mkdtemp(prefix='prophy-verif-')
    ops = ('+', '-', '*', '/', '<<', '>>')
    try:
        reqs, rows = [], []
        n_schemas = chk.scale(60, 600)
        cpp_every = chk.scale(6, 6)
        for si in range(n_schemas):
            text, items = build_schema(chk.rng, chk.rng.randint(3, 8), ops)
            base = 'e%d' % si
            src = os.path.join(workdir, base + '.prophy')
            with open(src, 'w') as f:
                f.write(text)
            casej = {'schema': text}
            want_cpp = (si % cpp_every == 0)
            args = ['--python_out', workdir] + (['--cpp_full_out', workdir, '--cpp_out', workdir] if want_cpp else []) + [src]
            try:
                res, _ = py_impl.run_prophyc(args)
                nodes = res[base]
                mod = py_impl.import_file(os.path.join(workdir, base + '.py'))
            except Exception as ex:  # noqa
                chk.count((text,))
                chk.property_violation(casej, {'what': 'prophyc / import failed on well-formed expressions: %s: %s' % (type(ex).__name__, str(ex)[:300])})
                continue
            on, op = observe_nodes(nodes), observe_python(mod)
            for kind, name, tree, etext, v, env in items:
                key = (kind, name)
                icase = dict(casej, item='%s %s' % (kind, name), expression=etext)
                chk.count((etext, sorted(env.items())), tree[0] in ('bin', 'neg'))
                chk.bump('kind:' + kind)
                chk.sample({'expression': etext, 'env': env, 'expected': v, 'kind': kind})
                got_n = on.get(key)
                try:
                    got_n_int = int(got_n) if not isinstance(got_n, float) else got_n
                except (TypeError, ValueError):
                    got_n_int = got_n
                got_p = op.get(key)
                rows.append((icase, tree, etext, env, v, got_n_int, got_p))
                reqs.append({'op': 'expr_eval_ast', 'ast': tree, 'env': env})
                reqs.append({'op': 'prophyc_eval', 'text': etext, 'env': env, 'octal': True})
            if want_cpp:
                for full in (True, False):
                    failing, other = cpp_asserts(workdir, base, items, full)
                    chk.bump('cpp-header-checked')
                    if other:
                        chk.property_violation(casej, {'what': 'generated C++ %s header does not compile' % ('full' if full else 'raw'), 'log': other})
                    for kind, name in failing:
                        it = next(x for x in items if x[0] == kind and x[1] == name)
                        chk.property_violation(dict(casej, item='%s %s' % (kind, name), expression=it[3]),
                                               {'what': 'C++ %s header holds another value than %d' % ('full' if full else 'raw', it[4])})
        ans = client.batch(reqs)
        for i, (icase, tree, etext, env, v, got_n, got_p) in enumerate(rows):
            spec, model = ans[2 * i], ans[2 * i + 1]
            if spec.get('value') != v:
                raise core.Infra('reference evaluation disagrees with Lean Expr.eval on %s: %s vs %s' % (tree, v, spec))
            if got_n != v or isinstance(got_n, float):
                chk.property_violation(icase, {'what': 'model node holds %r, integer arithmetic gives %d' % (got_n, v)})
            if got_p != v or isinstance(got_p, float):
                chk.property_violation(icase, {'what': 'generated Python module holds %r, integer arithmetic gives %d' % (got_p, v)})
            chk.corr_compared += 1
            if model != {'value': got_n}:
                chk.correspondence_mismatch('Expr.evalText = value computed by the prophy parser', icase, got_n, model)
        run_isar_stream(chk, workdir, chk.scale(40, 400), c_safe=True)
        run_isar_stream(chk, workdir, chk.scale(15, 100), c_safe=False)
        run_isar_host_text(chk, workdir)
        run_enum_own_reference(chk, workdir)
        run_literals(chk, workdir)
        run_enum_negative(chk, workdir)
        run_const_edges(chk, workdir)
    finally:
        shutil.rmtree(workdir, ignore_errors=True)
    return chk.finish()

"""
Corpus shared by the C++ full codec checks (C03 C05 C07 C18, C++ half of C19): generated
schemas compiled by the real prophyc into Python *and* C++ full codecs; the C++ side is a
driver process per batch built by harness/impl/cpp_full.py (g++, ASan + UBSan).
"""
import os
import shutil
import tempfile

from harness import core
from harness.gen import schema as S
from harness.impl import py_impl, cpp_full
from harness.checks import pycorpus

GEN_KW = dict(n_decls=9, shared_sizers=False)

# the hand-made corpus without arrays sharing a sizer (rejected by the C++ full generator by design)
CPP_CORPUS_TEXT = '\n'.join(line for line in pycorpus.CORPUS_TEXT.splitlines()
                            if not line.startswith('struct Ext')) + '''
struct Ext1 { u8 size; u16 pad; u16 x<@size>; };
struct ExtS { i16 n; u8 pad; OptSize y<@n>; u8 tail; };
struct LimOpt { Lim* o; u8 t; };
struct O16 { u16* o; u8 z; };
struct W64 { u64 bigs<>; };
struct GrD { u8 a; Dy g<...>; };
struct T5 { u64 x; u8 a<>; u8 b; };
struct WideCnt { u64 n; u32 x<@n>; u8 t; };
struct WideCntS { i64 n; OptSize x<@n>; };
struct WideCnt16 { u8 a; u64 n; u16 x<@n>; };
struct EnArr { En a[2]; En b<>; En c<3>; u16 t; };
struct EnArrG { u8 k; En g<...>; };
enum EDup { EDup_First = 1, EDup_Default = 1, EDup_Other = 2, EDup_Big = 2147483648, EDup_Top = 4294967295 };
struct DupE { EDup e; EDup a<>; };
union BigDisc { 1: u8 a; 2147483648: u32 b; 4294967295: EDup c; };
struct BigDiscS { BigDisc u; u8 t; };
struct DynOpt { u8 n<>; u32* o; u16* p; };
struct GrDO { u16 k; DynOpt g<...>; };
struct ArrDO { DynOpt a<>; u8 t; };
'''


def parse_cpp_corpus():
    saved = pycorpus.CORPUS_TEXT
    try:
        pycorpus.CORPUS_TEXT = CPP_CORPUS_TEXT
        return pycorpus.parse_corpus()
    finally:
        pycorpus.CORPUS_TEXT = saved


class CppCase(object):
    __slots__ = ('batch', 'text', 'name', 'tree', 'cls', 'tid', 'directed')

    def __init__(self, batch, text, name, tree, cls, tid, directed=None):
        self.batch, self.text, self.name, self.tree, self.cls, self.tid, self.directed = batch, text, name, tree, cls, tid, directed


class CppCorpus(object):
    def __init__(self, check, n_batches, gen_kwargs=None, corpus=True, opt=None, extra=()):
        """extra: [(schema text, base name, sanitizer flags or None)] - hand-made batches for directed cases only: their
        types carry `directed = base` and are skipped by the generic streams (`plain_types`)"""
        self.check = check
        self.workdir = tempfile.mkdtemp(prefix='prophy-verif-')
        self.types = []
        self.batches = []
        kw = dict(GEN_KW)
        kw.update(gen_kwargs or {})
        opt = opt or ('-O1' if check.tier == 'thorough' else '-O0')
        specs = []
        if corpus:
            specs.append((CPP_CORPUS_TEXT, parse_cpp_corpus(), 'corpus'))
        for i in range(n_batches):
            sc = S.Gen(check.rng, **kw).schema()
            specs.append((S.to_prophy(sc), sc, 'b%d' % i))
        san = {}
        for text, base, san_flags in extra:
            saved = pycorpus.CORPUS_TEXT
            try:
                pycorpus.CORPUS_TEXT = text
                specs.append((text, pycorpus.parse_corpus(), base))
            finally:
                pycorpus.CORPUS_TEXT = saved
            san[base] = san_flags
        tid = 0
        for text, sc, base in specs:
            names = S.type_names(sc)
            # ext-sized arrays sharing a sizer are not supported by the C++ full generator (check_nodes)
            trees = {n: S.tree(sc, n) for n in names}
            batch = cpp_full.FullBatch(text, names, base=base, trees=trees, sanitize=True, opt=opt, san_flags=san.get(base))
            batch.names = names
            batch.schema_text = text
            nodes, mod = py_impl.compile_prophy(text, self.workdir, base)
            batch.nodes = nodes
            for n in names:
                self.types.append(CppCase(batch, text, n, trees[n], getattr(mod, n), tid, base if base in san else None))
                for k, c in S.features(trees[n]).items():
                    check.bump(k, c)
                tid += 1
            self.batches.append(batch)
        results = cpp_full.build_many(self.batches, jobs=16)
        self.build_errors = []
        for batch, err in results:
            if err is not None:
                self.build_errors.append((batch, err))
        bad = set(id(b) for b, _ in self.build_errors)
        self.types = [c for c in self.types if id(c.batch) not in bad]

    @property
    def plain_types(self):
        return [c for c in self.types if c.directed is None]

    def deft_requests(self):
        return [{'op': 'deft', 'id': c.tid, 't': c.tree} for c in self.types]

    def run(self, per_case_requests):
        """per_case_requests: list of (case, request dict without 'type'); returns answers in order"""
        by_batch = {}
        for i, (c, r) in enumerate(per_case_requests):
            by_batch.setdefault(id(c.batch), (c.batch, []))[1].append((i, dict(r, type=c.name)))
        out = [None] * len(per_case_requests)
        for batch, items in by_batch.values():
            ans = batch.run([r for _, r in items])
            for (i, _), a in zip(items, ans):
                out[i] = a
        return out

    def report_build_errors(self, prop_classify=None):
        """a generated C++ full codec that does not build: infrastructure failure unless it is a property concern"""
        for batch, err in self.build_errors:
            stage = getattr(err, 'stage', '?')
            raise core.Infra('C++ build failed (%s) for batch %s: %s' % (stage, batch.base if hasattr(batch, 'base') else '?', str(err)[:1500]))

    def close(self):
        shutil.rmtree(self.workdir, ignore_errors=True)
        for b in self.batches:
            try:
                b.close()
            except Exception:  # noqa
                pass

"""
Shared machinery of all checks: Lean build + axiom audit, violation / known-finding
bookkeeping, replay files, evidence files, exit codes.

Exit codes: 0 property held on everything explored (KNOWN-FINDING lines allowed),
1 violation (a line `VIOLATION property=<id> replay=<path>` is printed), 2 infrastructure
failure (never reported as a violation).
"""
import hashlib
import json
import os
import random
import re
import subprocess
import sys
import time
import traceback

VERIF = os.path.dirname(os.path.dirname(os.path.abspath(__file__)))
LEAN_DIR = os.path.join(VERIF, 'lean')
REPLAYS = os.path.join(VERIF, 'replays')
EVIDENCE = os.path.join(VERIF, 'evidence')
CACHE = os.path.join(VERIF, '.cache')
ALLOWED_AXIOMS = {'propext', 'Classical.choice', 'Quot.sound'}
FORBIDDEN = re.compile(r'\b(sorry|admit|native_decide|bv_decide|implemented_by)\b|^\s*axiom\s|^\s*unsafe\s|maxHeartbeats\s+0')

TRUSTED_BASE = [
    'Lean 4.33.0 kernel (thorough tier: re-checked by leanchecker)',
    'axioms allowed in property theorems: propext, Classical.choice, Quot.sound (audited by #print axioms on every run)',
    'hand-written executable Lean model; tied to /repo by the correspondence check of this run (sampled, not proved)',
    'table translator harness/t1_extract.py (regenerates lean/ProphyModel/Generated/*.lean from /repo sources on every run)',
    'harness generators, comparators, JSON driver (lean/Driver.lean)',
    'CPython / struct / g++ semantics as listed in DESIGN.md section 3',
]


class Infra(Exception):
    """infrastructure failure: exit 2"""


def seed_from_env():
    try:
        return int(os.environ.get('VERIF_SEED', '0'))
    except ValueError:
        return 0


def stable_hash(obj):
    return hashlib.sha256(json.dumps(obj, sort_keys=True, default=str).encode()).hexdigest()[:12]


def load_registry():
    with open(os.path.join(LEAN_DIR, 'theorems.json')) as f:
        return json.load(f)


def strip_comments(text):
    text = re.sub(r'/-.*?-/', '', text, flags=re.S)
    return re.sub(r'--.*', '', text)


def run_t1():
    sys.path.insert(0, os.path.join(VERIF, 'harness'))
    import t1_extract
    return t1_extract.regenerate()


def lean_obligations(prop, thorough=False):
    """
    Regenerate the T1 tables, build the property's Lean module and audit its theorems.
    Returns dict: {obligations: [{name, ok, why}], build_ok, log}
    """
    reg = load_registry()[prop]
    module = reg['module']
    theorems = reg['theorems']
    res = {'obligations': [], 'build_ok': True, 'log': '', 't1': None}
    try:
        res['t1'] = run_t1()
    except Exception as e:  # a table can no longer be located
        res['t1'] = {'error': '%s: %s' % (type(e).__name__, e)}
    t0 = time.time()
    p = subprocess.run(['lake', 'build', module, 'prophy_driver'], cwd=LEAN_DIR, stdout=subprocess.PIPE,
                       stderr=subprocess.STDOUT, timeout=3000)
    res['build_s'] = round(time.time() - t0, 1)
    out = p.stdout.decode(errors='replace')
    if p.returncode != 0:
        res['build_ok'] = False
        res['log'] = out[-6000:]
    if res['t1'] and res['t1'].get('error'):
        res['build_ok'] = False
        res['log'] += '\nT1: ' + res['t1']['error']
    # forbidden constructs in the sources of the lean project (comments stripped)
    bad = []
    for root, _, files in os.walk(os.path.join(LEAN_DIR)):
        if '.lake' in root:
            continue
        for fn in files:
            if fn.endswith('.lean'):
                path = os.path.join(root, fn)
                for i, line in enumerate(strip_comments(open(path).read()).splitlines()):
                    if FORBIDDEN.search(line):
                        bad.append('%s:%d: %s' % (os.path.relpath(path, LEAN_DIR), i + 1, line.strip()[:80]))
    res['forbidden'] = bad
    if not res['build_ok']:
        for t in theorems:
            res['obligations'].append({'name': t, 'ok': False, 'why': 'module %s does not build' % module})
        return res
    # axiom audit
    os.makedirs(os.path.join(LEAN_DIR, '.lake', 'audit'), exist_ok=True)
    audit = os.path.join(LEAN_DIR, '.lake', 'audit', prop + '.lean')
    with open(audit, 'w') as f:
        f.write('import %s\n' % module)
        for t in theorems:
            f.write('#print axioms %s\n' % t)
    p = subprocess.run(['lake', 'env', 'lean', audit], cwd=LEAN_DIR, stdout=subprocess.PIPE, stderr=subprocess.STDOUT,
                       timeout=1200)
    text = p.stdout.decode(errors='replace').replace('\n  ', ' ')
    found = {}
    for m in re.finditer(r"'([^']+)' depends on axioms: \[([^\]]*)\]", text):
        found[m.group(1)] = [a.strip() for a in m.group(2).split(',') if a.strip()]
    for m in re.finditer(r"'([^']+)' does not depend on any axioms", text):
        found[m.group(1)] = []
    for t in theorems:
        full = t if t in found else next((k for k in found if k.endswith('.' + t) or k == t), None)
        if full is None:
            res['obligations'].append({'name': t, 'ok': False, 'why': 'theorem not found by audit: ' + text[-300:]})
            continue
        extra = [a for a in found[full] if a not in ALLOWED_AXIOMS]
        ok = not extra and not bad
        why = ('axioms %s' % found[full]) if not extra else 'forbidden axioms %s' % extra
        if bad:
            why += '; forbidden constructs: %s' % bad[:3]
        res['obligations'].append({'name': t, 'ok': ok, 'why': why, 'axioms': found[full]})
    if thorough:
        p = subprocess.run(['lake', 'env', 'leanchecker', module], cwd=LEAN_DIR, stdout=subprocess.PIPE,
                           stderr=subprocess.STDOUT, timeout=3000)
        res['leanchecker'] = {'rc': p.returncode, 'tail': p.stdout.decode(errors='replace')[-400:]}
        if p.returncode != 0:
            for o in res['obligations']:
                o['ok'] = False
                o['why'] += '; leanchecker failed'
    return res


def load_known_findings():
    path = os.path.join(VERIF, 'known_findings.json')
    if not os.path.exists(path):
        return []
    with open(path) as f:
        return json.load(f)['findings']


class Check(object):
    def __init__(self, prop, tier, level='proof'):
        self.prop = prop
        self.tier = tier
        self.level = level
        self.seed = seed_from_env()
        self.rng = random.Random('%s/%s/%d' % (prop, tier, self.seed))
        self.t0 = time.time()
        self.violations = []       # unlisted violations
        self.known_hits = {}       # finding id -> first case text
        self.evaluations = 0
        self.distinct = set()
        self.samples = []
        self.hist = {}
        self.notes = []
        self.corr_disagreements = []
        self.corr_compared = 0
        self.lean = None
        self.known = [k for k in load_known_findings() if k['property'] == prop and k['status'] == 'open']
        self.rule = ''
        self.extra = {}
        os.makedirs(REPLAYS, exist_ok=True)
        os.makedirs(EVIDENCE, exist_ok=True)

    # --- bookkeeping
    def bump(self, key, n=1):
        self.hist[key] = self.hist.get(key, 0) + n

    def count(self, case_key, nontrivial=True):
        self.evaluations += 1
        if nontrivial:
            self.distinct.add(stable_hash(case_key))

    def sample(self, obj, limit=3):
        if len(self.samples) < limit:
            self.samples.append(obj)

    def scale(self, quick, thorough):
        return thorough if self.tier == 'thorough' else quick

    # --- outcomes
    def property_violation(self, case, detail, classify=None):
        """the implementation violates the property itself on `case`"""
        fid = classify(case, detail) if classify else None
        if fid is not None and any(k['id'] == fid for k in self.known):
            if fid not in self.known_hits:
                self.known_hits[fid] = detail
            return
        self.violations.append({'kind': 'property', 'case': case, 'detail': detail})

    def correspondence_mismatch(self, relation, case, impl, model):
        self.corr_disagreements.append({'relation': relation, 'case': case, 'impl': impl, 'model': model})

    def write_replay(self, v):
        path = os.path.join(REPLAYS, '%s-%s.json' % (self.prop, stable_hash(v)))
        with open(path, 'w') as f:
            json.dump({'property': self.prop, 'seed': self.seed, 'tier': self.tier, **v}, f, indent=1, default=str)
        return path

    def finish(self):
        wall = time.time() - self.t0
        lean = self.lean or {'obligations': [], 'build_ok': True}
        broken = [o for o in lean['obligations'] if not o['ok']]
        lines = []
        rc = 0
        for fid, detail in self.known_hits.items():
            k = next(k for k in self.known if k['id'] == fid)
            lines.append('KNOWN-FINDING: property=%s %s [%s]' % (self.prop, k['text'], fid))
        if self.violations:
            # report the smallest few
            self.violations.sort(key=lambda v: len(json.dumps(v, default=str)))
            for v in self.violations[:3]:
                path = self.write_replay(v)
                lines.append('VIOLATION property=%s replay=%s' % (self.prop, path))
            rc = 1
        elif broken or self.corr_disagreements:
            # the property is no longer shown to hold and no failing input was found
            v = {'kind': 'unproved',
                 'broken_obligations': broken,
                 'lean_log': lean.get('log', '')[-3000:],
                 'correspondence_disagreements': self.corr_disagreements[:5],
                 'note': 'no input violating the property itself was found by the search on the implementation'}
            path = self.write_replay(v)
            lines.append('VIOLATION property=%s replay=%s no-failing-input-found' % (self.prop, path))
            rc = 1
        n_obl = len(lean['obligations'])
        ev = {
            'property_id': self.prop,
            'tier': self.tier,
            'seed': self.seed,
            'level': self.level,
            'coverage': {
                'obligations': n_obl,
                'discharged': n_obl - len(broken),
                'checker_cmd': 'cd lean && lake build %s && lake env lean .lake/audit/%s.lean  (#print axioms)%s' % (
                    load_registry()[self.prop]['module'], self.prop,
                    ' && lake env leanchecker <module>' if self.tier == 'thorough' else ''),
                'trusted_base': TRUSTED_BASE,
                'theorems': [{'name': o['name'], 'ok': o['ok'], 'axioms': o.get('axioms'), 'why': o['why']} for o in lean['obligations']],
                'evaluations': self.evaluations,
                'distinct_nontrivial': len(self.distinct),
                'rule': self.rule,
                'samples': self.samples,
                'traces_validated_against_impl': self.corr_compared,
                'correspondence_disagreements': len(self.corr_disagreements),
                'input_distribution': dict(sorted(self.hist.items())),
                'known_findings_hit': sorted(self.known_hits),
                't1': lean.get('t1'),
                'lean_build_s': lean.get('build_s'),
                'leanchecker': lean.get('leanchecker'),
                **self.extra,
            },
            'assumptions': self.notes + ['see DESIGN.md section 3 (trusted base)'],
            'wall_s': round(wall, 2),
            'violations': len(self.violations) + (1 if rc and not self.violations else 0),
        }
        with open(os.path.join(EVIDENCE, self.prop + '.json'), 'w') as f:
            json.dump(ev, f, indent=1, default=str)
        for line in lines:
            print(line)
        print('%s %s: %d evaluations, %d distinct non-trivial, %d/%d obligations, %d correspondence cases, %.1fs -> exit %d' % (
            self.prop, self.tier, self.evaluations, len(self.distinct), n_obl - len(broken), n_obl, self.corr_compared, wall, rc))
        return rc


def main_wrapper(fn):
    """run a check function, mapping infrastructure failures to exit 2"""
    try:
        rc = fn()
    except Infra as e:
        print('INFRASTRUCTURE FAILURE: %s' % e)
        sys.exit(2)
    except subprocess.TimeoutExpired as e:
        print('INFRASTRUCTURE FAILURE (timeout): %s' % e)
        sys.exit(2)
    except Exception:
        traceback.print_exc()
        print('INFRASTRUCTURE FAILURE: unexpected exception in the harness')
        sys.exit(2)
    sys.exit(rc)
